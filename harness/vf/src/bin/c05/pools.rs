//! Typed argument pools of the C05 catalogue: type limits, +-1 around them,
//! zero, sign changes. Every pool element carries a printable label (the case
//! string is built from labels).

use super::chk::{NS, SPAN_LIMITS};
use jiff::civil::{Date, DateTime, Era, Time, Weekday};
use jiff::tz::{Disambiguation, Offset, OffsetConflict, TimeZone};
use jiff::{RoundMode, SignedDuration, Span, Timestamp, Unit, Zoned};
use std::sync::Arc;
use std::time::{Duration, SystemTime};

pub struct P<A>(pub Arc<Vec<(String, A)>>);
impl<A> Clone for P<A> {
    fn clone(&self) -> Self {
        P(self.0.clone())
    }
}
impl<A> P<A> {
    pub fn len(&self) -> usize {
        self.0.len()
    }
    pub fn val(&self, i: usize) -> &A {
        &self.0[i].1
    }
    pub fn lab(&self, i: usize) -> &str {
        &self.0[i].0
    }
}
pub fn p<A>(v: Vec<A>, lab: impl Fn(&A) -> String) -> P<A> {
    P(Arc::new(v.into_iter().map(|a| (lab(&a), a)).collect()))
}
pub fn pd<A: std::fmt::Debug>(v: Vec<A>) -> P<A> {
    p(v, |a| format!("{:?}", a))
}
/// the first `k` elements (pools are ordered so that the limits come first)
pub fn head<A: Clone>(q: &P<A>, k: usize) -> P<A> {
    P(Arc::new(q.0.iter().take(k).cloned().collect()))
}
pub fn pick<A: Clone>(q: &P<A>, f: impl Fn(&str, &A) -> bool) -> P<A> {
    P(Arc::new(q.0.iter().filter(|(l, a)| f(l, a)).cloned().collect()))
}

pub const UNITS: [Unit; 10] = [
    Unit::Nanosecond,
    Unit::Microsecond,
    Unit::Millisecond,
    Unit::Second,
    Unit::Minute,
    Unit::Hour,
    Unit::Day,
    Unit::Week,
    Unit::Month,
    Unit::Year,
];
pub const MODES: [RoundMode; 9] = [
    RoundMode::Ceil,
    RoundMode::Floor,
    RoundMode::Expand,
    RoundMode::Trunc,
    RoundMode::HalfCeil,
    RoundMode::HalfFloor,
    RoundMode::HalfExpand,
    RoundMode::HalfTrunc,
    RoundMode::HalfEven,
];
pub const INCS: [i64; 11] = [i64::MIN, -1, 0, 1, 2, 7, 24, 25, 60, 1000, i64::MAX];
/// the richer increment pool of the `round((unit, increment))` entries: the
/// largest legal increment of every unit and its neighbours, divisors of a
/// civil day in every unit (legal for Timestamp / SignedDuration / Offset),
/// and powers of two around the integer widths
pub const INCS2: [i64; 48] = [
    i64::MIN, -1, 0, 1, 2, 3, 4, 5, 6, 7, 8, 10, 12, 13, 15, 20, 23, 24, 25, 30, 31, 59, 60, 61, 100, 500, 999, 1000, 1001,
    3_600, 43_200, 86_400, 86_401, 1_000_000, 43_200_000, 86_400_000, 1_000_000_000, 86_400_000_000, 43_200_000_000_000,
    86_400_000_000_000, 86_400_000_000_001, 2_147_483_647, 2_147_483_648, 4_294_967_296, 9_223_372_036_854_775, 9_223_372_036_854_776,
    i64::MAX - 1, i64::MAX,
];
pub const WEEKDAYS: [Weekday; 7] = [
    Weekday::Monday,
    Weekday::Tuesday,
    Weekday::Wednesday,
    Weekday::Thursday,
    Weekday::Friday,
    Weekday::Saturday,
    Weekday::Sunday,
];

/// smallest unit x increment x mode
#[derive(Clone, Copy, Debug)]
pub struct RO {
    pub unit: Unit,
    pub inc: i64,
    pub mode: RoundMode,
}
/// smallest x largest x mode
#[derive(Clone, Copy, Debug)]
pub struct SL {
    pub smallest: Unit,
    pub largest: Option<Unit>,
    pub mode: RoundMode,
}

/// an argument of `checked_add` / `checked_sub`
#[derive(Clone, Debug)]
pub enum Dur {
    Span(Span),
    S(SignedDuration),
    U(Duration),
}

/// `relative to` of span operations
#[derive(Clone, Debug)]
pub enum Rel {
    None,
    Days24,
    Date(Date),
    DateTime(DateTime),
    Zoned(Zoned),
}

/// how an ambiguous civil time is resolved
#[derive(Clone, Copy, Debug)]
pub enum Disamb {
    Compatible,
    Earlier,
    Later,
    Reject,
}
impl Disamb {
    pub fn to(self) -> Disambiguation {
        match self {
            Disamb::Compatible => Disambiguation::Compatible,
            Disamb::Earlier => Disambiguation::Earlier,
            Disamb::Later => Disambiguation::Later,
            Disamb::Reject => Disambiguation::Reject,
        }
    }
}

pub struct Pools {
    pub i8_all: P<i8>,
    pub i8s: P<i8>,
    pub hours: P<i8>,
    pub minsecs: P<i8>,
    pub i16s: P<i16>,
    pub i32s: P<i32>,
    pub nths: P<i32>,
    pub i64s: P<i64>,
    pub i128s: P<i128>,
    pub f64s: P<f64>,
    pub f32s: P<f32>,
    pub eras: P<Era>,
    pub weekdays: P<Weekday>,
    pub units: P<Unit>,
    pub ros: P<RO>,
    pub sls: P<SL>,
    pub dates: P<Date>,
    pub dates_s: P<Date>,
    pub times: P<Time>,
    pub dts: P<DateTime>,
    pub dts_m: P<DateTime>,
    pub dts_s: P<DateTime>,
    pub tss: P<Timestamp>,
    pub tss_s: P<Timestamp>,
    pub zones: P<TimeZone>,
    pub zone_names: P<String>,
    /// every zone of the bundled database
    pub all_zones: P<TimeZone>,
    pub zoneds: P<Zoned>,
    pub zoneds_m: P<Zoned>,
    pub zoneds_s: P<Zoned>,
    /// every ordered pair of instants of one zone, for every zone
    pub zoned_pairs: P<(Zoned, Zoned)>,
    pub spans: P<Span>,
    pub spans_s: P<Span>,
    pub span_bases: P<Span>,
    pub sdurs: P<SignedDuration>,
    pub udurs: P<Duration>,
    pub durs: P<Dur>,
    pub rels: P<Rel>,
    pub offsets: P<Offset>,
    pub conflicts: P<(OffsetConflict, Disamb)>,
    pub disambs: P<Disamb>,
    pub systimes: P<SystemTime>,
}

fn around(v: &mut Vec<i64>, l: i64) {
    for x in [l.saturating_sub(1), l, l.saturating_add(1)] {
        v.push(x);
        v.push(x.checked_neg().unwrap_or(i64::MIN));
    }
}

fn dedup<T: PartialEq + Copy>(v: Vec<T>) -> Vec<T> {
    let mut out: Vec<T> = vec![];
    for x in v {
        if !out.contains(&x) {
            out.push(x);
        }
    }
    out
}

pub fn ts_label(t: &Timestamp) -> String {
    format!("ts({})", t.as_nanosecond())
}
pub fn zoned_label(z: &Zoned) -> String {
    format!("ts({})[{}]", z.timestamp().as_nanosecond(), tz_label(z.time_zone()))
}
pub fn tz_label(tz: &TimeZone) -> String {
    match tz.iana_name() {
        Some(n) => n.to_string(),
        None => match tz.to_fixed_offset() {
            Ok(o) => format!("fixed({})", o.seconds()),
            Err(_) => "posix(EST5EDT,M3.2.0,M11.1.0)".to_string(),
        },
    }
}

fn span_of(unit: usize, v: i64) -> Option<Span> {
    let s = Span::new();
    match unit {
        0 => s.try_years(v),
        1 => s.try_months(v),
        2 => s.try_weeks(v),
        3 => s.try_days(v),
        4 => s.try_hours(v),
        5 => s.try_minutes(v),
        6 => s.try_seconds(v),
        7 => s.try_milliseconds(v),
        8 => s.try_microseconds(v),
        _ => s.try_nanoseconds(v),
    }
    .ok()
}

pub fn build(quick: bool) -> Pools {
    // ---- integers -------------------------------------------------------
    let i8_all: Vec<i8> = (i8::MIN..=i8::MAX).collect();
    let i8s: Vec<i8> = vec![
        i8::MIN, i8::MAX, -127, 126, 0, 1, -1, 2, -2, 3, 4, 5, 6, 7, 8, 11, 12, 13, 23, 24, 25, 26, 28, 29, 30, 31, 32, 52, 53, 54, 58,
        59, 60, 61, 99, 100, -4, -5, -6, -7, -12, -13, -24, -25, -26, -31, -32, -53, -54, -59, -60,
    ];
    let hours: Vec<i8> = vec![i8::MIN, i8::MAX, -1, 0, 1, 2, 12, 23, 24, 25];
    let minsecs: Vec<i8> = vec![i8::MIN, i8::MAX, -1, 0, 1, 30, 59, 60, 61];
    let i16s: Vec<i16> = vec![
        i16::MIN, i16::MAX, i16::MIN + 1, i16::MAX - 1, -10000, -9999, -9998, 9998, 9999, 10000, 0, 1, -1, 4, 100, 365, 366, 367, 400, 999, 1000,
        1001, -1000, 1969, 1970, 2000, 2023, 2024,
    ];
    let i32s: Vec<i32> = vec![
        i32::MIN,
        i32::MAX,
        i32::MIN + 1,
        i32::MAX - 1,
        -1_000_000_000,
        -999_999_999,
        999_999_999,
        1_000_000_000,
        1_000_000_001,
        -1_000_000_001,
        999_999_998,
        1_999_999_999,
        2_000_000_000,
        -2_000_000_000,
        -93_600,
        -93_599,
        93_599,
        93_600,
        -86_400,
        86_399,
        86_400,
        0,
        1,
        -1,
        2,
        500_000_000,
        -500_000_000,
        3_600,
        -3_600,
    ];
    let nths: Vec<i32> = vec![
        i32::MIN, i32::MAX, i32::MIN + 1, i32::MAX - 1, -1_043_498, -1_043_497, -1_043_496, 1_043_496, 1_043_497, 1_043_498, 0, 1, -1, 2, -2, 4, -4,
        5, -5, 6, -6, 53, -53, 1_000_000, -1_000_000,
    ];
    let mut i64s: Vec<i64> = vec![i64::MIN, i64::MAX, i64::MIN + 1, i64::MAX - 1, 0, 1, -1, 2, -2];
    for l in SPAN_LIMITS.iter().take(9) {
        around(&mut i64s, *l);
    }
    for l in [
        377_705_023_201i64,
        253_402_207_200,
        377_705_023_201_000,
        253_402_207_200_999,
        377_705_023_201_000_000,
        253_402_207_200_999_999,
        86_400,
        93_599,
        i32::MAX as i64,
        i32::MIN as i64,
        i16::MAX as i64,
        12,
        24,
        60,
        1000,
        2_562_047, // i64::MAX ns in hours
        9_223_372_036, // i64::MAX ns in seconds
        i64::MAX / 3_600, // SignedDuration::from_hours limit
        i64::MAX / 60,    // SignedDuration::from_mins limit
        i64::MAX / 1_000, // whole seconds of i64::MAX milliseconds
    ] {
        around(&mut i64s, l);
    }
    let i64s = dedup(i64s);
    let i128s: Vec<i128> = dedup(vec![
        i128::MIN,
        i128::MAX,
        i128::MIN + 1,
        i128::MAX - 1,
        super::chk::TS_MIN,
        super::chk::TS_MAX,
        super::chk::TS_MIN - 1,
        super::chk::TS_MAX + 1,
        super::chk::TS_MIN + 1,
        super::chk::TS_MAX - 1,
        i64::MIN as i128,
        i64::MAX as i128,
        i64::MIN as i128 - 1,
        i64::MAX as i128 + 1,
        0,
        1,
        -1,
        NS,
        -NS,
        NS - 1,
        1 - NS,
    ]);
    let two63 = 9_223_372_036_854_775_808.0f64;
    let below = |x: f64| f64::from_bits(x.to_bits() - 1);
    let f64s: Vec<f64> = vec![
        f64::NAN,
        f64::INFINITY,
        f64::NEG_INFINITY,
        f64::MAX,
        f64::MIN,
        two63,
        -two63,
        below(two63),
        -below(two63),
        two63 * 2.0,
        -two63 * 2.0,
        1e19,
        -1e19,
        0.0,
        -0.0,
        f64::MIN_POSITIVE,
        -f64::MIN_POSITIVE,
        f64::EPSILON,
        1e-9,
        -1e-9,
        0.5e-9,
        -0.5e-9,
        0.4e-9,
        0.999_999_999_5,
        -0.999_999_999_5,
        0.999_999_999_4,
        1.0,
        -1.0,
        1.5,
        -1.5,
        631_107_417_600.0,
        -631_107_417_600.0,
        4_294_967_296.0,
        9_007_199_254_740_992.0,
        -9_007_199_254_740_992.0,
        9_007_199_254_740_993.0,
    ];
    let two63f = 9_223_372_036_854_775_808.0f32;
    let belowf = |x: f32| f32::from_bits(x.to_bits() - 1);
    let f32s: Vec<f32> = vec![
        f32::NAN,
        f32::INFINITY,
        f32::NEG_INFINITY,
        f32::MAX,
        f32::MIN,
        two63f,
        -two63f,
        belowf(two63f),
        -belowf(two63f),
        two63f * 2.0,
        1e19,
        -1e19,
        0.0,
        -0.0,
        f32::MIN_POSITIVE,
        f32::EPSILON,
        1e-9,
        -1e-9,
        0.5e-9,
        0.999_999_9,
        1.0,
        -1.0,
        1.5,
        16_777_216.0,
        16_777_217.0,
    ];

    // ---- options --------------------------------------------------------
    let mut ros = vec![];
    for unit in UNITS {
        for inc in INCS {
            for mode in MODES {
                ros.push(RO { unit, inc, mode });
            }
        }
    }
    let mut sls = vec![];
    for smallest in UNITS {
        for largest in std::iter::once(None).chain(UNITS.iter().map(|u| Some(*u))) {
            for mode in [RoundMode::Trunc, RoundMode::HalfExpand, RoundMode::Ceil, RoundMode::Floor] {
                sls.push(SL { smallest, largest, mode });
            }
        }
    }

    // ---- civil ----------------------------------------------------------
    let mut dates = vf::pools::dates();
    if !quick {
        for (y, m, d) in [
            (2024, 1, 1), (2023, 3, 31), (2023, 4, 30), (2024, 2, 28), (2024, 3, 1), (2021, 2, 28), (1900, 2, 28), (1900, 3, 1), (2000, 12, 31),
            (2001, 1, 1), (1582, 10, 15), (-1, 1, 1), (4, 2, 29), (400, 2, 29), (-400, 2, 29), (9999, 1, 1), (9999, 2, 28), (-9999, 12, 1),
            (9998, 12, 31), (-9998, 1, 1), (2011, 12, 30), (2011, 12, 29), (1919, 3, 1),
        ] {
            dates.push(Date::new(y, m, d).unwrap());
        }
    }
    // limits first
    let lim_first = |d: &Date| if *d == Date::MIN || *d == Date::MAX { 0 } else { 1 };
    let mut dates_sorted = dates.clone();
    dates_sorted.sort_by_key(lim_first);
    let dates_s: Vec<Date> = vec![
        Date::MIN,
        Date::MAX,
        Date::new(2024, 2, 29).unwrap(),
        Date::new(1970, 1, 1).unwrap(),
        Date::new(0, 3, 1).unwrap(),
        Date::new(2023, 1, 31).unwrap(),
    ];
    let times = vf::pools::times();
    let dts = vf::pools::datetimes();
    // medium: every date x {00:00, 02:30, 23:59:59.999999999, 12:00:00.5}
    let tm: Vec<Time> = vec![times[0], times[5], times[11], times[7]];
    let mut dts_m = vec![];
    for d in &dates_sorted {
        for t in &tm {
            dts_m.push(DateTime::from_parts(*d, *t));
        }
    }
    let mut dts_s = vec![];
    for d in &dates_s {
        for t in [times[0], times[11], times[5]] {
            dts_s.push(DateTime::from_parts(*d, t));
        }
    }

    // ---- instants, zones ------------------------------------------------
    let tss_v = {
        let mut v = vf::pools::timestamps();
        // the catalogue's products are sized for about twenty instants: the 18
        // basic ones and the four around +2^63 ns of the shared pool
        v.truncate(22);
        // limits first
        v.sort_by_key(|t| if *t == Timestamp::MIN || *t == Timestamp::MAX { 0 } else { 1 });
        v
    };
    let tss_s: Vec<Timestamp> = tss_v.iter().take(8).cloned().collect();

    let quick_zones = [
        "America/New_York",   // first offset (LMT) negative
        "Europe/Berlin",      // first offset (LMT) positive
        "Australia/Lord_Howe", // 30 minute DST
        "Pacific/Apia",       // skipped a civil day
        "Africa/Monrovia",    // sub-minute offsets
        "America/Sao_Paulo",  // midnight gaps
        "UTC",
    ];
    let mut zones_v: Vec<(String, TimeZone, Option<refmodel::tz::Zone>)> = vec![];
    let _ = quick_zones;
    for z in vf::zones::rep() {
        let pair = vf::zones::load_pair(&z).expect("rep zone loads");
        zones_v.push((z.name.clone(), pair.jiff, Some(pair.model)));
    }
    let fixed = |s: i32| TimeZone::fixed(Offset::from_seconds(s).unwrap());
    zones_v.push(("fixed(-93599)".into(), fixed(-93_599), None));
    zones_v.push(("fixed(93599)".into(), fixed(93_599), None));
    zones_v.push(("fixed(19800)".into(), fixed(19_800), None));
    let posix = "EST5EDT,M3.2.0,M11.1.0";
    zones_v.push((
        format!("posix({})", posix),
        TimeZone::posix(posix).unwrap(),
        Some(refmodel::tz::zone_from_posix(posix.as_bytes()).unwrap()),
    ));
    zones_v.push(("unknown".into(), TimeZone::unknown(), None));

    // zoned pool: per zone the timestamp pool plus, around up to `ntrans`
    // transitions (the first recorded one and the last ones before 2025),
    // T-1ns, T, T+30min
    let y2025 = refmodel::cal::days_from_civil(2025, 1, 1) * 86400;
    let mut zoneds_v: Vec<Zoned> = vec![];
    let mut zoneds_m: Vec<Zoned> = vec![];
    let mut zoneds_s: Vec<Zoned> = vec![];
    let mlim = 4;
    let ntrans = if quick { 3 } else { 10 };
    let mut zoned_pairs: Vec<(Zoned, Zoned)> = vec![];
    for (zi, (_, tz, model)) in zones_v.iter().enumerate() {
        let mut inst: Vec<i128> = tss_v.iter().map(|t| t.as_nanosecond()).collect();
        let mut tr: Vec<i128> = vec![];
        if let Some(m) = model {
            let ch: Vec<i64> = m
                .changing()
                .into_iter()
                .map(|k| m.pieces[k].start)
                .filter(|s| *s > vf::zones::TS_MIN_SEC && *s < y2025)
                .collect();
            let mut pickv: Vec<i64> = vec![];
            if let Some(f) = ch.first() {
                pickv.push(*f);
            }
            for s in ch.iter().rev().take(ntrans - 1) {
                if !pickv.contains(s) {
                    pickv.push(*s);
                }
            }
            for t in pickv {
                let b = t as i128 * NS;
                tr.extend([b - 1, b, b + 1800 * NS]);
            }
        }
        inst.extend(tr.iter().cloned());
        for (k, n) in inst.iter().enumerate() {
            let z = Zoned::new(Timestamp::from_nanosecond(*n).unwrap(), tz.clone());
            // medium: limits, epoch-ish and the transition neighbours
            if k < mlim || (k >= tss_v.len() && k < tss_v.len() + 9) {
                zoneds_m.push(z.clone());
            }
            // small: first five zones, limits + last transition neighbours
            if zi < 5 && (k < 2 || k == 4 || (k >= tss_v.len() + 3 && k < tss_v.len() + 6)) {
                zoneds_s.push(z.clone());
            }
            zoneds_v.push(z);
        }
        let mine = &zoneds_v[zoneds_v.len() - inst.len()..];
        for a in mine {
            for b in mine {
                zoned_pairs.push((a.clone(), b.clone()));
            }
        }
    }
    let mut zone_names: Vec<String> = zones_v.iter().filter(|z| z.2.is_some() && !z.0.starts_with("posix")).map(|z| z.0.clone()).collect();
    zone_names.extend(["".to_string(), "Nowhere/None".to_string(), "america/new_york".to_string(), "Etc/Unknown".to_string(), "local".to_string()]);

    // ---- spans and durations -------------------------------------------
    let unit_names = ["y", "mo", "w", "d", "h", "min", "s", "ms", "us", "ns"];
    let carries: [i64; 10] = [1, 12, 5, 31, 24, 60, 60, 1000, 1000, 1000];
    let mut spans: Vec<(String, Span)> = vec![("zero".into(), Span::new())];
    let mut spans_s: Vec<(String, Span)> = vec![("zero".into(), Span::new())];
    for u in 0..10 {
        let l = SPAN_LIMITS[u];
        let full: Vec<i64> = vec![l, -l, 1, -1, l - 1, -(l - 1), carries[u], -carries[u], carries[u] + 1, 2, -2, 86_400, -999_999_999];
        let small: Vec<i64> = vec![l, -l, 1, -1];
        for (k, v) in dedup(full).into_iter().enumerate() {
            if let Some(s) = span_of(u, v) {
                let lab = format!("{}{}", v, unit_names[u]);
                if small.contains(&v) {
                    spans_s.push((lab.clone(), s));
                }
                if !quick || k < 8 {
                    spans.push((lab, s));
                }
            }
        }
    }
    let mix = |vals: [i64; 10]| -> Span {
        let mut s = Span::new();
        for u in 0..10 {
            if vals[u] == 0 {
                continue;
            }
            s = match u {
                0 => s.try_years(vals[u]),
                1 => s.try_months(vals[u]),
                2 => s.try_weeks(vals[u]),
                3 => s.try_days(vals[u]),
                4 => s.try_hours(vals[u]),
                5 => s.try_minutes(vals[u]),
                6 => s.try_seconds(vals[u]),
                7 => s.try_milliseconds(vals[u]),
                8 => s.try_microseconds(vals[u]),
                _ => s.try_nanoseconds(vals[u]),
            }
            .unwrap();
        }
        s
    };
    let mut maxall = SPAN_LIMITS;
    maxall[9] = i64::MAX;
    let mixes: Vec<(&str, [i64; 10])> = vec![
        ("all-max", maxall),
        ("1y1mo1d", [1, 1, 0, 1, 0, 0, 0, 0, 0, 0]),
        ("1mo1d1h", [0, 1, 0, 1, 1, 0, 0, 0, 0, 0]),
        ("1d1h1ns", [0, 0, 0, 1, 1, 0, 0, 0, 0, 1]),
        ("all-ones", [1; 10]),
        ("1w6d23h59min59s999ms999us999ns", [0, 0, 1, 6, 23, 59, 59, 999, 999, 999]),
        ("max-time-units", [0, 0, 0, 0, maxall[4], maxall[5], maxall[6], maxall[7], maxall[8], maxall[9]]),
    ];
    for (lab, vals) in mixes {
        let s = mix(vals);
        spans.push((lab.to_string(), s));
        spans.push((format!("-({})", lab), s.negate()));
        if lab == "all-max" || lab == "1mo1d1h" {
            spans_s.push((lab.to_string(), s));
            spans_s.push((format!("-({})", lab), s.negate()));
        }
    }
    let span_bases: Vec<(String, Span)> = vec![
        ("zero".into(), Span::new()),
        ("all-ones".into(), mix([1; 10])),
        ("-(all-ones)".into(), mix([1; 10]).negate()),
    ];

    let sd = |s: i64, n: i32| SignedDuration::new(s, n);
    let sdurs: Vec<SignedDuration> = vec![
        SignedDuration::MIN,
        SignedDuration::MAX,
        sd(i64::MIN, 0),
        sd(i64::MAX, 0),
        sd(i64::MIN + 1, 0),
        sd(i64::MIN + 1, -999_999_999),
        sd(i64::MAX - 1, 999_999_999),
        sd(0, 0),
        sd(0, 1),
        sd(0, -1),
        sd(1, 0),
        sd(-1, 0),
        sd(0, 999_999_999),
        sd(0, -999_999_999),
        sd(1, 500_000_000),
        sd(-1, -500_000_000),
        sd(59, 999_999_999),
        sd(3_600, 0),
        sd(-3_600, 0),
        sd(86_400, 0),
        sd(-86_400, 0),
        sd(93_599, 0),
        sd(-93_599, 0),
        sd(93_600, 0),
        sd(-93_600, 0),
        sd(93_599, 999_999_999),
        sd(631_107_417_600, 0),
        sd(-631_107_417_600, 0),
        sd(631_107_417_600, 1),
        sd(-631_107_417_600, -1),
        sd(631_107_230_401, 999_999_999), // MAX - MIN of Timestamp
        sd(-631_107_230_401, -999_999_999),
        sd(631_107_230_402, 0),
        sd(9_223_372_036, 854_775_807), // i64::MAX ns
        sd(9_223_372_036, 854_775_808),
        sd(-9_223_372_036, -854_775_808),
        sd(-9_223_372_036, -854_775_809),
        sd(253_402_207_200, 999_999_999),
        sd(-377_705_023_201, 0),
        // one step outside the Timestamp range, the last instant of a civil day
        sd(253_402_207_201, 0),
        sd(-377_705_023_201, -1),
        sd(-377_705_023_202, 0),
        sd(86_399, 999_999_999),
        sd(-86_399, -999_999_999),
        sd(i64::MAX, 1),
        sd(i64::MIN, -1),
    ];
    let udurs: Vec<Duration> = vec![
        Duration::MAX,
        Duration::ZERO,
        Duration::new(0, 1),
        Duration::new(1, 0),
        Duration::new(0, 999_999_999),
        Duration::new(86_400, 0),
        Duration::new(93_599, 0),
        Duration::new(93_600, 0),
        Duration::new(631_107_417_600, 0),
        Duration::new(631_107_417_600, 1),
        Duration::new(631_107_230_401, 999_999_999),
        Duration::new(9_223_372_036, 854_775_807),
        Duration::new(9_223_372_036, 854_775_808),
        Duration::new(i64::MAX as u64, 999_999_999),
        Duration::new(i64::MAX as u64 + 1, 0),
        // |i64::MIN| seconds is the one magnitude that only exists negated
        Duration::new(i64::MAX as u64 + 1, 1),
        Duration::new(i64::MAX as u64 + 1, 999_999_999),
        Duration::new(i64::MAX as u64 + 2, 0),
        Duration::new(u64::MAX, 0),
        Duration::new(86_399, 999_999_999),
        Duration::new(253_402_207_201, 0),
    ];
    let mut durs: Vec<(String, Dur)> = vec![];
    for (l, s) in &spans {
        durs.push((format!("span({})", l), Dur::Span(*s)));
    }
    for d in &sdurs {
        durs.push((format!("sdur({},{})", d.as_secs(), d.subsec_nanos()), Dur::S(*d)));
    }
    for d in &udurs {
        durs.push((format!("udur({},{})", d.as_secs(), d.subsec_nanos()), Dur::U(*d)));
    }

    // ---- relative-to ----------------------------------------------------
    let mut rels: Vec<(String, Rel)> = vec![("none".into(), Rel::None), ("days-are-24h".into(), Rel::Days24)];
    for d in [Date::MIN, Date::MAX, Date::new(2024, 2, 29).unwrap(), Date::new(2023, 1, 31).unwrap()] {
        rels.push((format!("{}", d), Rel::Date(d)));
    }
    for dt in [DateTime::MIN, DateTime::MAX, Date::new(2024, 3, 10).unwrap().at(2, 30, 0, 0)] {
        rels.push((format!("{}", dt), Rel::DateTime(dt)));
    }
    {
        // New_York (or the first zone) at the limits and next to its last transition
        let (_, tz, _) = &zones_v[0];
        let picks: Vec<&Zoned> = zoneds_v.iter().filter(|z| z.time_zone() == tz).collect();
        // 0, 1: Timestamp::MIN / MAX; 21, 22: T-1ns and T of the zone's last transition before 2025
        for k in [0usize, 1, 21, 22] {
            rels.push((zoned_label(picks[k]), Rel::Zoned(picks[k].clone())));
        }
        let (_, tz, _) = &zones_v[3.min(zones_v.len() - 1)];
        if let Some(z) = zoneds_v.iter().filter(|z| z.time_zone() == tz).last() {
            rels.push((zoned_label(z), Rel::Zoned(z.clone())));
        }
    }

    let offsets: Vec<Offset> = [
        -93_599, 93_599, -93_598, 93_598, 0, 1, -1, 1_800, 3_600, -3_600, 19_800, -86_400, 86_399, 86_400, -90_000, 59, -59, 30,
    ]
    .iter()
    .map(|s| Offset::from_seconds(*s).unwrap())
    .collect();

    let mut conflicts = vec![];
    for c in [OffsetConflict::AlwaysOffset, OffsetConflict::AlwaysTimeZone, OffsetConflict::PreferOffset, OffsetConflict::Reject] {
        for d in [Disamb::Compatible, Disamb::Earlier, Disamb::Later, Disamb::Reject] {
            conflicts.push((c, d));
        }
    }

    let mut systimes: Vec<(String, SystemTime)> = vec![("epoch".into(), SystemTime::UNIX_EPOCH)];
    for (s, n) in [(0u64, 1u32), (1, 0), (253_402_207_200, 999_999_999), (253_402_207_201, 0), (377_705_023_201, 0), (377_705_023_201, 1), (9_223_372_036, 854_775_808), (1u64 << 40, 0)] {
        let d = Duration::new(s, n);
        if let Some(t) = SystemTime::UNIX_EPOCH.checked_add(d) {
            systimes.push((format!("epoch+({},{})", s, n), t));
        }
        if let Some(t) = SystemTime::UNIX_EPOCH.checked_sub(d) {
            systimes.push((format!("epoch-({},{})", s, n), t));
        }
    }

    Pools {
        i8_all: pd(i8_all),
        i8s: pd(i8s),
        hours: pd(hours),
        minsecs: pd(minsecs),
        i16s: pd(i16s),
        i32s: pd(i32s),
        nths: pd(nths),
        i64s: pd(i64s),
        i128s: pd(i128s),
        f64s: p(f64s, |x| format!("f64({:?}=0x{:016x})", x, x.to_bits())),
        f32s: p(f32s, |x| format!("f32({:?}=0x{:08x})", x, x.to_bits())),
        eras: pd(vec![Era::CE, Era::BCE]),
        weekdays: pd(WEEKDAYS.to_vec()),
        units: pd(UNITS.to_vec()),
        ros: p(ros, |o| format!("{:?}/inc={}/{:?}", o.unit, o.inc, o.mode)),
        sls: p(sls, |o| format!("smallest={:?}/largest={:?}/{:?}", o.smallest, o.largest, o.mode)),
        dates: pd(dates_sorted),
        dates_s: pd(dates_s),
        times: pd(times),
        dts: pd(dts),
        dts_m: pd(dts_m),
        dts_s: pd(dts_s),
        tss: p(tss_v, ts_label),
        tss_s: p(tss_s, ts_label),
        zones: P(Arc::new(zones_v.iter().map(|z| (z.0.clone(), z.1.clone())).collect())),
        zone_names: pd(zone_names),
        all_zones: {
            let mut names: Vec<&str> = jiff_tzdb::available().collect();
            names.sort();
            P(Arc::new(names.into_iter().filter_map(|n| TimeZone::get(n).ok().map(|tz| (n.to_string(), tz))).collect()))
        },
        zoneds: p(zoneds_v, zoned_label),
        zoneds_m: p(zoneds_m, zoned_label),
        zoneds_s: p(zoneds_s, zoned_label),
        zoned_pairs: p(zoned_pairs, |ab| format!("{} | {}", zoned_label(&ab.0), zoned_label(&ab.1))),
        spans: P(Arc::new(spans)),
        spans_s: P(Arc::new(spans_s)),
        span_bases: P(Arc::new(span_bases)),
        sdurs: p(sdurs, |d| format!("sdur({},{})", d.as_secs(), d.subsec_nanos())),
        udurs: p(udurs, |d| format!("udur({},{})", d.as_secs(), d.subsec_nanos())),
        durs: P(Arc::new(durs)),
        rels: P(Arc::new(rels)),
        offsets: p(offsets, |o| format!("offset({})", o.seconds())),
        conflicts: p(conflicts, |c| format!("{:?}/{:?}", c.0, c.1)),
        disambs: pd(vec![Disamb::Compatible, Disamb::Earlier, Disamb::Later, Disamb::Reject]),
        systimes: P(Arc::new(systimes)),
    }
}
