//! The hand-written catalogue: one entry per public fallible operation (and per
//! distinct way of calling it). Entry name = `Type::method` or
//! `Type::method(variant)`; the part before `(` is matched against the source
//! scan to list public `-> Result` functions that are NOT catalogued.

use super::chk::Chk;
use super::pools::{self, head, p, pd, pick, Disamb, Dur, Pools, Rel, P, RO, SL};
use super::{run, Entry};
use jiff::civil::{
    Date, DateDifference, DateTime, DateTimeDifference, DateTimeRound, ISOWeekDate, Time, TimeDifference, TimeRound, Weekday,
};
use jiff::tz::{Offset, OffsetRound};
use jiff::{
    SignedDuration, SignedDurationRound, Span, SpanRelativeTo, SpanRound, Timestamp, TimestampDifference, TimestampRound, Zoned,
    ZonedDifference, ZonedRound,
};

type Cat = Vec<Entry>;

fn ok<T>(t: T) -> Result<T, ()> {
    Ok(t)
}
fn opt<T>(t: Option<T>) -> Result<T, ()> {
    t.ok_or(())
}
fn take1000<I: Iterator>(it: I) -> Result<Vec<I::Item>, ()> {
    Ok(it.take(1000).collect())
}

fn add1<A, T, E, F>(cat: &mut Cat, name: &str, pa: &P<A>, f: F)
where
    A: Send + Sync + 'static,
    T: Chk,
    F: Fn(&A) -> Result<T, E> + Send + Sync + 'static,
{
    let (a1, a2) = (pa.clone(), pa.clone());
    let nm = name.to_string();
    cat.push(Entry {
        name: name.to_string(),
        n: pa.len(),
        eval: Box::new(move |i, buf| run(buf, || f(a1.val(i)))),
        case: Box::new(move |i| format!("{}: {}", nm, a2.lab(i))),
    });
}

fn add2<A, B, T, E, F>(cat: &mut Cat, name: &str, pa: &P<A>, pb: &P<B>, f: F)
where
    A: Send + Sync + 'static,
    B: Send + Sync + 'static,
    T: Chk,
    F: Fn(&A, &B) -> Result<T, E> + Send + Sync + 'static,
{
    let (a1, a2, b1, b2) = (pa.clone(), pa.clone(), pb.clone(), pb.clone());
    let nb = pb.len();
    let nm = name.to_string();
    cat.push(Entry {
        name: name.to_string(),
        n: pa.len() * nb,
        eval: Box::new(move |i, buf| run(buf, || f(a1.val(i / nb), b1.val(i % nb)))),
        case: Box::new(move |i| format!("{}: {} | {}", nm, a2.lab(i / nb), b2.lab(i % nb))),
    });
}

fn add3<A, B, C, T, E, F>(cat: &mut Cat, name: &str, pa: &P<A>, pb: &P<B>, pc: &P<C>, f: F)
where
    A: Send + Sync + 'static,
    B: Send + Sync + 'static,
    C: Send + Sync + 'static,
    T: Chk,
    F: Fn(&A, &B, &C) -> Result<T, E> + Send + Sync + 'static,
{
    let (a1, a2, b1, b2, c1, c2) = (pa.clone(), pa.clone(), pb.clone(), pb.clone(), pc.clone(), pc.clone());
    let (nb, nc) = (pb.len(), pc.len());
    let nm = name.to_string();
    cat.push(Entry {
        name: name.to_string(),
        n: pa.len() * nb * nc,
        eval: Box::new(move |i, buf| run(buf, || f(a1.val(i / (nb * nc)), b1.val((i / nc) % nb), c1.val(i % nc)))),
        case: Box::new(move |i| format!("{}: {} | {} | {}", nm, a2.lab(i / (nb * nc)), b2.lab((i / nc) % nb), c2.lab(i % nc))),
    });
}

fn add4<A, B, C, D, T, E, F>(cat: &mut Cat, name: &str, pa: &P<A>, pb: &P<B>, pc: &P<C>, pd_: &P<D>, f: F)
where
    A: Send + Sync + 'static,
    B: Send + Sync + 'static,
    C: Send + Sync + 'static,
    D: Send + Sync + 'static,
    T: Chk,
    F: Fn(&A, &B, &C, &D) -> Result<T, E> + Send + Sync + 'static,
{
    let (a1, a2, b1, b2, c1, c2, d1, d2) = (pa.clone(), pa.clone(), pb.clone(), pb.clone(), pc.clone(), pc.clone(), pd_.clone(), pd_.clone());
    let (nb, nc, nd) = (pb.len(), pc.len(), pd_.len());
    let nm = name.to_string();
    cat.push(Entry {
        name: name.to_string(),
        n: pa.len() * nb * nc * nd,
        eval: Box::new(move |i, buf| {
            run(buf, || f(a1.val(i / (nb * nc * nd)), b1.val((i / (nc * nd)) % nb), c1.val((i / nd) % nc), d1.val(i % nd)))
        }),
        case: Box::new(move |i| {
            format!("{}: {} | {} | {} | {}", nm, a2.lab(i / (nb * nc * nd)), b2.lab((i / (nc * nd)) % nb), c2.lab((i / nd) % nc), d2.lab(i % nd))
        }),
    });
}

/// dispatch on the three kinds of duration arguments
macro_rules! with_dur {
    ($d:expr, |$x:ident| $body:expr) => {
        match $d {
            Dur::Span(v) => {
                let $x = *v;
                $body
            }
            Dur::S(v) => {
                let $x = *v;
                $body
            }
            Dur::U(v) => {
                let $x = *v;
                $body
            }
        }
    };
}

/// dispatch on the kinds of `relative to`: `$none` when absent, else `$some`
/// with `$x` bound to something that is `Into<SpanRelativeTo>`
macro_rules! with_rel {
    ($r:expr, $none:expr, |$x:ident| $some:expr) => {
        match $r {
            Rel::None => $none,
            Rel::Days24 => {
                let $x = SpanRelativeTo::days_are_24_hours();
                $some
            }
            Rel::Date(v) => {
                let $x = *v;
                $some
            }
            Rel::DateTime(v) => {
                let $x = *v;
                $some
            }
            Rel::Zoned(v) => {
                let $x = v;
                $some
            }
        }
    };
}

macro_rules! diff_entries {
    ($cat:expr, $ty:literal, $D:ident, $big:expr, $small:expr, $P:expr) => {{
        add3($cat, concat!($ty, "::until(largest)"), $big, $big, &$P.units, |a, b, u| a.until((*u, b.clone())));
        add3($cat, concat!($ty, "::since(largest)"), $big, $big, &$P.units, |a, b, u| a.since((*u, b.clone())));
        add3($cat, concat!($ty, "::until(smallest,increment,mode)"), $small, $small, &$P.ros, |a, b, o: &RO| {
            a.until($D::new(b.clone()).smallest(o.unit).increment(o.inc).mode(o.mode))
        });
        add3($cat, concat!($ty, "::since(smallest,increment,mode)"), $small, $small, &$P.ros, |a, b, o: &RO| {
            a.since($D::new(b.clone()).smallest(o.unit).increment(o.inc).mode(o.mode))
        });
        add3($cat, concat!($ty, "::until(smallest,largest,mode)"), $small, $small, &$P.sls, |a, b, o: &SL| {
            let mut d = $D::new(b.clone()).smallest(o.smallest).mode(o.mode);
            if let Some(l) = o.largest {
                d = d.largest(l);
            }
            a.until(d)
        });
    }};
}

pub fn build(quick: bool) -> Cat {
    let pl: Pools = pools::build(quick);
    let mut cat: Cat = vec![];
    let c = &mut cat;

    // =====================================================================
    // civil::Weekday, civil::ISOWeekDate
    // =====================================================================
    add1(c, "Weekday::from_monday_zero_offset", &pl.i8_all, |x| Weekday::from_monday_zero_offset(*x));
    add1(c, "Weekday::from_monday_one_offset", &pl.i8_all, |x| Weekday::from_monday_one_offset(*x));
    add1(c, "Weekday::from_sunday_zero_offset", &pl.i8_all, |x| Weekday::from_sunday_zero_offset(*x));
    add1(c, "Weekday::from_sunday_one_offset", &pl.i8_all, |x| Weekday::from_sunday_one_offset(*x));

    add3(c, "ISOWeekDate::new", &pl.i16s, &pl.i8s, &pl.weekdays, |y, w, d| ISOWeekDate::new(*y, *w, *d));
    let iwds: P<ISOWeekDate> = {
        let mut v: Vec<ISOWeekDate> = vec![ISOWeekDate::MIN, ISOWeekDate::MAX];
        for y in [-9999i16, 9999, 2020, 2024, 0] {
            for w in [1i8, 2, 52, 53] {
                for wd in [Weekday::Monday, Weekday::Friday, Weekday::Saturday, Weekday::Sunday] {
                    if let Ok(x) = ISOWeekDate::new(y, w, wd) {
                        v.push(x);
                    }
                }
            }
        }
        for i in 0..pl.dates.len() {
            v.push(pl.dates.val(i).iso_week_date());
        }
        pd(v)
    };
    add1(c, "ISOWeekDate::first_of_week", &iwds, |x| x.first_of_week());
    add1(c, "ISOWeekDate::last_of_week", &iwds, |x| x.last_of_week());
    add1(c, "ISOWeekDate::first_of_year", &iwds, |x| x.first_of_year());
    add1(c, "ISOWeekDate::last_of_year", &iwds, |x| x.last_of_year());
    add1(c, "ISOWeekDate::tomorrow", &iwds, |x| x.tomorrow());
    add1(c, "ISOWeekDate::yesterday", &iwds, |x| x.yesterday());

    // =====================================================================
    // civil::Date
    // =====================================================================
    add3(c, "Date::new", &pl.i16s, &pl.i8s, &pl.i8s, |y, m, d| Date::new(*y, *m, *d));
    add1(c, "Date::tomorrow", &pl.dates, |d| d.tomorrow());
    add1(c, "Date::yesterday", &pl.dates, |d| d.yesterday());
    add3(c, "Date::nth_weekday_of_month", &pl.dates, &pl.i8_all, &pl.weekdays, |d, n, w| d.nth_weekday_of_month(*n, *w));
    add3(c, "Date::nth_weekday", &pl.dates, &pl.nths, &pl.weekdays, |d, n, w| d.nth_weekday(*n, *w));
    add2(c, "Date::in_tz", &pl.dates, &pl.zone_names, |d, n| d.in_tz(n));
    add2(c, "Date::to_zoned", &pl.dates, &pl.zones, |d, tz| d.to_zoned(tz.clone()));
    add2(c, "Date::checked_add", &pl.dates, &pl.durs, |d, x| with_dur!(x, |v| d.checked_add(v)));
    add2(c, "Date::checked_sub", &pl.dates, &pl.durs, |d, x| with_dur!(x, |v| d.checked_sub(v)));
    diff_entries!(c, "Date", DateDifference, &pl.dates, &pl.dates_s, pl);
    add2(c, "DateWith::build(year)", &pl.dates, &pl.i16s, |d, v| d.with().year(*v).build());
    add3(c, "DateWith::build(era_year)", &pl.dates, &pl.i16s, &pl.eras, |d, v, e| d.with().era_year(*v, *e).build());
    add2(c, "DateWith::build(month)", &pl.dates, &pl.i8_all, |d, v| d.with().month(*v).build());
    add2(c, "DateWith::build(day)", &pl.dates, &pl.i8_all, |d, v| d.with().day(*v).build());
    add2(c, "DateWith::build(day_of_year)", &pl.dates, &pl.i16s, |d, v| d.with().day_of_year(*v).build());
    add2(c, "DateWith::build(day_of_year_no_leap)", &pl.dates, &pl.i16s, |d, v| d.with().day_of_year_no_leap(*v).build());
    add3(c, "DateWith::build(month,day)", &pl.dates, &pl.i8s, &pl.i8s, |d, m, x| d.with().month(*m).day(*x).build());
    add3(c, "DateWith::build(year,day_of_year)", &pl.dates, &pl.i16s, &pl.i16s, |d, y, x| d.with().year(*y).day_of_year(*x).build());
    add3(c, "DateWith::build(month,day_of_year)", &pl.dates, &pl.i8s, &pl.i16s, |d, m, x| d.with().month(*m).day_of_year(*x).build());
    add2(c, "Date::series", &pl.dates, &pl.spans, |d, s| take1000(d.series(*s)));

    // =====================================================================
    // civil::Time
    // =====================================================================
    add4(c, "Time::new", &pl.hours, &pl.minsecs, &pl.minsecs, &pl.i32s, |h, m, s, n| Time::new(*h, *m, *s, *n));
    add2(c, "Time::checked_add", &pl.times, &pl.durs, |t, x| with_dur!(x, |v| t.checked_add(v)));
    add2(c, "Time::checked_sub", &pl.times, &pl.durs, |t, x| with_dur!(x, |v| t.checked_sub(v)));
    diff_entries!(c, "Time", TimeDifference, &pl.times, &pl.times, pl);
    add2(c, "Time::round", &pl.times, &pl.ros, |t, o| t.round(TimeRound::new().smallest(o.unit).increment(o.inc).mode(o.mode)));
    add2(c, "TimeWith::build(hour)", &pl.times, &pl.i8_all, |t, v| t.with().hour(*v).build());
    add2(c, "TimeWith::build(minute)", &pl.times, &pl.i8_all, |t, v| t.with().minute(*v).build());
    add2(c, "TimeWith::build(second)", &pl.times, &pl.i8_all, |t, v| t.with().second(*v).build());
    add2(c, "TimeWith::build(millisecond)", &pl.times, &pl.i16s, |t, v| t.with().millisecond(*v).build());
    add2(c, "TimeWith::build(microsecond)", &pl.times, &pl.i16s, |t, v| t.with().microsecond(*v).build());
    add2(c, "TimeWith::build(nanosecond)", &pl.times, &pl.i16s, |t, v| t.with().nanosecond(*v).build());
    add2(c, "TimeWith::build(subsec_nanosecond)", &pl.times, &pl.i32s, |t, v| t.with().subsec_nanosecond(*v).build());
    add3(c, "TimeWith::build(millisecond,microsecond)", &pl.times, &pl.i16s, &pl.i16s, |t, a, b| t.with().millisecond(*a).microsecond(*b).build());
    add2(c, "Time::series", &pl.times, &pl.spans, |t, s| take1000(t.series(*s)));

    // =====================================================================
    // civil::DateTime
    // =====================================================================
    {
        let mut v: Vec<(i16, i8, i8, i8, i8, i8, i32)> = vec![];
        for y in [-9999i16, 9999, -10000, 10000, i16::MIN, i16::MAX, 0, 2024] {
            for mo in [1i8, 12, 0, 13, 2, i8::MAX] {
                for d in [1i8, 31, 0, 32, 28, 29, i8::MIN] {
                    for h in [0i8, 23, -1, 24] {
                        for mi in [0i8, 59, 60] {
                            for s in [0i8, 59, -1, 60] {
                                for n in [0i32, 999_999_999, -1, 1_000_000_000, i32::MAX, i32::MIN] {
                                    v.push((y, mo, d, h, mi, s, n));
                                }
                            }
                        }
                    }
                }
            }
        }
        add1(c, "DateTime::new", &pd(v), |x| DateTime::new(x.0, x.1, x.2, x.3, x.4, x.5, x.6));
    }
    add1(c, "DateTime::tomorrow", &pl.dts, |d| d.tomorrow());
    add1(c, "DateTime::yesterday", &pl.dts, |d| d.yesterday());
    add3(c, "DateTime::nth_weekday_of_month", &pl.dts_m, &pl.i8_all, &pl.weekdays, |d, n, w| d.nth_weekday_of_month(*n, *w));
    add3(c, "DateTime::nth_weekday", &pl.dts_m, &pl.nths, &pl.weekdays, |d, n, w| d.nth_weekday(*n, *w));
    add2(c, "DateTime::in_tz", &pl.dts, &pl.zone_names, |d, n| d.in_tz(n));
    add2(c, "DateTime::to_zoned", &pl.dts, &pl.zones, |d, tz| d.to_zoned(tz.clone()));
    add2(c, "DateTime::checked_add", &pl.dts, &pl.durs, |d, x| with_dur!(x, |v| d.checked_add(v)));
    add2(c, "DateTime::checked_sub", &pl.dts, &pl.durs, |d, x| with_dur!(x, |v| d.checked_sub(v)));
    diff_entries!(c, "DateTime", DateTimeDifference, &pl.dts_m, &pl.dts_s, pl);
    add2(c, "DateTime::round", &pl.dts, &pl.ros, |d, o| d.round(DateTimeRound::new().smallest(o.unit).increment(o.inc).mode(o.mode)));
    add2(c, "DateTimeWith::build(date)", &pl.dts_m, &pl.dates, |d, v| d.with().date(*v).build());
    add2(c, "DateTimeWith::build(time)", &pl.dts_m, &pl.times, |d, v| d.with().time(*v).build());
    add2(c, "DateTimeWith::build(year)", &pl.dts_m, &pl.i16s, |d, v| d.with().year(*v).build());
    add3(c, "DateTimeWith::build(era_year)", &pl.dts_m, &pl.i16s, &pl.eras, |d, v, e| d.with().era_year(*v, *e).build());
    add2(c, "DateTimeWith::build(month)", &pl.dts_m, &pl.i8_all, |d, v| d.with().month(*v).build());
    add2(c, "DateTimeWith::build(day)", &pl.dts_m, &pl.i8_all, |d, v| d.with().day(*v).build());
    add2(c, "DateTimeWith::build(day_of_year)", &pl.dts_m, &pl.i16s, |d, v| d.with().day_of_year(*v).build());
    add2(c, "DateTimeWith::build(day_of_year_no_leap)", &pl.dts_m, &pl.i16s, |d, v| d.with().day_of_year_no_leap(*v).build());
    add2(c, "DateTimeWith::build(hour)", &pl.dts_m, &pl.i8_all, |d, v| d.with().hour(*v).build());
    add2(c, "DateTimeWith::build(minute)", &pl.dts_m, &pl.i8_all, |d, v| d.with().minute(*v).build());
    add2(c, "DateTimeWith::build(second)", &pl.dts_m, &pl.i8_all, |d, v| d.with().second(*v).build());
    add2(c, "DateTimeWith::build(millisecond)", &pl.dts_m, &pl.i16s, |d, v| d.with().millisecond(*v).build());
    add2(c, "DateTimeWith::build(microsecond)", &pl.dts_m, &pl.i16s, |d, v| d.with().microsecond(*v).build());
    add2(c, "DateTimeWith::build(nanosecond)", &pl.dts_m, &pl.i16s, |d, v| d.with().nanosecond(*v).build());
    add2(c, "DateTimeWith::build(subsec_nanosecond)", &pl.dts_m, &pl.i32s, |d, v| d.with().subsec_nanosecond(*v).build());
    add3(c, "DateTimeWith::build(month,day)", &pl.dts_s, &pl.i8s, &pl.i8s, |d, m, x| d.with().month(*m).day(*x).build());
    add2(c, "DateTime::series", if quick { &pl.dts_s } else { &pl.dts_m }, &pl.spans, |d, s| take1000(d.series(*s)));

    // =====================================================================
    // Timestamp
    // =====================================================================
    add2(c, "Timestamp::new", &pl.i64s, &pl.i32s, |s, n| Timestamp::new(*s, *n));
    add1(c, "Timestamp::from_second", &pl.i64s, |s| Timestamp::from_second(*s));
    add1(c, "Timestamp::from_millisecond", &pl.i64s, |s| Timestamp::from_millisecond(*s));
    add1(c, "Timestamp::from_microsecond", &pl.i64s, |s| Timestamp::from_microsecond(*s));
    add1(c, "Timestamp::from_nanosecond", &pl.i128s, |s| Timestamp::from_nanosecond(*s));
    add1(c, "Timestamp::from_duration", &pl.sdurs, |s| Timestamp::from_duration(*s));
    add1(c, "Timestamp::try_from(SystemTime)", &pl.systimes, |s| Timestamp::try_from(*s));
    add2(c, "Timestamp::in_tz", &pl.tss, &pl.zone_names, |t, n| t.in_tz(n));
    add2(c, "Timestamp::to_zoned", &pl.tss, &pl.zones, |t, tz| ok(t.to_zoned(tz.clone())));
    add2(c, "Timestamp::checked_add", &pl.tss, &pl.durs, |t, x| with_dur!(x, |v| t.checked_add(v)));
    add2(c, "Timestamp::checked_sub", &pl.tss, &pl.durs, |t, x| with_dur!(x, |v| t.checked_sub(v)));
    add2(c, "Timestamp::saturating_add", &pl.tss, &pl.durs, |t, x| with_dur!(x, |v| t.saturating_add(v)));
    add2(c, "Timestamp::saturating_sub", &pl.tss, &pl.durs, |t, x| with_dur!(x, |v| t.saturating_sub(v)));
    diff_entries!(c, "Timestamp", TimestampDifference, &pl.tss, &pl.tss_s, pl);
    add2(c, "Timestamp::round", &pl.tss, &pl.ros, |t, o| t.round(TimestampRound::new().smallest(o.unit).increment(o.inc).mode(o.mode)));
    add2(c, "Timestamp::series", &pl.tss, &pl.spans, |t, s| take1000(t.series(*s)));

    // =====================================================================
    // Zoned
    // =====================================================================
    add2(c, "Zoned::in_tz", &pl.zoneds, &pl.zone_names, |z, n| z.in_tz(n));
    add2(c, "Zoned::with_time_zone", &pl.zoneds_m, &pl.zones, |z, tz| ok(z.with_time_zone(tz.clone())));
    add1(c, "Zoned::start_of_day", &pl.zoneds, |z| z.start_of_day());
    add1(c, "Zoned::end_of_day", &pl.zoneds, |z| z.end_of_day());
    add1(c, "Zoned::first_of_month", &pl.zoneds, |z| z.first_of_month());
    add1(c, "Zoned::last_of_month", &pl.zoneds, |z| z.last_of_month());
    add1(c, "Zoned::first_of_year", &pl.zoneds, |z| z.first_of_year());
    add1(c, "Zoned::last_of_year", &pl.zoneds, |z| z.last_of_year());
    add1(c, "Zoned::tomorrow", &pl.zoneds, |z| z.tomorrow());
    add1(c, "Zoned::yesterday", &pl.zoneds, |z| z.yesterday());
    add3(c, "Zoned::nth_weekday_of_month", &pl.zoneds_m, &pl.i8_all, &pl.weekdays, |z, n, w| z.nth_weekday_of_month(*n, *w));
    add3(c, "Zoned::nth_weekday", &pl.zoneds_m, &pl.nths, &pl.weekdays, |z, n, w| z.nth_weekday(*n, *w));
    add2(c, "Zoned::checked_add", &pl.zoneds, &pl.durs, |z, x| with_dur!(x, |v| z.checked_add(v)));
    add2(c, "Zoned::checked_sub", &pl.zoneds, &pl.durs, |z, x| with_dur!(x, |v| z.checked_sub(v)));
    add3(c, "Zoned::until(largest)", &pl.zoneds_m, &pl.zoneds_m, &pl.units, |a, b, u| a.until((*u, b)));
    add3(c, "Zoned::since(largest)", &pl.zoneds_m, &pl.zoneds_m, &pl.units, |a, b, u| a.since((*u, b)));
    add2(c, "Zoned::until(largest,same-zone-pairs)", &pl.zoned_pairs, &pl.units, |ab, u| ab.0.until((*u, &ab.1)));
    add2(c, "Zoned::since(largest,same-zone-pairs)", &pl.zoned_pairs, &pl.units, |ab, u| ab.0.since((*u, &ab.1)));
    add3(c, "Zoned::until(smallest,increment,mode)", &pl.zoneds_s, &pl.zoneds_s, &pl.ros, |a, b, o| {
        a.until(ZonedDifference::new(b).smallest(o.unit).increment(o.inc).mode(o.mode))
    });
    add3(c, "Zoned::since(smallest,increment,mode)", &pl.zoneds_s, &pl.zoneds_s, &pl.ros, |a, b, o| {
        a.since(ZonedDifference::new(b).smallest(o.unit).increment(o.inc).mode(o.mode))
    });
    add3(c, "Zoned::until(smallest,largest,mode)", &pl.zoneds_s, &pl.zoneds_s, &pl.sls, |a, b, o| {
        let mut d = ZonedDifference::new(b).smallest(o.smallest).mode(o.mode);
        if let Some(l) = o.largest {
            d = d.largest(l);
        }
        a.until(d)
    });
    add2(c, "Zoned::round", &pl.zoneds, &pl.ros, |z, o| z.round(ZonedRound::new().smallest(o.unit).increment(o.inc).mode(o.mode)));
    add2(c, "ZonedWith::build(date)", &pl.zoneds_m, &pl.dates, |z, v| z.with().date(*v).build());
    add2(c, "ZonedWith::build(time)", &pl.zoneds_m, &pl.times, |z, v| z.with().time(*v).build());
    add3(c, "ZonedWith::build(time,disambiguation)", &pl.zoneds_m, &pl.times, &pl.disambs, |z, v, d| {
        z.with().time(*v).disambiguation(d.to()).build()
    });
    add2(c, "ZonedWith::build(year)", &pl.zoneds_m, &pl.i16s, |z, v| z.with().year(*v).build());
    add3(c, "ZonedWith::build(era_year)", &pl.zoneds_m, &pl.i16s, &pl.eras, |z, v, e| z.with().era_year(*v, *e).build());
    add2(c, "ZonedWith::build(month)", &pl.zoneds_m, &pl.i8_all, |z, v| z.with().month(*v).build());
    add2(c, "ZonedWith::build(day)", &pl.zoneds_m, &pl.i8_all, |z, v| z.with().day(*v).build());
    add2(c, "ZonedWith::build(day_of_year)", &pl.zoneds_m, &pl.i16s, |z, v| z.with().day_of_year(*v).build());
    add2(c, "ZonedWith::build(day_of_year_no_leap)", &pl.zoneds_m, &pl.i16s, |z, v| z.with().day_of_year_no_leap(*v).build());
    add2(c, "ZonedWith::build(hour)", &pl.zoneds_m, &pl.i8_all, |z, v| z.with().hour(*v).build());
    add2(c, "ZonedWith::build(minute)", &pl.zoneds_m, &pl.i8_all, |z, v| z.with().minute(*v).build());
    add2(c, "ZonedWith::build(second)", &pl.zoneds_m, &pl.i8_all, |z, v| z.with().second(*v).build());
    add2(c, "ZonedWith::build(millisecond)", &pl.zoneds_m, &pl.i16s, |z, v| z.with().millisecond(*v).build());
    add2(c, "ZonedWith::build(microsecond)", &pl.zoneds_m, &pl.i16s, |z, v| z.with().microsecond(*v).build());
    add2(c, "ZonedWith::build(nanosecond)", &pl.zoneds_m, &pl.i16s, |z, v| z.with().nanosecond(*v).build());
    add2(c, "ZonedWith::build(subsec_nanosecond)", &pl.zoneds_m, &pl.i32s, |z, v| z.with().subsec_nanosecond(*v).build());
    add3(c, "ZonedWith::build(offset,offset_conflict,disambiguation)", &pl.zoneds_m, &pl.offsets, &pl.conflicts, |z, o, cd| {
        z.with().offset(*o).offset_conflict(cd.0).disambiguation(cd.1.to()).build()
    });
    add4(
        c,
        "ZonedWith::build(hour,offset,offset_conflict,disambiguation)",
        &pl.zoneds_s,
        &pl.hours,
        &pl.offsets,
        &pl.conflicts,
        |z, h, o, cd| z.with().hour(*h).offset(*o).offset_conflict(cd.0).disambiguation(cd.1.to()).build(),
    );

    // =====================================================================
    // Span
    // =====================================================================
    add2(c, "Span::try_years", &pl.span_bases, &pl.i64s, |s, v| s.try_years(*v));
    add2(c, "Span::try_months", &pl.span_bases, &pl.i64s, |s, v| s.try_months(*v));
    add2(c, "Span::try_weeks", &pl.span_bases, &pl.i64s, |s, v| s.try_weeks(*v));
    add2(c, "Span::try_days", &pl.span_bases, &pl.i64s, |s, v| s.try_days(*v));
    add2(c, "Span::try_hours", &pl.span_bases, &pl.i64s, |s, v| s.try_hours(*v));
    add2(c, "Span::try_minutes", &pl.span_bases, &pl.i64s, |s, v| s.try_minutes(*v));
    add2(c, "Span::try_seconds", &pl.span_bases, &pl.i64s, |s, v| s.try_seconds(*v));
    add2(c, "Span::try_milliseconds", &pl.span_bases, &pl.i64s, |s, v| s.try_milliseconds(*v));
    add2(c, "Span::try_microseconds", &pl.span_bases, &pl.i64s, |s, v| s.try_microseconds(*v));
    add2(c, "Span::try_nanoseconds", &pl.span_bases, &pl.i64s, |s, v| s.try_nanoseconds(*v));
    add2(c, "Span::checked_mul", &pl.spans, &pl.i64s, |s, v| s.checked_mul(*v));
    add3(c, "Span::checked_add(span,relative)", &pl.spans_s, &pl.spans_s, &pl.rels, |a, b, r| {
        with_rel!(r, a.checked_add(*b), |x| a.checked_add((*b, x)))
    });
    add3(c, "Span::checked_sub(span,relative)", &pl.spans_s, &pl.spans_s, &pl.rels, |a, b, r| {
        with_rel!(r, a.checked_sub(*b), |x| a.checked_sub((*b, x)))
    });
    add2(c, "Span::checked_add(duration)", &pl.spans, &pl.durs, |a, x| with_dur!(x, |v| a.checked_add(v)));
    add2(c, "Span::checked_sub(duration)", &pl.spans, &pl.durs, |a, x| with_dur!(x, |v| a.checked_sub(v)));
    add3(c, "Span::compare", &pl.spans_s, &pl.spans_s, &pl.rels, |a, b, r| with_rel!(r, a.compare(*b), |x| a.compare((*b, x))));
    add3(c, "Span::total", &pl.spans, &pl.units, &pl.rels, |a, u, r| with_rel!(r, a.total(*u), |x| a.total((*u, x))));
    add3(c, "Span::round(smallest,increment,mode)", &pl.spans_s, &pl.rels, &pl.ros, |a, r, o| {
        let opt = SpanRound::new().smallest(o.unit).increment(o.inc).mode(o.mode);
        with_rel!(r, a.round(opt), |x| a.round(opt.relative(x)))
    });
    add3(c, "Span::round(smallest,largest,mode)", &pl.spans_s, &pl.rels, &pl.sls, |a, r, o| {
        let mut opt = SpanRound::new().smallest(o.smallest).mode(o.mode);
        if let Some(l) = o.largest {
            opt = opt.largest(l);
        }
        with_rel!(r, a.round(opt), |x| a.round(opt.relative(x)))
    });
    let rels_some = pick(&pl.rels, |_, r| !matches!(r, Rel::None));
    add2(c, "Span::to_duration", &pl.spans, &rels_some, |a, r| {
        with_rel!(r, Err(()), |x| a.to_duration(x).map_err(|_| ()))
    });
    add1(c, "SignedDuration::try_from(Span)", &pl.spans, |s| SignedDuration::try_from(*s));
    add1(c, "Span::try_from(SignedDuration)", &pl.sdurs, |s| Span::try_from(*s));
    add1(c, "Span::try_from(UnsignedDuration)", &pl.udurs, |s| Span::try_from(*s));

    // =====================================================================
    // SignedDuration
    // =====================================================================
    add1(c, "SignedDuration::try_from_secs_f64", &pl.f64s, |x| SignedDuration::try_from_secs_f64(*x));
    add1(c, "SignedDuration::try_from_secs_f32", &pl.f32s, |x| SignedDuration::try_from_secs_f32(*x));
    add2(c, "SignedDuration::checked_add", &pl.sdurs, &pl.sdurs, |a, b| opt(a.checked_add(*b)));
    add2(c, "SignedDuration::checked_sub", &pl.sdurs, &pl.sdurs, |a, b| opt(a.checked_sub(*b)));
    add2(c, "SignedDuration::checked_mul", &pl.sdurs, &pl.i32s, |a, b| opt(a.checked_mul(*b)));
    add2(c, "SignedDuration::checked_div", &pl.sdurs, &pl.i32s, |a, b| opt(a.checked_div(*b)));
    add1(c, "SignedDuration::checked_neg", &pl.sdurs, |a| opt(a.checked_neg()));
    add2(c, "SignedDuration::round", &pl.sdurs, &pl.ros, |a, o| a.round(SignedDurationRound::new().smallest(o.unit).increment(o.inc).mode(o.mode)));
    add2(c, "SignedDuration::system_until", &pl.systimes, &pl.systimes, |a, b| SignedDuration::system_until(*a, *b));
    add1(c, "SignedDuration::try_from(Duration)", &pl.udurs, |a| SignedDuration::try_from(*a));
    add1(c, "std::Duration::try_from(SignedDuration)", &pl.sdurs, |a| std::time::Duration::try_from(*a));
    add1(c, "std::Duration::try_from(Span)", &pl.spans, |a| std::time::Duration::try_from(*a));

    // =====================================================================
    // tz::Offset
    // =====================================================================
    add1(c, "Offset::from_hours", &pl.i8_all, |h| Offset::from_hours(*h));
    add1(c, "Offset::from_seconds", &pl.i32s, |s| Offset::from_seconds(*s));
    add2(c, "Offset::to_timestamp", &pl.offsets, &pl.dts, |o, d| o.to_timestamp(*d));
    add2(c, "Offset::to_datetime", &pl.offsets, &pl.tss, |o, t| ok(o.to_datetime(*t)));
    add2(c, "Offset::checked_add", &pl.offsets, &pl.durs, |o, x| with_dur!(x, |v| o.checked_add(v)));
    add2(c, "Offset::checked_sub", &pl.offsets, &pl.durs, |o, x| with_dur!(x, |v| o.checked_sub(v)));
    add2(c, "Offset::saturating_add", &pl.offsets, &pl.durs, |o, x| with_dur!(x, |v| ok(o.saturating_add(v))));
    add2(c, "Offset::saturating_sub", &pl.offsets, &pl.durs, |o, x| with_dur!(x, |v| ok(o.saturating_sub(v))));
    add2(c, "Offset::until", &pl.offsets, &pl.offsets, |a, b| ok(a.until(*b)));
    add2(c, "Offset::since", &pl.offsets, &pl.offsets, |a, b| ok(a.since(*b)));
    add2(c, "Offset::duration_until", &pl.offsets, &pl.offsets, |a, b| ok(a.duration_until(*b)));
    add2(c, "Offset::duration_since", &pl.offsets, &pl.offsets, |a, b| ok(a.duration_since(*b)));
    add1(c, "Offset::negate", &pl.offsets, |a| ok(a.negate()));
    add2(c, "Offset::round", &pl.offsets, &pl.ros, |a, o| a.round(OffsetRound::new().smallest(o.unit).increment(o.inc).mode(o.mode)));
    add1(c, "Offset::try_from(SignedDuration)", &pl.sdurs, |d| Offset::try_from(*d));
    add4(c, "OffsetConflict::resolve", &pl.conflicts, &head(&pl.dts_m, 116), &pl.offsets, &pl.zones, |cd, dt, o, tz| {
        cd.0.resolve(*dt, *o, tz.clone()).and_then(|az| az.disambiguate(cd.1.to()))
    });

    // =====================================================================
    // tz::TimeZone, tz::AmbiguousTimestamp, tz::AmbiguousZoned
    // =====================================================================
    add1(c, "TimeZone::to_fixed_offset", &pl.zones, |tz| tz.to_fixed_offset());
    add2(c, "TimeZone::to_timestamp", &pl.zones, &pl.dts, |tz, d| tz.to_timestamp(*d));
    add2(c, "TimeZone::to_zoned", &pl.zones, &pl.dts, |tz, d| tz.to_zoned(*d));
    let instants: P<Timestamp> = {
        // the timestamp pool plus every instant of the zoned pool
        let mut v: Vec<Timestamp> = (0..pl.tss.len()).map(|i| *pl.tss.val(i)).collect();
        for i in 0..pl.zoneds.len() {
            let t = pl.zoneds.val(i).timestamp();
            if !v.contains(&t) {
                v.push(t);
            }
        }
        p(v, pools::ts_label)
    };
    add2(c, "TimeZone::to_offset", &pl.zones, &instants, |tz, t| ok(tz.to_offset(*t)));
    add2(c, "TimeZone::to_datetime", &pl.zones, &instants, |tz, t| ok(tz.to_datetime(*t)));
    add2(c, "TimeZone::to_offset_info", &pl.zones, &instants, |tz, t| {
        // rendered inside the closure: the info borrows the zone
        let info = tz.to_offset_info(*t);
        ok((info.offset(), info.dst().is_dst() as i8 as i64, info.abbreviation().to_string()))
    });
    add2(c, "AmbiguousTimestamp::compatible", &pl.zones, &pl.dts, |tz, d| tz.to_ambiguous_timestamp(*d).compatible());
    add2(c, "AmbiguousTimestamp::earlier", &pl.zones, &pl.dts, |tz, d| tz.to_ambiguous_timestamp(*d).earlier());
    add2(c, "AmbiguousTimestamp::later", &pl.zones, &pl.dts, |tz, d| tz.to_ambiguous_timestamp(*d).later());
    add2(c, "AmbiguousTimestamp::unambiguous", &pl.zones, &pl.dts, |tz, d| tz.to_ambiguous_timestamp(*d).unambiguous());
    add3(c, "AmbiguousTimestamp::disambiguate", &pl.zones, &pl.dts, &pl.disambs, |tz, d, m| {
        tz.to_ambiguous_timestamp(*d).disambiguate(m.to())
    });
    add2(c, "AmbiguousZoned::compatible", &pl.zones, &pl.dts, |tz, d| tz.to_ambiguous_zoned(*d).compatible());
    add2(c, "AmbiguousZoned::earlier", &pl.zones, &pl.dts, |tz, d| tz.to_ambiguous_zoned(*d).earlier());
    add2(c, "AmbiguousZoned::later", &pl.zones, &pl.dts, |tz, d| tz.to_ambiguous_zoned(*d).later());
    add2(c, "AmbiguousZoned::unambiguous", &pl.zones, &pl.dts, |tz, d| tz.to_ambiguous_zoned(*d).unambiguous());
    add3(c, "AmbiguousZoned::disambiguate", &pl.zones, &pl.dts, &pl.disambs, |tz, d, m| {
        tz.clone().into_ambiguous_zoned(*d).disambiguate(m.to())
    });

    let _: Option<(Disamb, Zoned)> = None;
    cat
}
