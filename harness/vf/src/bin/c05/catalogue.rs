//! The hand-written catalogue: one entry per public fallible operation (and per
//! distinct way of calling it). Entry name = `Type::method` or
//! `Type::method(variant)`; the part before `(` is matched against the source
//! scan to list public `-> Result` functions that are NOT catalogued.

use super::chk::{self, anynum, num, sdur_from_ns, sdur_ns, Chk, Num, Pinned, Trans, F, NS, SPAN_LIMITS};
use super::pools::{self, head, p, pd, pick, Disamb, Dur, Pools, Rel, P, RO, SL, WEEKDAYS};
use jiff::tz::TimeZone;
use jiff::{ToSpan, Unit};
use std::sync::atomic::{AtomicU64, Ordering};
use std::time::{Duration as UDur, SystemTime};
use super::{run, Entry};
use jiff::civil::{
    Date, DateDifference, DateTime, DateTimeDifference, DateTimeRound, ISOWeekDate, Time, TimeDifference, TimeRound, Weekday,
};
use jiff::tz::{Offset, OffsetRound};
use jiff::{
    SignedDuration, SignedDurationRound, Span, SpanRelativeTo, SpanRound, Timestamp, TimestampDifference, TimestampRound, Zoned,
    ZonedDifference, ZonedRound,
};

type Cat = Vec<Entry>;

fn ok<T>(t: T) -> Result<T, ()> {
    Ok(t)
}
fn opt<T>(t: Option<T>) -> Result<T, ()> {
    t.ok_or(())
}
fn take1000<I: Iterator>(it: I) -> Result<Vec<I::Item>, ()> {
    Ok(it.take(1000).collect())
}

fn add1<A, T, E, F>(cat: &mut Cat, name: &str, pa: &P<A>, f: F)
where
    A: Send + Sync + 'static,
    T: Chk,
    F: Fn(&A) -> Result<T, E> + Send + Sync + 'static,
{
    let (a1, a2) = (pa.clone(), pa.clone());
    let nm = name.to_string();
    cat.push(Entry {
        name: name.to_string(),
        n: pa.len(),
        eval: Box::new(move |i, buf| run(buf, || f(a1.val(i)))),
        case: Box::new(move |i| format!("{}: {}", nm, a2.lab(i))),
    });
}

fn add2<A, B, T, E, F>(cat: &mut Cat, name: &str, pa: &P<A>, pb: &P<B>, f: F)
where
    A: Send + Sync + 'static,
    B: Send + Sync + 'static,
    T: Chk,
    F: Fn(&A, &B) -> Result<T, E> + Send + Sync + 'static,
{
    let (a1, a2, b1, b2) = (pa.clone(), pa.clone(), pb.clone(), pb.clone());
    let nb = pb.len();
    let nm = name.to_string();
    cat.push(Entry {
        name: name.to_string(),
        n: pa.len() * nb,
        eval: Box::new(move |i, buf| run(buf, || f(a1.val(i / nb), b1.val(i % nb)))),
        case: Box::new(move |i| format!("{}: {} | {}", nm, a2.lab(i / nb), b2.lab(i % nb))),
    });
}

fn add3<A, B, C, T, E, F>(cat: &mut Cat, name: &str, pa: &P<A>, pb: &P<B>, pc: &P<C>, f: F)
where
    A: Send + Sync + 'static,
    B: Send + Sync + 'static,
    C: Send + Sync + 'static,
    T: Chk,
    F: Fn(&A, &B, &C) -> Result<T, E> + Send + Sync + 'static,
{
    let (a1, a2, b1, b2, c1, c2) = (pa.clone(), pa.clone(), pb.clone(), pb.clone(), pc.clone(), pc.clone());
    let (nb, nc) = (pb.len(), pc.len());
    let nm = name.to_string();
    cat.push(Entry {
        name: name.to_string(),
        n: pa.len() * nb * nc,
        eval: Box::new(move |i, buf| run(buf, || f(a1.val(i / (nb * nc)), b1.val((i / nc) % nb), c1.val(i % nc)))),
        case: Box::new(move |i| format!("{}: {} | {} | {}", nm, a2.lab(i / (nb * nc)), b2.lab((i / nc) % nb), c2.lab(i % nc))),
    });
}

fn add4<A, B, C, D, T, E, F>(cat: &mut Cat, name: &str, pa: &P<A>, pb: &P<B>, pc: &P<C>, pd_: &P<D>, f: F)
where
    A: Send + Sync + 'static,
    B: Send + Sync + 'static,
    C: Send + Sync + 'static,
    D: Send + Sync + 'static,
    T: Chk,
    F: Fn(&A, &B, &C, &D) -> Result<T, E> + Send + Sync + 'static,
{
    let (a1, a2, b1, b2, c1, c2, d1, d2) = (pa.clone(), pa.clone(), pb.clone(), pb.clone(), pc.clone(), pc.clone(), pd_.clone(), pd_.clone());
    let (nb, nc, nd) = (pb.len(), pc.len(), pd_.len());
    let nm = name.to_string();
    cat.push(Entry {
        name: name.to_string(),
        n: pa.len() * nb * nc * nd,
        eval: Box::new(move |i, buf| {
            run(buf, || f(a1.val(i / (nb * nc * nd)), b1.val((i / (nc * nd)) % nb), c1.val((i / nd) % nc), d1.val(i % nd)))
        }),
        case: Box::new(move |i| {
            format!("{}: {} | {} | {} | {}", nm, a2.lab(i / (nb * nc * nd)), b2.lab((i / (nc * nd)) % nb), c2.lab((i / nd) % nc), d2.lab(i % nd))
        }),
    });
}

/// dispatch on the three kinds of duration arguments
macro_rules! with_dur {
    ($d:expr, |$x:ident| $body:expr) => {
        match $d {
            Dur::Span(v) => {
                let $x = *v;
                $body
            }
            Dur::S(v) => {
                let $x = *v;
                $body
            }
            Dur::U(v) => {
                let $x = *v;
                $body
            }
        }
    };
}

/// dispatch on the kinds of `relative to`: `$none` when absent, else `$some`
/// with `$x` bound to something that is `Into<SpanRelativeTo>`
macro_rules! with_rel {
    ($r:expr, $none:expr, |$x:ident| $some:expr) => {
        match $r {
            Rel::None => $none,
            Rel::Days24 => {
                let $x = SpanRelativeTo::days_are_24_hours();
                $some
            }
            Rel::Date(v) => {
                let $x = *v;
                $some
            }
            Rel::DateTime(v) => {
                let $x = *v;
                $some
            }
            Rel::Zoned(v) => {
                let $x = v;
                $some
            }
        }
    };
}

macro_rules! diff_entries {
    ($cat:expr, $ty:literal, $D:ident, $big:expr, $small:expr, $P:expr) => {{
        add3($cat, concat!($ty, "::until(largest)"), $big, $big, &$P.units, |a, b, u| a.until((*u, b.clone())));
        add3($cat, concat!($ty, "::since(largest)"), $big, $big, &$P.units, |a, b, u| a.since((*u, b.clone())));
        add3($cat, concat!($ty, "::until(smallest,increment,mode)"), $small, $small, &$P.ros, |a, b, o: &RO| {
            a.until($D::new(b.clone()).smallest(o.unit).increment(o.inc).mode(o.mode))
        });
        add3($cat, concat!($ty, "::since(smallest,increment,mode)"), $small, $small, &$P.ros, |a, b, o: &RO| {
            a.since($D::new(b.clone()).smallest(o.unit).increment(o.inc).mode(o.mode))
        });
        add3($cat, concat!($ty, "::until(smallest,largest,mode)"), $small, $small, &$P.sls, |a, b, o: &SL| {
            let mut d = $D::new(b.clone()).smallest(o.smallest).mode(o.mode);
            if let Some(l) = o.largest {
                d = d.largest(l);
            }
            a.until(d)
        });
    }};
}

pub fn build(quick: bool) -> Cat {
    let pl: Pools = pools::build(quick);
    let mut cat: Cat = vec![];
    let c = &mut cat;

    // =====================================================================
    // civil::Weekday, civil::ISOWeekDate
    // =====================================================================
    add1(c, "Weekday::from_monday_zero_offset", &pl.i8_all, |x| Weekday::from_monday_zero_offset(*x));
    add1(c, "Weekday::from_monday_one_offset", &pl.i8_all, |x| Weekday::from_monday_one_offset(*x));
    add1(c, "Weekday::from_sunday_zero_offset", &pl.i8_all, |x| Weekday::from_sunday_zero_offset(*x));
    add1(c, "Weekday::from_sunday_one_offset", &pl.i8_all, |x| Weekday::from_sunday_one_offset(*x));

    add3(c, "ISOWeekDate::new", &pl.i16s, &pl.i8s, &pl.weekdays, |y, w, d| ISOWeekDate::new(*y, *w, *d));
    let iwds: P<ISOWeekDate> = {
        let mut v: Vec<ISOWeekDate> = vec![ISOWeekDate::MIN, ISOWeekDate::MAX];
        for y in [-9999i16, 9999, 2020, 2024, 0] {
            for w in [1i8, 2, 52, 53] {
                for wd in [Weekday::Monday, Weekday::Friday, Weekday::Saturday, Weekday::Sunday] {
                    if let Ok(x) = ISOWeekDate::new(y, w, wd) {
                        v.push(x);
                    }
                }
            }
        }
        for i in 0..pl.dates.len() {
            v.push(pl.dates.val(i).iso_week_date());
        }
        pd(v)
    };
    add1(c, "ISOWeekDate::first_of_week", &iwds, |x| x.first_of_week());
    add1(c, "ISOWeekDate::last_of_week", &iwds, |x| x.last_of_week());
    add1(c, "ISOWeekDate::first_of_year", &iwds, |x| x.first_of_year());
    add1(c, "ISOWeekDate::last_of_year", &iwds, |x| x.last_of_year());
    add1(c, "ISOWeekDate::tomorrow", &iwds, |x| x.tomorrow());
    add1(c, "ISOWeekDate::yesterday", &iwds, |x| x.yesterday());

    // =====================================================================
    // civil::Date
    // =====================================================================
    add3(c, "Date::new", &pl.i16s, &pl.i8s, &pl.i8s, |y, m, d| Date::new(*y, *m, *d));
    add1(c, "Date::tomorrow", &pl.dates, |d| d.tomorrow());
    add1(c, "Date::yesterday", &pl.dates, |d| d.yesterday());
    add3(c, "Date::nth_weekday_of_month", &pl.dates, &pl.i8_all, &pl.weekdays, |d, n, w| d.nth_weekday_of_month(*n, *w));
    add3(c, "Date::nth_weekday", &pl.dates, &pl.nths, &pl.weekdays, |d, n, w| d.nth_weekday(*n, *w));
    add2(c, "Date::in_tz", &pl.dates, &pl.zone_names, |d, n| d.in_tz(n));
    add2(c, "Date::to_zoned", &pl.dates, &pl.zones, |d, tz| d.to_zoned(tz.clone()));
    add2(c, "Date::checked_add", &pl.dates, &pl.durs, |d, x| with_dur!(x, |v| d.checked_add(v)));
    add2(c, "Date::checked_sub", &pl.dates, &pl.durs, |d, x| with_dur!(x, |v| d.checked_sub(v)));
    diff_entries!(c, "Date", DateDifference, &pl.dates, &pl.dates_s, pl);
    add2(c, "DateWith::build(year)", &pl.dates, &pl.i16s, |d, v| d.with().year(*v).build());
    add3(c, "DateWith::build(era_year)", &pl.dates, &pl.i16s, &pl.eras, |d, v, e| d.with().era_year(*v, *e).build());
    add2(c, "DateWith::build(month)", &pl.dates, &pl.i8_all, |d, v| d.with().month(*v).build());
    add2(c, "DateWith::build(day)", &pl.dates, &pl.i8_all, |d, v| d.with().day(*v).build());
    add2(c, "DateWith::build(day_of_year)", &pl.dates, &pl.i16s, |d, v| d.with().day_of_year(*v).build());
    add2(c, "DateWith::build(day_of_year_no_leap)", &pl.dates, &pl.i16s, |d, v| d.with().day_of_year_no_leap(*v).build());
    add3(c, "DateWith::build(month,day)", &pl.dates, &pl.i8s, &pl.i8s, |d, m, x| d.with().month(*m).day(*x).build());
    add3(c, "DateWith::build(year,day_of_year)", &pl.dates, &pl.i16s, &pl.i16s, |d, y, x| d.with().year(*y).day_of_year(*x).build());
    add3(c, "DateWith::build(month,day_of_year)", &pl.dates, &pl.i8s, &pl.i16s, |d, m, x| d.with().month(*m).day_of_year(*x).build());
    add2(c, "Date::series", &pl.dates, &pl.spans, |d, s| take1000(d.series(*s)));

    // =====================================================================
    // civil::Time
    // =====================================================================
    add4(c, "Time::new", &pl.hours, &pl.minsecs, &pl.minsecs, &pl.i32s, |h, m, s, n| Time::new(*h, *m, *s, *n));
    add2(c, "Time::checked_add", &pl.times, &pl.durs, |t, x| with_dur!(x, |v| t.checked_add(v)));
    add2(c, "Time::checked_sub", &pl.times, &pl.durs, |t, x| with_dur!(x, |v| t.checked_sub(v)));
    diff_entries!(c, "Time", TimeDifference, &pl.times, &pl.times, pl);
    add2(c, "Time::round", &pl.times, &pl.ros, |t, o| t.round(TimeRound::new().smallest(o.unit).increment(o.inc).mode(o.mode)));
    add2(c, "TimeWith::build(hour)", &pl.times, &pl.i8_all, |t, v| t.with().hour(*v).build());
    add2(c, "TimeWith::build(minute)", &pl.times, &pl.i8_all, |t, v| t.with().minute(*v).build());
    add2(c, "TimeWith::build(second)", &pl.times, &pl.i8_all, |t, v| t.with().second(*v).build());
    add2(c, "TimeWith::build(millisecond)", &pl.times, &pl.i16s, |t, v| t.with().millisecond(*v).build());
    add2(c, "TimeWith::build(microsecond)", &pl.times, &pl.i16s, |t, v| t.with().microsecond(*v).build());
    add2(c, "TimeWith::build(nanosecond)", &pl.times, &pl.i16s, |t, v| t.with().nanosecond(*v).build());
    add2(c, "TimeWith::build(subsec_nanosecond)", &pl.times, &pl.i32s, |t, v| t.with().subsec_nanosecond(*v).build());
    add3(c, "TimeWith::build(millisecond,microsecond)", &pl.times, &pl.i16s, &pl.i16s, |t, a, b| t.with().millisecond(*a).microsecond(*b).build());
    add2(c, "Time::series", &pl.times, &pl.spans, |t, s| take1000(t.series(*s)));

    // =====================================================================
    // civil::DateTime
    // =====================================================================
    {
        let mut v: Vec<(i16, i8, i8, i8, i8, i8, i32)> = vec![];
        for y in [-9999i16, 9999, -10000, 10000, i16::MIN, i16::MAX, 0, 2024] {
            for mo in [1i8, 12, 0, 13, 2, i8::MAX] {
                for d in [1i8, 31, 0, 32, 28, 29, i8::MIN] {
                    for h in [0i8, 23, -1, 24] {
                        for mi in [0i8, 59, 60] {
                            for s in [0i8, 59, -1, 60] {
                                for n in [0i32, 999_999_999, -1, 1_000_000_000, i32::MAX, i32::MIN] {
                                    v.push((y, mo, d, h, mi, s, n));
                                }
                            }
                        }
                    }
                }
            }
        }
        add1(c, "DateTime::new", &pd(v), |x| DateTime::new(x.0, x.1, x.2, x.3, x.4, x.5, x.6));
    }
    add1(c, "DateTime::tomorrow", &pl.dts, |d| d.tomorrow());
    add1(c, "DateTime::yesterday", &pl.dts, |d| d.yesterday());
    add3(c, "DateTime::nth_weekday_of_month", &pl.dts_m, &pl.i8_all, &pl.weekdays, |d, n, w| d.nth_weekday_of_month(*n, *w));
    add3(c, "DateTime::nth_weekday", &pl.dts_m, &pl.nths, &pl.weekdays, |d, n, w| d.nth_weekday(*n, *w));
    add2(c, "DateTime::in_tz", &pl.dts, &pl.zone_names, |d, n| d.in_tz(n));
    add2(c, "DateTime::to_zoned", &pl.dts, &pl.zones, |d, tz| d.to_zoned(tz.clone()));
    add2(c, "DateTime::checked_add", &pl.dts, &pl.durs, |d, x| with_dur!(x, |v| d.checked_add(v)));
    add2(c, "DateTime::checked_sub", &pl.dts, &pl.durs, |d, x| with_dur!(x, |v| d.checked_sub(v)));
    diff_entries!(c, "DateTime", DateTimeDifference, &pl.dts_m, &pl.dts_s, pl);
    add2(c, "DateTime::round", &pl.dts, &pl.ros, |d, o| d.round(DateTimeRound::new().smallest(o.unit).increment(o.inc).mode(o.mode)));
    add2(c, "DateTimeWith::build(date)", &pl.dts_m, &pl.dates, |d, v| d.with().date(*v).build());
    add2(c, "DateTimeWith::build(time)", &pl.dts_m, &pl.times, |d, v| d.with().time(*v).build());
    add2(c, "DateTimeWith::build(year)", &pl.dts_m, &pl.i16s, |d, v| d.with().year(*v).build());
    add3(c, "DateTimeWith::build(era_year)", &pl.dts_m, &pl.i16s, &pl.eras, |d, v, e| d.with().era_year(*v, *e).build());
    add2(c, "DateTimeWith::build(month)", &pl.dts_m, &pl.i8_all, |d, v| d.with().month(*v).build());
    add2(c, "DateTimeWith::build(day)", &pl.dts_m, &pl.i8_all, |d, v| d.with().day(*v).build());
    add2(c, "DateTimeWith::build(day_of_year)", &pl.dts_m, &pl.i16s, |d, v| d.with().day_of_year(*v).build());
    add2(c, "DateTimeWith::build(day_of_year_no_leap)", &pl.dts_m, &pl.i16s, |d, v| d.with().day_of_year_no_leap(*v).build());
    add2(c, "DateTimeWith::build(hour)", &pl.dts_m, &pl.i8_all, |d, v| d.with().hour(*v).build());
    add2(c, "DateTimeWith::build(minute)", &pl.dts_m, &pl.i8_all, |d, v| d.with().minute(*v).build());
    add2(c, "DateTimeWith::build(second)", &pl.dts_m, &pl.i8_all, |d, v| d.with().second(*v).build());
    add2(c, "DateTimeWith::build(millisecond)", &pl.dts_m, &pl.i16s, |d, v| d.with().millisecond(*v).build());
    add2(c, "DateTimeWith::build(microsecond)", &pl.dts_m, &pl.i16s, |d, v| d.with().microsecond(*v).build());
    add2(c, "DateTimeWith::build(nanosecond)", &pl.dts_m, &pl.i16s, |d, v| d.with().nanosecond(*v).build());
    add2(c, "DateTimeWith::build(subsec_nanosecond)", &pl.dts_m, &pl.i32s, |d, v| d.with().subsec_nanosecond(*v).build());
    add3(c, "DateTimeWith::build(month,day)", &pl.dts_s, &pl.i8s, &pl.i8s, |d, m, x| d.with().month(*m).day(*x).build());
    add2(c, "DateTime::series", if quick { &pl.dts_s } else { &pl.dts_m }, &pl.spans, |d, s| take1000(d.series(*s)));

    // =====================================================================
    // Timestamp
    // =====================================================================
    add2(c, "Timestamp::new", &pl.i64s, &pl.i32s, |s, n| Timestamp::new(*s, *n));
    add1(c, "Timestamp::from_second", &pl.i64s, |s| Timestamp::from_second(*s));
    add1(c, "Timestamp::from_millisecond", &pl.i64s, |s| Timestamp::from_millisecond(*s));
    add1(c, "Timestamp::from_microsecond", &pl.i64s, |s| Timestamp::from_microsecond(*s));
    add1(c, "Timestamp::from_nanosecond", &pl.i128s, |s| Timestamp::from_nanosecond(*s));
    add1(c, "Timestamp::from_duration", &pl.sdurs, |s| Timestamp::from_duration(*s));
    add1(c, "Timestamp::try_from(SystemTime)", &pl.systimes, |s| Timestamp::try_from(*s));
    add2(c, "Timestamp::in_tz", &pl.tss, &pl.zone_names, |t, n| t.in_tz(n));
    add2(c, "Timestamp::to_zoned", &pl.tss, &pl.zones, |t, tz| ok(t.to_zoned(tz.clone())));
    add2(c, "Timestamp::checked_add", &pl.tss, &pl.durs, |t, x| with_dur!(x, |v| t.checked_add(v)));
    add2(c, "Timestamp::checked_sub", &pl.tss, &pl.durs, |t, x| with_dur!(x, |v| t.checked_sub(v)));
    // `Result` only because a span with calendar units is an error; otherwise
    // the documented identity: the checked result, else MIN / MAX
    add2(c, "Timestamp::saturating_add", &pl.tss, &pl.durs, |t, x| {
        with_dur!(x, |v| t.saturating_add(v).map(|got| sat_pin(got, t.checked_add(v), dur_neg(x), Timestamp::MIN, Timestamp::MAX)))
    });
    add2(c, "Timestamp::saturating_sub", &pl.tss, &pl.durs, |t, x| {
        with_dur!(x, |v| t.saturating_sub(v).map(|got| sat_pin(got, t.checked_sub(v), !dur_neg(x), Timestamp::MIN, Timestamp::MAX)))
    });
    diff_entries!(c, "Timestamp", TimestampDifference, &pl.tss, &pl.tss_s, pl);
    add2(c, "Timestamp::round", &pl.tss, &pl.ros, |t, o| t.round(TimestampRound::new().smallest(o.unit).increment(o.inc).mode(o.mode)));
    add2(c, "Timestamp::series", &pl.tss, &pl.spans, |t, s| take1000(t.series(*s)));

    // =====================================================================
    // Zoned
    // =====================================================================
    add2(c, "Zoned::in_tz", &pl.zoneds, &pl.zone_names, |z, n| z.in_tz(n));
    add2(c, "Zoned::with_time_zone", &pl.zoneds_m, &pl.zones, |z, tz| ok(z.with_time_zone(tz.clone())));
    add1(c, "Zoned::start_of_day", &pl.zoneds, |z| z.start_of_day());
    add1(c, "Zoned::end_of_day", &pl.zoneds, |z| z.end_of_day());
    add1(c, "Zoned::first_of_month", &pl.zoneds, |z| z.first_of_month());
    add1(c, "Zoned::last_of_month", &pl.zoneds, |z| z.last_of_month());
    add1(c, "Zoned::first_of_year", &pl.zoneds, |z| z.first_of_year());
    add1(c, "Zoned::last_of_year", &pl.zoneds, |z| z.last_of_year());
    add1(c, "Zoned::tomorrow", &pl.zoneds, |z| z.tomorrow());
    add1(c, "Zoned::yesterday", &pl.zoneds, |z| z.yesterday());
    add3(c, "Zoned::nth_weekday_of_month", &pl.zoneds_m, &pl.i8_all, &pl.weekdays, |z, n, w| z.nth_weekday_of_month(*n, *w));
    add3(c, "Zoned::nth_weekday", &pl.zoneds_m, &pl.nths, &pl.weekdays, |z, n, w| z.nth_weekday(*n, *w));
    add2(c, "Zoned::checked_add", &pl.zoneds, &pl.durs, |z, x| with_dur!(x, |v| z.checked_add(v)));
    add2(c, "Zoned::checked_sub", &pl.zoneds, &pl.durs, |z, x| with_dur!(x, |v| z.checked_sub(v)));
    add3(c, "Zoned::until(largest)", &pl.zoneds_m, &pl.zoneds_m, &pl.units, |a, b, u| a.until((*u, b)));
    add3(c, "Zoned::since(largest)", &pl.zoneds_m, &pl.zoneds_m, &pl.units, |a, b, u| a.since((*u, b)));
    add2(c, "Zoned::until(largest,same-zone-pairs)", &pl.zoned_pairs, &pl.units, |ab, u| ab.0.until((*u, &ab.1)));
    add2(c, "Zoned::since(largest,same-zone-pairs)", &pl.zoned_pairs, &pl.units, |ab, u| ab.0.since((*u, &ab.1)));
    add3(c, "Zoned::until(smallest,increment,mode)", &pl.zoneds_s, &pl.zoneds_s, &pl.ros, |a, b, o| {
        a.until(ZonedDifference::new(b).smallest(o.unit).increment(o.inc).mode(o.mode))
    });
    add3(c, "Zoned::since(smallest,increment,mode)", &pl.zoneds_s, &pl.zoneds_s, &pl.ros, |a, b, o| {
        a.since(ZonedDifference::new(b).smallest(o.unit).increment(o.inc).mode(o.mode))
    });
    add3(c, "Zoned::until(smallest,largest,mode)", &pl.zoneds_s, &pl.zoneds_s, &pl.sls, |a, b, o| {
        let mut d = ZonedDifference::new(b).smallest(o.smallest).mode(o.mode);
        if let Some(l) = o.largest {
            d = d.largest(l);
        }
        a.until(d)
    });
    add2(c, "Zoned::round", &pl.zoneds, &pl.ros, |z, o| z.round(ZonedRound::new().smallest(o.unit).increment(o.inc).mode(o.mode)));
    add2(c, "ZonedWith::build(date)", &pl.zoneds_m, &pl.dates, |z, v| z.with().date(*v).build());
    add2(c, "ZonedWith::build(time)", &pl.zoneds_m, &pl.times, |z, v| z.with().time(*v).build());
    add3(c, "ZonedWith::build(time,disambiguation)", &pl.zoneds_m, &pl.times, &pl.disambs, |z, v, d| {
        z.with().time(*v).disambiguation(d.to()).build()
    });
    add2(c, "ZonedWith::build(year)", &pl.zoneds_m, &pl.i16s, |z, v| z.with().year(*v).build());
    add3(c, "ZonedWith::build(era_year)", &pl.zoneds_m, &pl.i16s, &pl.eras, |z, v, e| z.with().era_year(*v, *e).build());
    add2(c, "ZonedWith::build(month)", &pl.zoneds_m, &pl.i8_all, |z, v| z.with().month(*v).build());
    add2(c, "ZonedWith::build(day)", &pl.zoneds_m, &pl.i8_all, |z, v| z.with().day(*v).build());
    add2(c, "ZonedWith::build(day_of_year)", &pl.zoneds_m, &pl.i16s, |z, v| z.with().day_of_year(*v).build());
    add2(c, "ZonedWith::build(day_of_year_no_leap)", &pl.zoneds_m, &pl.i16s, |z, v| z.with().day_of_year_no_leap(*v).build());
    add2(c, "ZonedWith::build(hour)", &pl.zoneds_m, &pl.i8_all, |z, v| z.with().hour(*v).build());
    add2(c, "ZonedWith::build(minute)", &pl.zoneds_m, &pl.i8_all, |z, v| z.with().minute(*v).build());
    add2(c, "ZonedWith::build(second)", &pl.zoneds_m, &pl.i8_all, |z, v| z.with().second(*v).build());
    add2(c, "ZonedWith::build(millisecond)", &pl.zoneds_m, &pl.i16s, |z, v| z.with().millisecond(*v).build());
    add2(c, "ZonedWith::build(microsecond)", &pl.zoneds_m, &pl.i16s, |z, v| z.with().microsecond(*v).build());
    add2(c, "ZonedWith::build(nanosecond)", &pl.zoneds_m, &pl.i16s, |z, v| z.with().nanosecond(*v).build());
    add2(c, "ZonedWith::build(subsec_nanosecond)", &pl.zoneds_m, &pl.i32s, |z, v| z.with().subsec_nanosecond(*v).build());
    add3(c, "ZonedWith::build(offset,offset_conflict,disambiguation)", &pl.zoneds_m, &pl.offsets, &pl.conflicts, |z, o, cd| {
        z.with().offset(*o).offset_conflict(cd.0).disambiguation(cd.1.to()).build()
    });
    add4(
        c,
        "ZonedWith::build(hour,offset,offset_conflict,disambiguation)",
        &pl.zoneds_s,
        &pl.hours,
        &pl.offsets,
        &pl.conflicts,
        |z, h, o, cd| z.with().hour(*h).offset(*o).offset_conflict(cd.0).disambiguation(cd.1.to()).build(),
    );

    // =====================================================================
    // Span
    // =====================================================================
    add2(c, "Span::try_years", &pl.span_bases, &pl.i64s, |s, v| s.try_years(*v));
    add2(c, "Span::try_months", &pl.span_bases, &pl.i64s, |s, v| s.try_months(*v));
    add2(c, "Span::try_weeks", &pl.span_bases, &pl.i64s, |s, v| s.try_weeks(*v));
    add2(c, "Span::try_days", &pl.span_bases, &pl.i64s, |s, v| s.try_days(*v));
    add2(c, "Span::try_hours", &pl.span_bases, &pl.i64s, |s, v| s.try_hours(*v));
    add2(c, "Span::try_minutes", &pl.span_bases, &pl.i64s, |s, v| s.try_minutes(*v));
    add2(c, "Span::try_seconds", &pl.span_bases, &pl.i64s, |s, v| s.try_seconds(*v));
    add2(c, "Span::try_milliseconds", &pl.span_bases, &pl.i64s, |s, v| s.try_milliseconds(*v));
    add2(c, "Span::try_microseconds", &pl.span_bases, &pl.i64s, |s, v| s.try_microseconds(*v));
    add2(c, "Span::try_nanoseconds", &pl.span_bases, &pl.i64s, |s, v| s.try_nanoseconds(*v));
    add2(c, "Span::checked_mul", &pl.spans, &pl.i64s, |s, v| s.checked_mul(*v));
    add3(c, "Span::checked_add(span,relative)", &pl.spans_s, &pl.spans_s, &pl.rels, |a, b, r| {
        with_rel!(r, a.checked_add(*b), |x| a.checked_add((*b, x)))
    });
    add3(c, "Span::checked_sub(span,relative)", &pl.spans_s, &pl.spans_s, &pl.rels, |a, b, r| {
        with_rel!(r, a.checked_sub(*b), |x| a.checked_sub((*b, x)))
    });
    add2(c, "Span::checked_add(duration)", &pl.spans, &pl.durs, |a, x| with_dur!(x, |v| a.checked_add(v)));
    add2(c, "Span::checked_sub(duration)", &pl.spans, &pl.durs, |a, x| with_dur!(x, |v| a.checked_sub(v)));
    add3(c, "Span::compare", &pl.spans_s, &pl.spans_s, &pl.rels, |a, b, r| with_rel!(r, a.compare(*b), |x| a.compare((*b, x))));
    add3(c, "Span::total", &pl.spans, &pl.units, &pl.rels, |a, u, r| with_rel!(r, a.total(*u), |x| a.total((*u, x))));
    add3(c, "Span::round(smallest,increment,mode)", &pl.spans_s, &pl.rels, &pl.ros, |a, r, o| {
        let opt = SpanRound::new().smallest(o.unit).increment(o.inc).mode(o.mode);
        with_rel!(r, a.round(opt), |x| a.round(opt.relative(x)))
    });
    add3(c, "Span::round(smallest,largest,mode)", &pl.spans_s, &pl.rels, &pl.sls, |a, r, o| {
        let mut opt = SpanRound::new().smallest(o.smallest).mode(o.mode);
        if let Some(l) = o.largest {
            opt = opt.largest(l);
        }
        with_rel!(r, a.round(opt), |x| a.round(opt.relative(x)))
    });
    let rels_some = pick(&pl.rels, |_, r| !matches!(r, Rel::None));
    add2(c, "Span::to_duration", &pl.spans, &rels_some, |a, r| {
        with_rel!(r, Err(()), |x| a.to_duration(x).map_err(|_| ()))
    });
    add1(c, "SignedDuration::try_from(Span)", &pl.spans, |s| SignedDuration::try_from(*s));
    add1(c, "Span::try_from(SignedDuration)", &pl.sdurs, |s| Span::try_from(*s));
    add1(c, "Span::try_from(UnsignedDuration)", &pl.udurs, |s| Span::try_from(*s));

    // =====================================================================
    // SignedDuration
    // =====================================================================
    add1(c, "SignedDuration::try_from_secs_f64", &pl.f64s, |x| SignedDuration::try_from_secs_f64(*x));
    add1(c, "SignedDuration::try_from_secs_f32", &pl.f32s, |x| SignedDuration::try_from_secs_f32(*x));
    add2(c, "SignedDuration::checked_add", &pl.sdurs, &pl.sdurs, |a, b| opt(a.checked_add(*b)));
    add2(c, "SignedDuration::checked_sub", &pl.sdurs, &pl.sdurs, |a, b| opt(a.checked_sub(*b)));
    add2(c, "SignedDuration::checked_mul", &pl.sdurs, &pl.i32s, |a, b| opt(a.checked_mul(*b)));
    add2(c, "SignedDuration::checked_div", &pl.sdurs, &pl.i32s, |a, b| opt(a.checked_div(*b)));
    add1(c, "SignedDuration::checked_neg", &pl.sdurs, |a| opt(a.checked_neg()));
    add2(c, "SignedDuration::round", &pl.sdurs, &pl.ros, |a, o| a.round(SignedDurationRound::new().smallest(o.unit).increment(o.inc).mode(o.mode)));
    add2(c, "SignedDuration::system_until", &pl.systimes, &pl.systimes, |a, b| SignedDuration::system_until(*a, *b));
    add1(c, "SignedDuration::try_from(Duration)", &pl.udurs, |a| SignedDuration::try_from(*a));
    add1(c, "std::Duration::try_from(SignedDuration)", &pl.sdurs, |a| std::time::Duration::try_from(*a));
    add1(c, "std::Duration::try_from(Span)", &pl.spans, |a| std::time::Duration::try_from(*a));

    // =====================================================================
    // tz::Offset
    // =====================================================================
    add1(c, "Offset::from_hours", &pl.i8_all, |h| Offset::from_hours(*h));
    add1(c, "Offset::from_seconds", &pl.i32s, |s| Offset::from_seconds(*s));
    add2(c, "Offset::to_timestamp", &pl.offsets, &pl.dts, |o, d| o.to_timestamp(*d));
    add2(c, "Offset::to_datetime", &pl.offsets, &pl.tss, |o, t| ok(o.to_datetime(*t)));
    add2(c, "Offset::checked_add", &pl.offsets, &pl.durs, |o, x| with_dur!(x, |v| o.checked_add(v)));
    add2(c, "Offset::checked_sub", &pl.offsets, &pl.durs, |o, x| with_dur!(x, |v| o.checked_sub(v)));
    add2(c, "Offset::saturating_add", &pl.offsets, &pl.durs, |o, x| {
        with_dur!(x, |v| ok(sat_pin(o.saturating_add(v), o.checked_add(v), dur_neg(x), Offset::MIN, Offset::MAX)))
    });
    add2(c, "Offset::saturating_sub", &pl.offsets, &pl.durs, |o, x| {
        with_dur!(x, |v| ok(sat_pin(o.saturating_sub(v), o.checked_sub(v), !dur_neg(x), Offset::MIN, Offset::MAX)))
    });
    add2(c, "Offset::until", &pl.offsets, &pl.offsets, |a, b| ok(a.until(*b)));
    add2(c, "Offset::since", &pl.offsets, &pl.offsets, |a, b| ok(a.since(*b)));
    add2(c, "Offset::duration_until", &pl.offsets, &pl.offsets, |a, b| ok(a.duration_until(*b)));
    add2(c, "Offset::duration_since", &pl.offsets, &pl.offsets, |a, b| ok(a.duration_since(*b)));
    add1(c, "Offset::negate", &pl.offsets, |a| ok(a.negate()));
    add2(c, "Offset::round", &pl.offsets, &pl.ros, |a, o| a.round(OffsetRound::new().smallest(o.unit).increment(o.inc).mode(o.mode)));
    add1(c, "Offset::try_from(SignedDuration)", &pl.sdurs, |d| Offset::try_from(*d));
    add4(c, "OffsetConflict::resolve", &pl.conflicts, &head(&pl.dts_m, 116), &pl.offsets, &pl.zones, |cd, dt, o, tz| {
        cd.0.resolve(*dt, *o, tz.clone()).and_then(|az| az.disambiguate(cd.1.to()))
    });

    // =====================================================================
    // tz::TimeZone, tz::AmbiguousTimestamp, tz::AmbiguousZoned
    // =====================================================================
    add1(c, "TimeZone::to_fixed_offset", &pl.zones, |tz| tz.to_fixed_offset());
    add2(c, "TimeZone::to_timestamp", &pl.zones, &pl.dts, |tz, d| tz.to_timestamp(*d));
    add2(c, "TimeZone::to_zoned", &pl.zones, &pl.dts, |tz, d| tz.to_zoned(*d));
    let instants: P<Timestamp> = {
        // the timestamp pool plus every instant of the zoned pool
        let mut v: Vec<Timestamp> = (0..pl.tss.len()).map(|i| *pl.tss.val(i)).collect();
        for i in 0..pl.zoneds.len() {
            let t = pl.zoneds.val(i).timestamp();
            if !v.contains(&t) {
                v.push(t);
            }
        }
        p(v, pools::ts_label)
    };
    add2(c, "TimeZone::to_offset", &pl.zones, &instants, |tz, t| ok(tz.to_offset(*t)));
    add2(c, "TimeZone::to_datetime", &pl.zones, &instants, |tz, t| ok(tz.to_datetime(*t)));
    add2(c, "TimeZone::to_offset_info", &pl.zones, &instants, |tz, t| {
        // rendered inside the closure: the info borrows the zone
        let info = tz.to_offset_info(*t);
        ok((info.offset(), info.dst().is_dst() as i8 as i64, info.abbreviation().to_string()))
    });
    add2(c, "AmbiguousTimestamp::compatible", &pl.zones, &pl.dts, |tz, d| tz.to_ambiguous_timestamp(*d).compatible());
    add2(c, "AmbiguousTimestamp::earlier", &pl.zones, &pl.dts, |tz, d| tz.to_ambiguous_timestamp(*d).earlier());
    add2(c, "AmbiguousTimestamp::later", &pl.zones, &pl.dts, |tz, d| tz.to_ambiguous_timestamp(*d).later());
    add2(c, "AmbiguousTimestamp::unambiguous", &pl.zones, &pl.dts, |tz, d| tz.to_ambiguous_timestamp(*d).unambiguous());
    add3(c, "AmbiguousTimestamp::disambiguate", &pl.zones, &pl.dts, &pl.disambs, |tz, d, m| {
        tz.to_ambiguous_timestamp(*d).disambiguate(m.to())
    });
    add2(c, "AmbiguousZoned::compatible", &pl.zones, &pl.dts, |tz, d| tz.to_ambiguous_zoned(*d).compatible());
    add2(c, "AmbiguousZoned::earlier", &pl.zones, &pl.dts, |tz, d| tz.to_ambiguous_zoned(*d).earlier());
    add2(c, "AmbiguousZoned::later", &pl.zones, &pl.dts, |tz, d| tz.to_ambiguous_zoned(*d).later());
    add2(c, "AmbiguousZoned::unambiguous", &pl.zones, &pl.dts, |tz, d| tz.to_ambiguous_zoned(*d).unambiguous());
    add3(c, "AmbiguousZoned::disambiguate", &pl.zones, &pl.dts, &pl.disambs, |tz, d, m| {
        tz.clone().into_ambiguous_zoned(*d).disambiguate(m.to())
    });

    let _: Option<(Disamb, Zoned)> = None;
    extend(&mut cat, &pl, &instants, quick);
    cat
}

// ===========================================================================
// Extension: everything public that takes a value which can be out of range or
// overflow and is NOT documented to panic - infallible conversions and
// accessors at the type limits, `saturating_*` / `wrapping_*`, the operator
// impls documented as wrapping (`Time`, `Weekday`) or as "never panics"
// (`a - b` of two datetimes), `TryFrom` / `From` conversions, iterators.
// Documented panics are listed by name in `excluded()`.
// ===========================================================================

/// inputs left out of an entry because the documentation says they panic
pub static EXCLUDED_DOC_PANIC_INPUTS: AtomicU64 = AtomicU64::new(0);
/// non-vacuity of the saturating identity: how the expected value was obtained
pub static SAT_CHECKED_OK: AtomicU64 = AtomicU64::new(0);
pub static SAT_TO_MIN: AtomicU64 = AtomicU64::new(0);
pub static SAT_TO_MAX: AtomicU64 = AtomicU64::new(0);
/// non-vacuity of the weekday oracle: operands whose exact sum / negation leaves i64
pub static WD_BEYOND_I64: AtomicU64 = AtomicU64::new(0);

fn dur_neg(d: &Dur) -> bool {
    match d {
        Dur::Span(s) => chk::span_fields(s).iter().any(|f| *f < 0),
        Dur::S(x) => x.as_secs() < 0 || x.subsec_nanos() < 0,
        Dur::U(_) => false,
    }
}

/// "identical to `checked_x`, except the result saturates": the checked result
/// when there is one, otherwise the limit on the side the operand points to
fn sat_pin<T: Chk, E>(got: T, checked: Result<T, E>, to_min: bool, min: T, max: T) -> Pinned<T> {
    let want = match checked {
        Ok(v) => {
            SAT_CHECKED_OK.fetch_add(1, Ordering::Relaxed);
            v
        }
        Err(_) => {
            if to_min {
                SAT_TO_MIN.fetch_add(1, Ordering::Relaxed);
                min
            } else {
                SAT_TO_MAX.fetch_add(1, Ordering::Relaxed);
                max
            }
        }
    };
    Pinned { got, want, tag: "not-the-checked-result-nor-the-limit" }
}

fn wd_index(w: Weekday) -> i128 {
    WEEKDAYS.iter().position(|x| *x == w).unwrap() as i128
}
/// `w + delta` modulo 7 in exact arithmetic; the class of the failure says
/// whether the true sum / negation leaves `i64`
fn wd_pin(got: Weekday, w: Weekday, days: i128, negate: bool) -> Pinned<Weekday> {
    let delta = if negate { -days } else { days };
    let want = WEEKDAYS[(wd_index(w) + delta).rem_euclid(7) as usize];
    let fits = |x: i128| x >= i64::MIN as i128 && x <= i64::MAX as i128;
    let tag = if !fits(delta) {
        "value:negated-operand-exceeds-i64"
    } else if !fits(wd_index(w) + delta) {
        "value:sum-exceeds-i64"
    } else {
        "value"
    };
    if tag != "value" {
        WD_BEYOND_I64.fetch_add(1, Ordering::Relaxed);
    }
    Pinned { got, want, tag }
}

macro_rules! weekday_ops {
    ($cat:expr, $tn:literal, $wd:expr, $pool:expr) => {{
        add2($cat, concat!("Weekday::add(", $tn, ")"), $wd, $pool, |w, n| ok(wd_pin(*w + *n, *w, *n as i128, false)));
        add2($cat, concat!("Weekday::sub(", $tn, ")"), $wd, $pool, |w, n| ok(wd_pin(*w - *n, *w, *n as i128, true)));
        add2($cat, concat!($tn, "::add(Weekday)"), $wd, $pool, |w, n| ok(wd_pin(*n + *w, *w, *n as i128, false)));
        add2($cat, concat!("Weekday::add_assign(", $tn, ")"), $wd, $pool, |w, n| {
            let mut x = *w;
            x += *n;
            ok(wd_pin(x, *w, *n as i128, false))
        });
        add2($cat, concat!("Weekday::sub_assign(", $tn, ")"), $wd, $pool, |w, n| {
            let mut x = *w;
            x -= *n;
            ok(wd_pin(x, *w, *n as i128, true))
        });
    }};
}

/// `saturating_add` / `saturating_sub` of a datetime type against the
/// documented identity with `checked_add` / `checked_sub`
macro_rules! sat_entries {
    ($cat:expr, $ty:literal, $pool:expr, $durs:expr, $min:expr, $max:expr) => {{
        add2($cat, concat!($ty, "::saturating_add"), $pool, $durs, |a, x| {
            with_dur!(x, |v| ok(sat_pin(a.saturating_add(v), a.checked_add(v), dur_neg(x), $min(a), $max(a))))
        });
        add2($cat, concat!($ty, "::saturating_sub"), $pool, $durs, |a, x| {
            with_dur!(x, |v| ok(sat_pin(a.saturating_sub(v), a.checked_sub(v), !dur_neg(x), $min(a), $max(a))))
        });
    }};
}

/// the `-` operator of two values of one type ("will never panic or fail in any
/// way") and the infallible absolute differences
macro_rules! minus_entries {
    ($cat:expr, $ty:literal, $pool:expr) => {{
        add2($cat, concat!($ty, "::sub(", $ty, ")"), $pool, $pool, |a, b| ok(*a - *b));
        add2($cat, concat!($ty, "::duration_until"), $pool, $pool, |a, b| ok(a.duration_until(*b)));
        add2($cat, concat!($ty, "::duration_since"), $pool, $pool, |a, b| ok(a.duration_since(*b)));
    }};
}

fn take_n<I: Iterator>(it: I, n: usize) -> Vec<I::Item> {
    it.take(n).collect()
}

/// a `Zoned` in the *system* time zone: only the instant is rendered (the zone
/// is a property of the machine), everything is range-checked
struct SysZoned(Zoned);
impl Chk for SysZoned {
    fn show(&self, s: &mut String) {
        self.0.timestamp().show(s);
    }
    fn bad(&self) -> Option<String> {
        self.0.bad()
    }
}

fn unit_index(u: Unit) -> usize {
    pools::UNITS.iter().position(|x| *x == u).map(|i| 9 - i).unwrap()
}

fn span_set(s: Span, u: Unit, v: i64) -> Span {
    match u {
        Unit::Year => s.years(v),
        Unit::Month => s.months(v),
        Unit::Week => s.weeks(v),
        Unit::Day => s.days(v),
        Unit::Hour => s.hours(v),
        Unit::Minute => s.minutes(v),
        Unit::Second => s.seconds(v),
        Unit::Millisecond => s.milliseconds(v),
        Unit::Microsecond => s.microseconds(v),
        Unit::Nanosecond => s.nanoseconds(v),
    }
}

macro_rules! to_span_fn {
    ($name:ident, $t:ty) => {
        fn $name(v: $t, u: Unit, singular: bool) -> Span {
            match (u, singular) {
                (Unit::Year, false) => v.years(),
                (Unit::Month, false) => v.months(),
                (Unit::Week, false) => v.weeks(),
                (Unit::Day, false) => v.days(),
                (Unit::Hour, false) => v.hours(),
                (Unit::Minute, false) => v.minutes(),
                (Unit::Second, false) => v.seconds(),
                (Unit::Millisecond, false) => v.milliseconds(),
                (Unit::Microsecond, false) => v.microseconds(),
                (Unit::Nanosecond, false) => v.nanoseconds(),
                (Unit::Year, true) => v.year(),
                (Unit::Month, true) => v.month(),
                (Unit::Week, true) => v.week(),
                (Unit::Day, true) => v.day(),
                (Unit::Hour, true) => v.hour(),
                (Unit::Minute, true) => v.minute(),
                (Unit::Second, true) => v.second(),
                (Unit::Millisecond, true) => v.millisecond(),
                (Unit::Microsecond, true) => v.microsecond(),
                (Unit::Nanosecond, true) => v.nanosecond(),
            }
        }
    };
}
to_span_fn!(to_span_i8, i8);
to_span_fn!(to_span_i16, i16);
to_span_fn!(to_span_i32, i32);
to_span_fn!(to_span_i64, i64);

/// (value, unit, singular form) triples whose value is inside the unit's
/// documented limit; the others (documented panic) are counted
fn to_span_pool<T: Copy + Into<i64> + std::fmt::Debug>(vals: &P<T>) -> P<(T, Unit, bool)> {
    let mut v = vec![];
    for i in 0..vals.len() {
        let x = *vals.val(i);
        for u in pools::UNITS {
            for singular in [false, true] {
                let n: i64 = x.into();
                // i64::MIN.abs() would overflow: compare without negating
                let l = SPAN_LIMITS[unit_index(u)];
                if n > l || n < -l {
                    EXCLUDED_DOC_PANIC_INPUTS.fetch_add(1, Ordering::Relaxed);
                } else {
                    v.push((x, u, singular));
                }
            }
        }
    }
    p(v, |t| format!("{:?}.{}{}()", t.0, format!("{:?}", t.1).to_lowercase(), if t.2 { "" } else { "s" }))
}

fn ts_fields(t: &Timestamp) -> Vec<Num> {
    vec![
        num("as_second", t.as_second(), -377_705_023_201, 253_402_207_200),
        num("as_millisecond", t.as_millisecond(), -377_705_023_201_000, 253_402_207_200_999),
        num("as_microsecond", t.as_microsecond(), -377_705_023_201_000_000, 253_402_207_200_999_999),
        num("as_nanosecond", t.as_nanosecond(), chk::TS_MIN, chk::TS_MAX),
        num("subsec_millisecond", t.subsec_millisecond(), -999, 999),
        num("subsec_microsecond", t.subsec_microsecond(), -999_999, 999_999),
        num("subsec_nanosecond", t.subsec_nanosecond(), -999_999_999, 999_999_999),
        num("signum", t.signum(), -1, 1),
        num("is_zero", t.is_zero(), 0, 1),
    ]
}

fn date_fields(d: &Date) -> Vec<Num> {
    let (ey, era) = d.era_year();
    vec![
        num("year", d.year(), -9999, 9999),
        num("era_year", ey, 1, 10_000),
        num("era_is_ce", matches!(era, jiff::civil::Era::CE), 0, 1),
        num("month", d.month(), 1, 12),
        num("day", d.day(), 1, 31),
        num("weekday", wd_index(d.weekday()), 0, 6),
        num("day_of_year", d.day_of_year(), 1, 366),
        num("day_of_year_no_leap", d.day_of_year_no_leap().unwrap_or(0), 0, 365),
        num("days_in_month", d.days_in_month(), 28, 31),
        num("days_in_year", d.days_in_year(), 365, 366),
        num("in_leap_year", d.in_leap_year(), 0, 1),
    ]
}

fn sdur_fields(d: &SignedDuration) -> Vec<Num> {
    vec![
        anynum("as_secs", d.as_secs()),
        num("subsec_millis", d.subsec_millis(), -999, 999),
        num("subsec_micros", d.subsec_micros(), -999_999, 999_999),
        num("subsec_nanos", d.subsec_nanos(), -999_999_999, 999_999_999),
        anynum("as_millis", d.as_millis()),
        anynum("as_micros", d.as_micros()),
        anynum("as_nanos", d.as_nanos()),
        anynum("as_hours", d.as_hours()),
        anynum("as_mins", d.as_mins()),
        num("signum", d.signum(), -1, 1),
        num("is_zero", d.is_zero(), 0, 1),
        num("is_positive", d.is_positive(), 0, 1),
        num("is_negative", d.is_negative(), 0, 1),
    ]
}

fn transitions<'t, I: Iterator<Item = jiff::tz::TimeZoneTransition<'t>>>(it: I) -> Vec<Trans> {
    take_n(it, 300)
        .into_iter()
        .map(|t| Trans { ts: t.timestamp(), off: t.offset(), dst: t.dst().is_dst(), abbr: t.abbreviation().to_string() })
        .collect()
}

fn extend(c: &mut Cat, pl: &Pools, instants: &P<Timestamp>, quick: bool) {
    // =====================================================================
    // civil::Weekday: wrapping arithmetic, exact modulo-7 oracle
    // =====================================================================
    add2(c, "Weekday::wrapping_add", &pl.weekdays, &pl.i64s, |w, n| ok(wd_pin(w.wrapping_add(*n), *w, *n as i128, false)));
    add2(c, "Weekday::wrapping_sub", &pl.weekdays, &pl.i64s, |w, n| ok(wd_pin(w.wrapping_sub(*n), *w, *n as i128, true)));
    weekday_ops!(c, "i8", &pl.weekdays, &pl.i8_all);
    weekday_ops!(c, "i16", &pl.weekdays, &pl.i16s);
    weekday_ops!(c, "i32", &pl.weekdays, &pl.i32s);
    weekday_ops!(c, "i64", &pl.weekdays, &pl.i64s);
    add2(c, "Weekday::since", &pl.weekdays, &pl.weekdays, |a, b| ok(num("days", a.since(*b), 0, 6)));
    add2(c, "Weekday::until", &pl.weekdays, &pl.weekdays, |a, b| ok(num("days", a.until(*b), 0, 6)));
    add1(c, "Weekday::next/previous/to_offsets", &pl.weekdays, |w| {
        ok(vec![
            num("next", wd_index(w.next()), 0, 6),
            num("previous", wd_index(w.previous()), 0, 6),
            num("to_monday_zero_offset", w.to_monday_zero_offset(), 0, 6),
            num("to_monday_one_offset", w.to_monday_one_offset(), 1, 7),
            num("to_sunday_zero_offset", w.to_sunday_zero_offset(), 0, 6),
            num("to_sunday_one_offset", w.to_sunday_one_offset(), 1, 7),
        ])
    });
    add1(c, "Weekday::cycle_forward/cycle_reverse", &pl.weekdays, |w| {
        let mut v = take_n(w.cycle_forward(), 15);
        v.extend(take_n(w.cycle_reverse(), 15));
        ok(v)
    });

    // =====================================================================
    // civil::ISOWeekDate <-> civil::Date (infallible, at both limits)
    // =====================================================================
    let iwds: P<ISOWeekDate> = {
        let mut v: Vec<ISOWeekDate> = vec![ISOWeekDate::MIN, ISOWeekDate::MAX, ISOWeekDate::ZERO];
        for y in [-9999i16, 9999, 9998, -9998, 2020, 2024, 0, 1] {
            for w in [1i8, 2, 52, 53] {
                for wd in WEEKDAYS {
                    if let Ok(x) = ISOWeekDate::new(y, w, wd) {
                        v.push(x);
                    }
                }
            }
        }
        pd(v)
    };
    add1(c, "ISOWeekDate::from_date", &pl.dates, |d| ok(ISOWeekDate::from_date(*d)));
    add1(c, "ISOWeekDate::from(Date)", &pl.dates, |d| ok(ISOWeekDate::from(*d)));
    add1(c, "ISOWeekDate::from(DateTime)", &pl.dts_m, |d| ok(ISOWeekDate::from(*d)));
    add1(c, "ISOWeekDate::from(Zoned)", &pl.zoneds_m, |z| ok((ISOWeekDate::from(z), ISOWeekDate::from(z.clone()))));
    add1(c, "ISOWeekDate::date", &iwds, |x| ok(x.date()));
    add1(c, "Date::from(ISOWeekDate)", &iwds, |x| ok(Date::from(*x)));
    add1(c, "Date::from_iso_week_date", &iwds, |x| ok(Date::from_iso_week_date(*x)));
    add1(c, "Date::iso_week_date", &pl.dates, |d| ok(d.iso_week_date()));
    add1(c, "DateTime::iso_week_date", &pl.dts_m, |d| ok(d.iso_week_date()));
    add1(c, "Zoned::iso_week_date", &pl.zoneds_m, |z| ok(z.clone().iso_week_date()));
    add1(c, "ISOWeekDate::days_in_year/weeks_in_year/in_long_year", &iwds, |x| {
        ok(vec![num("days_in_year", x.days_in_year(), 364, 371), num("weeks_in_year", x.weeks_in_year(), 52, 53), num("in_long_year", x.in_long_year(), 0, 1)])
    });

    // =====================================================================
    // civil::Date
    // =====================================================================
    sat_entries!(c, "Date", &pl.dates, &pl.durs, |_a: &Date| Date::MIN, |_a: &Date| Date::MAX);
    minus_entries!(c, "Date", &pl.dates);
    add1(c, "Date::first_of_month", &pl.dates, |d| ok(d.first_of_month()));
    add1(c, "Date::last_of_month", &pl.dates, |d| ok(d.last_of_month()));
    add1(c, "Date::first_of_year", &pl.dates, |d| ok(d.first_of_year()));
    add1(c, "Date::last_of_year", &pl.dates, |d| ok(d.last_of_year()));
    add1(c, "Date::accessors", &pl.dates, |d| ok(date_fields(d)));
    add2(c, "Date::to_datetime", &pl.dates, &pl.times, |d, t| ok((d.to_datetime(*t), t.to_datetime(*d))));
    add2(c, "Date::until(datetime)", &pl.dates, &pl.dts_m, |a, b| a.until(*b));
    add2(c, "Date::until(zoned)", &pl.dates, &pl.zoneds_m, |a, b| a.until(b));
    add3(c, "Date::since(largest,zoned)", &pl.dates, &pl.zoneds_m, &pl.units, |a, b, u| a.since((*u, b)));
    add3(c, "Date::since(smallest,largest,mode)", &pl.dates_s, &pl.dates_s, &pl.sls, |a, b, o: &SL| {
        let mut d = DateDifference::new(*b).smallest(o.smallest).mode(o.mode);
        if let Some(l) = o.largest {
            d = d.largest(l);
        }
        a.since(d)
    });

    // =====================================================================
    // civil::Time: wrapping (also the operators), saturating
    // =====================================================================
    add2(c, "Time::wrapping_add", &pl.times, &pl.durs, |t, x| with_dur!(x, |v| ok(t.wrapping_add(v))));
    add2(c, "Time::wrapping_sub", &pl.times, &pl.durs, |t, x| with_dur!(x, |v| ok(t.wrapping_sub(v))));
    add2(c, "Time::add(duration)", &pl.times, &pl.durs, |t, x| with_dur!(x, |v| ok(*t + v)));
    add2(c, "Time::sub(duration)", &pl.times, &pl.durs, |t, x| with_dur!(x, |v| ok(*t - v)));
    add2(c, "Time::add_assign(duration)", &pl.times, &pl.durs, |t, x| {
        with_dur!(x, |v| {
            let mut y = *t;
            y += v;
            ok(y)
        })
    });
    add2(c, "Time::sub_assign(duration)", &pl.times, &pl.durs, |t, x| {
        with_dur!(x, |v| {
            let mut y = *t;
            y -= v;
            ok(y)
        })
    });
    sat_entries!(c, "Time", &pl.times, &pl.durs, |_a: &Time| Time::MIN, |_a: &Time| Time::MAX);
    minus_entries!(c, "Time", &pl.times);
    add2(c, "Time::until(datetime)", &pl.times, &pl.dts_m, |a, b| a.until(*b));
    add3(c, "Time::since(largest,zoned)", &pl.times, &pl.zoneds_m, &pl.units, |a, b, u| a.since((*u, b)));
    add3(c, "Time::since(smallest,largest,mode)", &pl.times, &pl.times, &pl.sls, |a, b, o: &SL| {
        let mut d = TimeDifference::new(*b).smallest(o.smallest).mode(o.mode);
        if let Some(l) = o.largest {
            d = d.largest(l);
        }
        a.since(d)
    });
    add2(c, "Time::round(unit)", &pl.times, &pl.units, |t, u| t.round(*u));
    add3(c, "Time::round(unit,increment)", &pl.times, &pl.units, &pd(pools::INCS2.to_vec()), |t, u, i| t.round((*u, *i)));

    // =====================================================================
    // civil::DateTime
    // =====================================================================
    sat_entries!(c, "DateTime", &pl.dts, &pl.durs, |_a: &DateTime| DateTime::MIN, |_a: &DateTime| DateTime::MAX);
    minus_entries!(c, "DateTime", &pl.dts_m);
    add1(c, "DateTime::start_of_day", &pl.dts, |d| ok(d.start_of_day()));
    add1(c, "DateTime::end_of_day", &pl.dts, |d| ok(d.end_of_day()));
    add1(c, "DateTime::first_of_month", &pl.dts, |d| ok(d.first_of_month()));
    add1(c, "DateTime::last_of_month", &pl.dts, |d| ok(d.last_of_month()));
    add1(c, "DateTime::first_of_year", &pl.dts, |d| ok(d.first_of_year()));
    add1(c, "DateTime::last_of_year", &pl.dts, |d| ok(d.last_of_year()));
    add1(c, "Date::from(DateTime)", &pl.dts, |d| ok(Date::from(*d)));
    add1(c, "Date::from(Zoned)", &pl.zoneds_m, |z| ok((Date::from(z), Date::from(z.clone()))));
    add1(c, "Time::from(DateTime)", &pl.dts, |d| ok(Time::from(*d)));
    add1(c, "Time::from(Zoned)", &pl.zoneds_m, |z| ok((Time::from(z), Time::from(z.clone()))));
    add1(c, "DateTime::from(Date)", &pl.dates, |d| ok(DateTime::from(*d)));
    add1(c, "DateTime::from(Zoned)", &pl.zoneds_m, |z| ok((DateTime::from(z), DateTime::from(z.clone()))));
    add1(c, "DateTime::accessors", &pl.dts, |d| {
        let mut v = date_fields(&d.date());
        v.extend([
            num("dt.year", d.year(), -9999, 9999),
            num("dt.era_year", d.era_year().0, 1, 10_000),
            num("dt.month", d.month(), 1, 12),
            num("dt.day", d.day(), 1, 31),
            num("dt.hour", d.hour(), 0, 23),
            num("dt.minute", d.minute(), 0, 59),
            num("dt.second", d.second(), 0, 59),
            num("dt.millisecond", d.millisecond(), 0, 999),
            num("dt.microsecond", d.microsecond(), 0, 999),
            num("dt.nanosecond", d.nanosecond(), 0, 999),
            num("dt.subsec_nanosecond", d.subsec_nanosecond(), 0, 999_999_999),
            num("dt.weekday", wd_index(d.weekday()), 0, 6),
            num("dt.day_of_year", d.day_of_year(), 1, 366),
            num("dt.day_of_year_no_leap", d.day_of_year_no_leap().unwrap_or(0), 0, 365),
            num("dt.days_in_month", d.days_in_month(), 28, 31),
            num("dt.days_in_year", d.days_in_year(), 365, 366),
            num("dt.in_leap_year", d.in_leap_year(), 0, 1),
        ]);
        ok(v)
    });
    add2(c, "DateTime::until(date)", &pl.dts_m, &pl.dates, |a, b| a.until(*b));
    add3(c, "DateTime::since(largest,zoned)", &pl.dts_m, &pl.zoneds_m, &pl.units, |a, b, u| a.since((*u, b)));
    add3(c, "DateTime::since(smallest,largest,mode)", &pl.dts_s, &pl.dts_s, &pl.sls, |a, b, o: &SL| {
        let mut d = DateTimeDifference::new(*b).smallest(o.smallest).mode(o.mode);
        if let Some(l) = o.largest {
            d = d.largest(l);
        }
        a.since(d)
    });
    add2(c, "DateTime::round(unit)", &pl.dts, &pl.units, |d, u| d.round(*u));
    add3(c, "DateTime::round(unit,increment)", &pl.dts_m, &pl.units, &pd(pools::INCS2.to_vec()), |d, u, i| d.round((*u, *i)));

    // =====================================================================
    // Timestamp
    // =====================================================================
    minus_entries!(c, "Timestamp", &pl.tss);
    add1(c, "Timestamp::accessors", &pl.tss, |t| ok(ts_fields(t)));
    add1(c, "Timestamp::as_duration", &pl.tss, |t| ok(t.as_duration()));
    add1(c, "SystemTime::from(Timestamp)", &pl.tss, |t| ok(SystemTime::from(*t)));
    add1(c, "SystemTime::from(Zoned)", &pl.zoneds_m, |z| ok(SystemTime::from(z.clone())));
    add1(c, "Zoned::try_from(SystemTime)", &pl.systimes, |s| Zoned::try_from(*s).map(SysZoned));
    add1(c, "Timestamp::from(Zoned)", &pl.zoneds_m, |z| ok((Timestamp::from(z), Timestamp::from(z.clone()))));
    add2(c, "Timestamp::until(zoned)", &pl.tss, &pl.zoneds_m, |a, b| a.until(b));
    add3(c, "Timestamp::since(largest,zoned)", &pl.tss, &pl.zoneds_m, &pl.units, |a, b, u| a.since((*u, b)));
    add3(c, "Timestamp::since(smallest,largest,mode)", &pl.tss_s, &pl.tss_s, &pl.sls, |a, b, o: &SL| {
        let mut d = TimestampDifference::new(*b).smallest(o.smallest).mode(o.mode);
        if let Some(l) = o.largest {
            d = d.largest(l);
        }
        a.since(d)
    });
    add2(c, "Timestamp::round(unit)", &pl.tss, &pl.units, |t, u| t.round(*u));
    add3(c, "Timestamp::round(unit,increment)", &pl.tss, &pl.units, &pd(pools::INCS2.to_vec()), |t, u, i| t.round((*u, *i)));

    // =====================================================================
    // Zoned
    // =====================================================================
    add2(c, "Zoned::new", &pl.tss, &pl.zones, |t, tz| ok(Zoned::new(*t, tz.clone())));
    sat_entries!(
        c,
        "Zoned",
        &pl.zoneds,
        &pl.durs,
        |a: &Zoned| Zoned::new(Timestamp::MIN, a.time_zone().clone()),
        |a: &Zoned| Zoned::new(Timestamp::MAX, a.time_zone().clone())
    );
    add2(c, "Zoned::sub(Zoned)", &pl.zoneds_m, &pl.zoneds_m, |a, b| ok(a - b));
    add1(c, "Zoned::sub(Zoned,same-zone-pairs)", &pl.zoned_pairs, |ab| ok(&ab.0 - &ab.1));
    add2(c, "Zoned::duration_until", &pl.zoneds_m, &pl.zoneds_m, |a, b| ok(a.duration_until(b)));
    add2(c, "Zoned::duration_since", &pl.zoneds_m, &pl.zoneds_m, |a, b| ok(a.duration_since(b)));
    add1(c, "Zoned::accessors", &pl.zoneds, |z| {
        let mut v = date_fields(&z.date());
        v.extend([
            num("hour", z.hour(), 0, 23),
            num("minute", z.minute(), 0, 59),
            num("second", z.second(), 0, 59),
            num("millisecond", z.millisecond(), 0, 999),
            num("microsecond", z.microsecond(), 0, 999),
            num("nanosecond", z.nanosecond(), 0, 999),
            num("subsec_nanosecond", z.subsec_nanosecond(), 0, 999_999_999),
            num("z.day_of_year_no_leap", z.day_of_year_no_leap().unwrap_or(0), 0, 365),
            num("z.in_leap_year", z.in_leap_year(), 0, 1),
            num("z.weekday", wd_index(z.weekday()), 0, 6),
            num("z.era_year", z.era_year().0, 1, 10_000),
            num("z.year", z.year(), -9999, 9999),
            num("z.month", z.month(), 1, 12),
            num("z.day", z.day(), 1, 31),
            num("z.day_of_year", z.day_of_year(), 1, 366),
            num("z.days_in_month", z.days_in_month(), 28, 31),
            num("z.days_in_year", z.days_in_year(), 365, 366),
        ]);
        ok(v)
    });
    add3(c, "Zoned::since(smallest,largest,mode)", &pl.zoneds_s, &pl.zoneds_s, &pl.sls, |a, b, o: &SL| {
        let mut d = ZonedDifference::new(b).smallest(o.smallest).mode(o.mode);
        if let Some(l) = o.largest {
            d = d.largest(l);
        }
        a.since(d)
    });
    add2(c, "Zoned::round(unit)", &pl.zoneds, &pl.units, |z, u| z.round(*u));
    add3(c, "Zoned::round(unit,increment)", &pl.zoneds_m, &pl.units, &pd(pools::INCS2.to_vec()), |z, u, i| z.round((*u, *i)));
    add3(c, "ZonedWith::build(month,day)", &pl.zoneds_s, &pl.i8s, &pl.i8s, |z, m, x| z.with().month(*m).day(*x).build());
    add3(c, "ZonedWith::build(year,day_of_year)", &pl.zoneds_s, &pl.i16s, &pl.i16s, |z, y, x| z.with().year(*y).day_of_year(*x).build());
    add3(c, "DateTimeWith::build(year,day_of_year)", &pl.dts_s, &pl.i16s, &pl.i16s, |d, y, x| d.with().year(*y).day_of_year(*x).build());

    // =====================================================================
    // Span
    // =====================================================================
    add1(c, "Span::abs", &pl.spans, |s| ok(s.abs()));
    add1(c, "Span::negate", &pl.spans, |s| ok(s.negate()));
    add1(c, "Span::neg", &pl.spans, |s| ok(-*s));
    add1(c, "Span::from(SpanFieldwise)", &pl.spans, |s| ok((Span::from(s.fieldwise()), Span::from(-s.fieldwise()))));
    {
        // the panicking setters, on the inputs the documentation allows
        let mut v: Vec<(Unit, i64)> = vec![];
        for u in pools::UNITS {
            let l = SPAN_LIMITS[unit_index(u)];
            for i in 0..pl.i64s.len() {
                let n = *pl.i64s.val(i);
                if n > l || n < -l {
                    EXCLUDED_DOC_PANIC_INPUTS.fetch_add(pl.span_bases.len() as u64, Ordering::Relaxed);
                } else {
                    v.push((u, n));
                }
            }
        }
        add2(c, "Span::<unit>s(within-limits)", &pl.span_bases, &pd(v), |s, un| ok(span_set(*s, un.0, un.1)));
    }
    add1(c, "ToSpan(i8,within-limits)", &to_span_pool(&pl.i8_all), |t| ok(to_span_i8(t.0, t.1, t.2)));
    add1(c, "ToSpan(i16,within-limits)", &to_span_pool(&pl.i16s), |t| ok(to_span_i16(t.0, t.1, t.2)));
    add1(c, "ToSpan(i32,within-limits)", &to_span_pool(&pl.i32s), |t| ok(to_span_i32(t.0, t.1, t.2)));
    add1(c, "ToSpan(i64,within-limits)", &to_span_pool(&pl.i64s), |t| ok(to_span_i64(t.0, t.1, t.2)));
    {
        // an absolute duration as the operand, with a relative datetime
        let abs: P<Dur> = pick(&pl.durs, |_, d| !matches!(d, Dur::Span(_)));
        let rels3 = pick(&pl.rels, |_, r| matches!(r, Rel::Date(_) | Rel::DateTime(_) | Rel::Zoned(_)));
        macro_rules! with_abs_rel {
            ($a:expr, $d:expr, $r:expr, $m:ident) => {
                match ($d, $r) {
                    (Dur::S(v), Rel::Date(x)) => $a.$m((*v, *x)),
                    (Dur::S(v), Rel::DateTime(x)) => $a.$m((*v, *x)),
                    (Dur::S(v), Rel::Zoned(x)) => $a.$m((*v, x)),
                    (Dur::U(v), Rel::Date(x)) => $a.$m((*v, *x)),
                    (Dur::U(v), Rel::DateTime(x)) => $a.$m((*v, *x)),
                    (Dur::U(v), Rel::Zoned(x)) => $a.$m((*v, x)),
                    _ => unreachable!(),
                }
            };
        }
        add3(c, "Span::checked_add(duration,relative)", &pl.spans_s, &abs, &rels3, |a, d, r| with_abs_rel!(a, d, r, checked_add));
        add3(c, "Span::checked_sub(duration,relative)", &pl.spans_s, &abs, &rels3, |a, d, r| with_abs_rel!(a, d, r, checked_sub));
    }
    {
        // largest AND increment together (the two existing `round` entries vary
        // one of them at a time)
        let mut v = vec![];
        for smallest in pools::UNITS {
            for largest in pools::UNITS {
                for inc in [1i64, 2, 7, 24, 30, 1000] {
                    v.push((smallest, largest, inc));
                }
            }
        }
        let sli = p(v, |t| format!("smallest={:?}/largest={:?}/inc={}/", t.0, t.1, t.2));
        add3(c, "Span::round(smallest,largest,increment)", &pl.spans_s, &pl.rels, &sli, |a, r, o| {
            let opt = SpanRound::new().smallest(o.0).largest(o.1).increment(o.2);
            with_rel!(r, a.round(opt), |x| a.round(opt.relative(x)))
        });
    }

    // =====================================================================
    // SignedDuration
    // =====================================================================
    {
        // `new`: "panics when the excess that carries over to the number of
        // whole seconds overflows i64" - every other input
        let mut v: Vec<(i64, i32)> = vec![];
        for i in 0..pl.i64s.len() {
            for j in 0..pl.i32s.len() {
                let (s, n) = (*pl.i64s.val(i), *pl.i32s.val(j));
                let carried = s as i128 + (n / 1_000_000_000) as i128;
                if n.unsigned_abs() >= 1_000_000_000 && (carried < i64::MIN as i128 || carried > i64::MAX as i128) {
                    EXCLUDED_DOC_PANIC_INPUTS.fetch_add(1, Ordering::Relaxed);
                } else {
                    v.push((s, n));
                }
            }
        }
        add1(c, "SignedDuration::new(no-carry-overflow)", &pd(v), |x| ok(SignedDuration::new(x.0, x.1)));
    }
    add1(c, "SignedDuration::from_secs", &pl.i64s, |x| ok(SignedDuration::from_secs(*x)));
    add1(c, "SignedDuration::from_millis", &pl.i64s, |x| ok(SignedDuration::from_millis(*x)));
    add1(c, "SignedDuration::from_micros", &pl.i64s, |x| ok(SignedDuration::from_micros(*x)));
    add1(c, "SignedDuration::from_nanos", &pl.i64s, |x| ok(SignedDuration::from_nanos(*x)));
    {
        let within = |per: i64| {
            pick(&pl.i64s, move |_, n| {
                let inside = *n >= i64::MIN / per && *n <= i64::MAX / per;
                if !inside {
                    EXCLUDED_DOC_PANIC_INPUTS.fetch_add(1, Ordering::Relaxed);
                }
                inside
            })
        };
        add1(c, "SignedDuration::from_hours(within-limits)", &within(3_600), |x| ok(SignedDuration::from_hours(*x)));
        add1(c, "SignedDuration::from_mins(within-limits)", &within(60), |x| ok(SignedDuration::from_mins(*x)));
    }
    let (sd_min, sd_max) = (sdur_ns(SignedDuration::MIN), sdur_ns(SignedDuration::MAX));
    let clamp = move |n: i128| sdur_from_ns(n.clamp(sd_min, sd_max)).unwrap();
    add2(c, "SignedDuration::saturating_add", &pl.sdurs, &pl.sdurs, move |a, b| {
        ok(Pinned { got: a.saturating_add(*b), want: clamp(sdur_ns(*a) + sdur_ns(*b)), tag: "not-the-exact-sum-nor-the-limit" })
    });
    add2(c, "SignedDuration::saturating_sub", &pl.sdurs, &pl.sdurs, move |a, b| {
        ok(Pinned { got: a.saturating_sub(*b), want: clamp(sdur_ns(*a) - sdur_ns(*b)), tag: "not-the-exact-difference-nor-the-limit" })
    });
    add2(c, "SignedDuration::saturating_mul", &pl.sdurs, &pl.i32s, move |a, b| {
        ok(Pinned { got: a.saturating_mul(*b), want: clamp(sdur_ns(*a) * *b as i128), tag: "not-the-exact-product-nor-the-limit" })
    });
    {
        let no_min = pick(&pl.sdurs, |_, d| {
            if d.as_secs() == i64::MIN {
                EXCLUDED_DOC_PANIC_INPUTS.fetch_add(1, Ordering::Relaxed);
            }
            d.as_secs() != i64::MIN
        });
        add1(c, "SignedDuration::abs(secs!=i64::MIN)", &no_min, |a| ok(a.abs()));
    }
    add1(c, "SignedDuration::unsigned_abs", &pl.sdurs, |a| ok(a.unsigned_abs()));
    add1(c, "SignedDuration::accessors", &pl.sdurs, |a| ok(sdur_fields(a)));
    add1(c, "SignedDuration::as_secs_f64/as_millis_f64", &pl.sdurs, |a| ok((F(a.as_secs_f64()), F(a.as_millis_f64()))));
    add2(c, "SignedDuration::div_duration_f64", &pl.sdurs, &pl.sdurs, |a, b| ok(F(a.div_duration_f64(*b))));
    add1(c, "SignedDuration::from(Offset)", &pl.offsets, |o| ok(SignedDuration::from(*o)));
    add2(c, "SignedDuration::round(unit)", &pl.sdurs, &pl.units, |a, u| a.round(*u));
    add3(c, "SignedDuration::round(unit,increment)", &pl.sdurs, &pl.units, &pd(pools::INCS2.to_vec()), |a, u, i| a.round((*u, *i)));

    // =====================================================================
    // tz::Offset, tz::OffsetConflict
    // =====================================================================
    add2(c, "Offset::sub(Offset)", &pl.offsets, &pl.offsets, |a, b| ok(*a - *b));
    add1(c, "Offset::neg", &pl.offsets, |a| ok(-*a));
    add1(c, "Offset::to_time_zone", &pl.offsets, |a| a.to_time_zone().to_fixed_offset());
    add1(c, "Offset::accessors", &pl.offsets, |a| {
        ok(vec![
            num("seconds", a.seconds(), -93_599, 93_599),
            num("signum", a.signum(), -1, 1),
            num("is_positive", a.is_positive(), 0, 1),
            num("is_negative", a.is_negative(), 0, 1),
            num("is_zero", a.is_zero(), 0, 1),
        ])
    });
    add2(c, "Offset::round(unit)", &pl.offsets, &pl.units, |a, u| a.round(*u));
    add3(c, "Offset::round(unit,increment)", &pl.offsets, &pl.units, &pd(pools::INCS2.to_vec()), |a, u, i| a.round((*u, *i)));
    add4(c, "OffsetConflict::resolve_with", &pl.conflicts, &head(&pl.dts_m, 116), &pl.offsets, &pl.zones, |cd, dt, o, tz| {
        // the closure of the documentation's example: equal up to rounding to the minute
        cd.0.resolve_with(*dt, *o, tz.clone(), |parsed, candidate| {
            parsed == candidate || candidate.round(Unit::Minute).map_or(false, |c| parsed == c)
        })
        .and_then(|az| az.disambiguate(cd.1.to()))
    });

    // =====================================================================
    // tz::TimeZone: transition iterators from every instant (both limits)
    // =====================================================================
    add2(c, "TimeZone::following", &pl.zones, instants, |tz, t| ok(transitions(tz.following(*t))));
    add2(c, "TimeZone::preceding", &pl.zones, instants, |tz, t| ok(transitions(tz.preceding(*t))));
    add2(c, "TimeZone::to_ambiguous_timestamp", &pl.zones, &pl.dts, |tz: &TimeZone, d| {
        let a = tz.to_ambiguous_timestamp(*d);
        let (k, x, y) = match a.offset() {
            jiff::tz::AmbiguousOffset::Unambiguous { offset } => (0, offset, offset),
            jiff::tz::AmbiguousOffset::Gap { before, after } => (1, before, after),
            jiff::tz::AmbiguousOffset::Fold { before, after } => (2, before, after),
        };
        ok((vec![num("kind", k, 0, 2), num("is_ambiguous", a.is_ambiguous(), 0, 1)], (a.datetime(), (x, y))))
    });

    // =====================================================================
    // the `days_are_24_hours()` builder methods of the span option types
    // =====================================================================
    add2(c, "SpanArithmetic::days_are_24_hours", &pl.spans_s, &pl.spans_s, |a, b| {
        a.checked_add(jiff::SpanArithmetic::from(*b).days_are_24_hours()).and_then(|x| a.checked_sub(jiff::SpanArithmetic::from(*b).days_are_24_hours()).map(|y| (x, y)))
    });
    add2(c, "SpanCompare::days_are_24_hours", &pl.spans_s, &pl.spans_s, |a, b| a.compare(jiff::SpanCompare::from(*b).days_are_24_hours()));
    add2(c, "SpanTotal::days_are_24_hours", &pl.spans, &pl.units, |a, u| a.total(jiff::SpanTotal::from(*u).days_are_24_hours()));
    add2(c, "SpanRound::days_are_24_hours", &pl.spans_s, &pl.ros, |a, o| {
        a.round(SpanRound::new().smallest(o.unit).increment(o.inc).mode(o.mode).days_are_24_hours())
    });

    // =====================================================================
    // every zone of the bundled database at the limits of the instant and
    // civil ranges (whether a limit is reachable depends on the zone's first
    // and last offset)
    // =====================================================================
    let lim_dts: P<DateTime> = {
        let d = |y: i16, m: i8, dd: i8, h: i8, mi: i8, s: i8, n: i32| DateTime::new(y, m, dd, h, mi, s, n).unwrap();
        let mut v = vec![
            DateTime::MIN,
            d(-9999, 1, 1, 0, 0, 0, 1),
            d(-9999, 1, 1, 23, 59, 59, 999_999_999),
            d(-9999, 1, 2, 1, 59, 59, 0),
            d(-9999, 1, 3, 0, 0, 0, 0),
            DateTime::MAX,
            d(9999, 12, 31, 0, 0, 0, 0),
            d(9999, 12, 30, 22, 0, 0, 999_999_999),
            d(9999, 12, 29, 23, 59, 59, 999_999_999),
            d(1970, 1, 1, 0, 0, 0, 0),
            d(2024, 3, 10, 2, 30, 0, 0),
        ];
        if !quick {
            // the first and last three civil days at every time of the pool
            for (y, m, dd) in [(-9999i16, 1i8, 1i8), (-9999, 1, 2), (-9999, 1, 3), (9999, 12, 29), (9999, 12, 30), (9999, 12, 31)] {
                for i in 0..pl.times.len() {
                    let x = Date::new(y, m, dd).unwrap().to_datetime(*pl.times.val(i));
                    if !v.contains(&x) {
                        v.push(x);
                    }
                }
            }
        }
        pd(v)
    };
    let lim_tss: P<Timestamp> = {
        let (lo, hi) = (Timestamp::MIN.as_nanosecond(), Timestamp::MAX.as_nanosecond());
        let day = 86_400 * NS;
        let mut v: Vec<i128> = vec![lo, lo + 1, lo + day, lo + 2 * day, hi, hi - 1, hi - day, hi - 2 * day, 0, 1_710_054_000 * NS];
        if !quick {
            // every whole hour of the first and last 52 hours (every possible
            // offset moves the civil day boundary somewhere in there), and the
            // timestamp pool
            for h in 0..=52i128 {
                v.push(lo + h * 3_600 * NS);
                v.push(hi - h * 3_600 * NS);
            }
            for i in 0..pl.tss.len() {
                v.push(pl.tss.val(i).as_nanosecond());
            }
            let mut seen = std::collections::BTreeSet::new();
            v.retain(|x| seen.insert(*x));
        }
        p(v.into_iter().map(|n| Timestamp::from_nanosecond(n).unwrap()).collect(), pools::ts_label)
    };
    let az = &pl.all_zones;
    add3(c, "AmbiguousTimestamp::disambiguate(all-zones)", az, &lim_dts, &pl.disambs, |tz, d, m| tz.to_ambiguous_timestamp(*d).disambiguate(m.to()));
    add2(c, "TimeZone::to_zoned(all-zones)", az, &lim_dts, |tz, d| tz.to_zoned(*d));
    add2(c, "TimeZone::to_timestamp(all-zones)", az, &lim_dts, |tz, d| tz.to_timestamp(*d));
    add2(c, "TimeZone::to_datetime(all-zones)", az, &lim_tss, |tz, t| ok((tz.to_datetime(*t), tz.to_offset(*t))));
    add2(c, "Zoned::new(all-zones)", az, &lim_tss, |tz, t| ok(Zoned::new(*t, tz.clone())));
    add2(c, "TimeZone::following(all-zones)", az, &lim_tss, |tz, t| ok(transitions(tz.following(*t))));
    add2(c, "TimeZone::preceding(all-zones)", az, &lim_tss, |tz, t| ok(transitions(tz.preceding(*t))));
    add2(c, "Zoned::start_of_day(all-zones)", az, &lim_tss, |tz, t| Zoned::new(*t, tz.clone()).start_of_day());
    add2(c, "Zoned::end_of_day(all-zones)", az, &lim_tss, |tz, t| Zoned::new(*t, tz.clone()).end_of_day());
    add2(c, "Zoned::tomorrow(all-zones)", az, &lim_tss, |tz, t| Zoned::new(*t, tz.clone()).tomorrow());
    add2(c, "Zoned::yesterday(all-zones)", az, &lim_tss, |tz, t| Zoned::new(*t, tz.clone()).yesterday());
    add2(c, "Zoned::first_of_year(all-zones)", az, &lim_tss, |tz, t| Zoned::new(*t, tz.clone()).first_of_year());
    add2(c, "Zoned::last_of_year(all-zones)", az, &lim_tss, |tz, t| Zoned::new(*t, tz.clone()).last_of_year());
    add2(c, "Zoned::first_of_month(all-zones)", az, &lim_tss, |tz, t| Zoned::new(*t, tz.clone()).first_of_month());
    add2(c, "Zoned::last_of_month(all-zones)", az, &lim_tss, |tz, t| Zoned::new(*t, tz.clone()).last_of_month());
    add3(c, "Zoned::round(all-zones)", az, &lim_tss, &pl.units, |tz, t, u| Zoned::new(*t, tz.clone()).round(*u));
    {
        let steps: P<Dur> = pick(&pl.durs, |l, _| {
            ["span(1d)", "span(-1d)", "span(1mo)", "span(-1mo)", "span(1y)", "span(-1y)", "span(1h)", "span(-1h)", "span(1ns)", "span(-1ns)", "sdur(86400,0)", "sdur(-86400,0)", "udur(0,1)"].contains(&l)
        });
        add3(c, "Zoned::checked_add(all-zones)", az, &lim_tss, &steps, |tz, t, x| with_dur!(x, |v| Zoned::new(*t, tz.clone()).checked_add(v)));
        add3(c, "Zoned::checked_sub(all-zones)", az, &lim_tss, &steps, |tz, t, x| with_dur!(x, |v| Zoned::new(*t, tz.clone()).checked_sub(v)));
    }
    {
        let few: P<Unit> = pd(vec![Unit::Year, Unit::Month, Unit::Day, Unit::Hour, Unit::Nanosecond]);
        // from each limit instant to the opposite limit and to its neighbours
        let ends = head(&lim_tss, 10);
        add4(c, "Zoned::until(largest,all-zones)", az, &ends, &ends, &few, |tz, a, b, u| {
            Zoned::new(*a, tz.clone()).until((*u, &Zoned::new(*b, tz.clone())))
        });
    }

    // =====================================================================
    // Display / Debug of every type at its limits (printing must not panic)
    // =====================================================================
    macro_rules! fmt_entry {
        ($name:literal, $pool:expr) => {
            add1(c, concat!($name, "::fmt"), $pool, |x| ok(format!("{} | {:?} | {:#} | {:#?} | {:.3} | {:.9} | {:>40} | {:.0}", x, x, x, x, x, x, x, x)));
        };
    }
    fmt_entry!("Date", &pl.dates);
    fmt_entry!("Time", &pl.times);
    fmt_entry!("DateTime", &pl.dts);
    fmt_entry!("Timestamp", &pl.tss);
    fmt_entry!("Zoned", &pl.zoneds);
    fmt_entry!("Span", &pl.spans);
    fmt_entry!("SignedDuration", &pl.sdurs);
    fmt_entry!("Offset", &pl.offsets);
    add1(c, "ISOWeekDate::fmt", &iwds, |x| ok(format!("{:?} | {:#?}", x, x)));
    add1(c, "TimeZone::fmt", &pl.zones, |x| ok(format!("{:?}", x).len().to_string()));
    add2(c, "Timestamp::display_with_offset", &pl.tss, &pl.offsets, |t, o| {
        ok(format!("{} | {:.3} | {:?}", t.display_with_offset(*o), t.display_with_offset(*o), t.display_with_offset(*o)))
    });
    let _ = (UDur::ZERO, NS);
}

/// Public API that can be handed an out-of-range / overflowing value and is
/// NOT in the catalogue because its documentation says it panics then (or
/// because it is a parser, which other properties own): name -> reason.
pub fn excluded() -> Vec<(String, String)> {
    let mut v: Vec<(String, String)> = vec![];
    let mut ex = |n: &str, why: &str| v.push((n.to_string(), why.to_string()));
    for ty in ["Date", "DateTime", "Timestamp", "Zoned", "Offset"] {
        for op in ["add", "sub", "add_assign", "sub_assign"] {
            for rhs in ["Span", "SignedDuration", "UnsignedDuration"] {
                ex(&format!("{}::{}({})", ty, op, rhs), "operator documented: uses checked arithmetic and panics on overflow");
            }
        }
    }
    for c in ["Date::constant", "Time::constant", "DateTime::constant", "Timestamp::constant", "Offset::constant"] {
        ex(c, "const constructor documented to panic on out-of-range input");
    }
    for c in ["civil::date", "civil::time", "civil::datetime", "tz::offset", "Date::at", "Time::on"] {
        ex(c, "const convenience constructor documented to panic on out-of-range input");
    }
    for u in ["years", "months", "weeks", "days", "hours", "minutes", "seconds", "milliseconds", "microseconds", "nanoseconds"] {
        ex(&format!("Span::{}", u), "documented to panic outside the unit's limit (inside: entry Span::<unit>s(within-limits))");
    }
    ex("ToSpan", "documented to panic outside the unit's limit (inside: entries ToSpan(iN,within-limits))");
    ex("Span::mul(i64)", "operator documented: panics on overflow");
    ex("i64::mul(Span)", "operator documented: panics on overflow");
    ex("SignedDuration::new", "documented to panic when the nanosecond carry overflows i64 (otherwise: entry SignedDuration::new(no-carry-overflow))");
    ex("SignedDuration::from_hours", "documented to panic outside i64 seconds (inside: entry ...(within-limits))");
    ex("SignedDuration::from_mins", "documented to panic outside i64 seconds (inside: entry ...(within-limits))");
    ex("SignedDuration::abs", "documented to panic when the seconds are i64::MIN (otherwise: entry SignedDuration::abs(secs!=i64::MIN))");
    for f in ["from_secs_f64", "from_secs_f32", "mul_f64", "mul_f32", "div_f64", "div_f32"] {
        ex(&format!("SignedDuration::{}", f), "documented to panic on overflow / non-finite input");
    }
    for op in ["neg", "add(SignedDuration)", "sub(SignedDuration)", "add_assign(SignedDuration)", "sub_assign(SignedDuration)", "mul(i32)", "mul_assign(i32)", "div(i32)", "div_assign(i32)", "sum"] {
        ex(&format!("SignedDuration::{}", op), "operator mirroring std::time::Duration: explicit `expect(\"overflow ...\")`");
    }
    ex("i32::mul(SignedDuration)", "operator mirroring std::time::Duration: explicit `expect(\"overflow ...\")`");
    for f in ["strptime", "strftime", "from_str", "deserialize"] {
        ex(&format!("*::{}", f), "parsers / printers: properties C09, C15, C16");
    }
    ex("TimeZone::iana_name", "accessor returning Option<&str>: no ranged input");
    for f in ["TimeZone::get", "TimeZone::posix", "TimeZone::tzif", "TimeZone::try_system", "TimeZone::system", "Timestamp::now", "Zoned::now"] {
        ex(f, "takes text / bytes / the environment, not a ranged value: properties C03, C04, C17, C19");
    }
    v
}

/// API items exercised inside an entry of a different name: item -> entry
pub const ALSO_COVERED: &[(&str, &str)] = &[
    ("Time::add(Span)", "Time::add(duration)"),
    ("Time::add(SignedDuration)", "Time::add(duration)"),
    ("Time::add(UnsignedDuration)", "Time::add(duration)"),
    ("Time::sub(Span)", "Time::sub(duration)"),
    ("Time::sub(SignedDuration)", "Time::sub(duration)"),
    ("Time::sub(UnsignedDuration)", "Time::sub(duration)"),
    ("Time::add_assign(Span)", "Time::add_assign(duration)"),
    ("Time::add_assign(SignedDuration)", "Time::add_assign(duration)"),
    ("Time::add_assign(UnsignedDuration)", "Time::add_assign(duration)"),
    ("Time::sub_assign(Span)", "Time::sub_assign(duration)"),
    ("Time::sub_assign(SignedDuration)", "Time::sub_assign(duration)"),
    ("Time::sub_assign(UnsignedDuration)", "Time::sub_assign(duration)"),
    ("Date::day_of_year_no_leap", "Date::accessors"),
    ("DateTime::day_of_year_no_leap", "DateTime::accessors"),
    ("Zoned::day_of_year_no_leap", "Zoned::accessors"),
    ("OffsetConflict::resolve_with", "OffsetConflict::resolve_with"),
    ("DateWith::build", "DateWith::build(year)"),
    ("TimeWith::build", "TimeWith::build(hour)"),
    ("DateTimeWith::build", "DateTimeWith::build(year)"),
    ("ZonedWith::build", "ZonedWith::build(year)"),
    ("Zoned::sub(Zoned)", "Zoned::sub(Zoned)"),
    ("SpanFieldwise::neg", "Span::from(SpanFieldwise)"),
];
