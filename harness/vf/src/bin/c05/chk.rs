//! Stable renderings and documented range predicates of Ok values.
//! Only public accessors and plain integer comparisons.

use jiff::civil::{Date, DateTime, ISOWeekDate, Time, Weekday};
use jiff::tz::Offset;
use jiff::{SignedDuration, Span, Timestamp, Zoned};
use refmodel::cal;
use std::fmt::Write as _;

pub const NS: i128 = 1_000_000_000;
/// `Timestamp::MIN` = -9999-01-02T01:59:59Z, `Timestamp::MAX` = 9999-12-30T22:00:00.999999999Z
pub const TS_MIN: i128 = -377705023201 * NS;
pub const TS_MAX: i128 = 253402207200 * NS + 999_999_999;
pub const OFFSET_MAX: i32 = 93_599;

/// documented `Span` unit limits (years .. nanoseconds)
pub const SPAN_LIMITS: [i64; 10] = [
    19_998,
    239_976,
    1_043_497,
    7_304_484,
    175_307_616,
    10_518_456_960,
    631_107_417_600,
    631_107_417_600_000,
    631_107_417_600_000_000,
    i64::MAX,
];

pub trait Chk {
    fn show(&self, s: &mut String);
    /// `Some(why)` if the value is outside its type's documented range
    fn bad(&self) -> Option<String>;
}

fn weekday_num(w: Weekday) -> i64 {
    match w {
        Weekday::Monday => 1,
        Weekday::Tuesday => 2,
        Weekday::Wednesday => 3,
        Weekday::Thursday => 4,
        Weekday::Friday => 5,
        Weekday::Saturday => 6,
        Weekday::Sunday => 7,
    }
}

impl Chk for Timestamp {
    fn show(&self, s: &mut String) {
        let _ = write!(s, "ts:{}/{}+{}", self.as_nanosecond(), self.as_second(), self.subsec_nanosecond());
    }
    fn bad(&self) -> Option<String> {
        let n = self.as_nanosecond();
        if n < TS_MIN || n > TS_MAX {
            return Some(format!("timestamp {} ns outside [Timestamp::MIN, Timestamp::MAX]", n));
        }
        let (sec, sub) = (self.as_second(), self.subsec_nanosecond());
        if sec as i128 * NS + sub as i128 != n || (sec > 0 && sub < 0) || (sec < 0 && sub > 0) || sub.abs() >= 1_000_000_000 {
            return Some(format!("timestamp parts inconsistent: as_second {} subsec {} as_nanosecond {}", sec, sub, n));
        }
        None
    }
}

impl Chk for Date {
    fn show(&self, s: &mut String) {
        let _ = write!(s, "d:{}-{}-{}", self.year(), self.month(), self.day());
    }
    fn bad(&self) -> Option<String> {
        let (y, m, d) = (self.year() as i64, self.month() as i64, self.day() as i64);
        if !(-9999..=9999).contains(&y) || !(1..=12).contains(&m) || d < 1 || d > cal::days_in_month(y, m) {
            return Some(format!("date {}-{}-{} outside -9999-01-01..=9999-12-31 / not a calendar date", y, m, d));
        }
        None
    }
}

impl Chk for Time {
    fn show(&self, s: &mut String) {
        let _ = write!(s, "t:{}:{}:{}.{}", self.hour(), self.minute(), self.second(), self.subsec_nanosecond());
    }
    fn bad(&self) -> Option<String> {
        let (h, mi, se, ns) = (self.hour(), self.minute(), self.second(), self.subsec_nanosecond());
        if !(0..=23).contains(&h) || !(0..=59).contains(&mi) || !(0..=59).contains(&se) || !(0..=999_999_999).contains(&ns) {
            return Some(format!("time {}:{}:{}.{} outside 00:00:00..=23:59:59.999999999", h, mi, se, ns));
        }
        None
    }
}

impl Chk for DateTime {
    fn show(&self, s: &mut String) {
        self.date().show(s);
        s.push('T');
        self.time().show(s);
    }
    fn bad(&self) -> Option<String> {
        self.date().bad().or_else(|| self.time().bad())
    }
}

impl Chk for ISOWeekDate {
    fn show(&self, s: &mut String) {
        let _ = write!(s, "iwd:{}-W{}-{}", self.year(), self.week(), weekday_num(self.weekday()));
    }
    fn bad(&self) -> Option<String> {
        let (y, w, wd) = (self.year() as i64, self.week() as i64, weekday_num(self.weekday()));
        if !(-9999..=9999).contains(&y) || w < 1 || w > cal::iso_weeks_in_year(y) {
            return Some(format!("ISO week date {}-W{}-{} has no such week", y, w, wd));
        }
        // ISOWeekDate::MAX is 9999-W52-5 (= 9999-12-31); MIN is -9999-W01-1 (= -9999-01-01)
        match cal::days_from_iso(y, w, wd) {
            Some(n) if n >= cal::min_day() && n <= cal::max_day() => None,
            _ => Some(format!("ISO week date {}-W{}-{} outside ISOWeekDate::MIN..=MAX", y, w, wd)),
        }
    }
}

impl Chk for Weekday {
    fn show(&self, s: &mut String) {
        let _ = write!(s, "wd:{}", weekday_num(*self));
    }
    fn bad(&self) -> Option<String> {
        None
    }
}

pub fn span_fields(sp: &Span) -> [i64; 10] {
    [
        sp.get_years() as i64,
        sp.get_months() as i64,
        sp.get_weeks() as i64,
        sp.get_days() as i64,
        sp.get_hours() as i64,
        sp.get_minutes(),
        sp.get_seconds(),
        sp.get_milliseconds(),
        sp.get_microseconds(),
        sp.get_nanoseconds(),
    ]
}

impl Chk for Span {
    fn show(&self, s: &mut String) {
        let f = span_fields(self);
        let _ = write!(s, "sp:{:?}", f);
    }
    fn bad(&self) -> Option<String> {
        let f = span_fields(self);
        let names = ["years", "months", "weeks", "days", "hours", "minutes", "seconds", "milliseconds", "microseconds", "nanoseconds"];
        let (mut pos, mut neg) = (false, false);
        for i in 0..10 {
            if f[i] > SPAN_LIMITS[i] || f[i] < -SPAN_LIMITS[i] {
                return Some(format!("span {} = {} outside +-{}", names[i], f[i], SPAN_LIMITS[i]));
            }
            pos |= f[i] > 0;
            neg |= f[i] < 0;
        }
        if pos && neg {
            return Some(format!("span has units of both signs: {:?}", f));
        }
        let sg = self.signum() as i64;
        if (pos && sg != 1) || (neg && sg != -1) || (!pos && !neg && sg != 0) {
            return Some(format!("span signum {} disagrees with its units {:?}", sg, f));
        }
        None
    }
}

impl Chk for SignedDuration {
    fn show(&self, s: &mut String) {
        let _ = write!(s, "sd:{}+{}", self.as_secs(), self.subsec_nanos());
    }
    fn bad(&self) -> Option<String> {
        let (se, ns) = (self.as_secs(), self.subsec_nanos());
        if ns.abs() >= 1_000_000_000 || (se > 0 && ns < 0) || (se < 0 && ns > 0) {
            return Some(format!("signed duration secs {} nanos {} of opposite signs / nanos out of range", se, ns));
        }
        None
    }
}

impl Chk for Offset {
    fn show(&self, s: &mut String) {
        let _ = write!(s, "off:{}", self.seconds());
    }
    fn bad(&self) -> Option<String> {
        let x = self.seconds();
        if x < -OFFSET_MAX || x > OFFSET_MAX {
            return Some(format!("offset {} s outside +-93599", x));
        }
        None
    }
}

impl Chk for Zoned {
    fn show(&self, s: &mut String) {
        self.timestamp().show(s);
        s.push(' ');
        self.datetime().show(s);
        s.push(' ');
        self.offset().show(s);
        let _ = write!(s, " [{}]", self.time_zone().iana_name().unwrap_or("-"));
    }
    fn bad(&self) -> Option<String> {
        if let Some(w) = self.timestamp().bad().or_else(|| self.datetime().bad()).or_else(|| self.offset().bad()) {
            return Some(format!("zoned component: {}", w));
        }
        let civil = vf::conv::dt_civil_ns(self.datetime());
        let want = self.timestamp().as_nanosecond() + self.offset().seconds() as i128 * NS;
        if civil != want {
            return Some(format!("zoned datetime != timestamp + offset ({} vs {})", civil, want));
        }
        None
    }
}

/// `TimeZone::to_offset_info`: (offset, dst flag, abbreviation)
impl Chk for (Offset, i64, String) {
    fn show(&self, s: &mut String) {
        self.0.show(s);
        let _ = write!(s, " dst:{} {}", self.1, self.2);
    }
    fn bad(&self) -> Option<String> {
        self.0.bad()
    }
}

impl Chk for std::cmp::Ordering {
    fn show(&self, s: &mut String) {
        let _ = write!(s, "ord:{}", *self as i8);
    }
    fn bad(&self) -> Option<String> {
        None
    }
}

impl Chk for f64 {
    fn show(&self, s: &mut String) {
        let _ = write!(s, "f64:{:016x}", self.to_bits());
    }
    fn bad(&self) -> Option<String> {
        None
    }
}

impl Chk for std::time::Duration {
    fn show(&self, s: &mut String) {
        let _ = write!(s, "ud:{}+{}", self.as_secs(), self.subsec_nanos());
    }
    fn bad(&self) -> Option<String> {
        None
    }
}

/// the items of a series iterator (first 1,000)
impl<T: Chk> Chk for Vec<T> {
    fn show(&self, s: &mut String) {
        let _ = write!(s, "n={}", self.len());
        for x in self.iter() {
            s.push(';');
            x.show(s);
        }
    }
    fn bad(&self) -> Option<String> {
        self.iter().enumerate().find_map(|(i, x)| x.bad().map(|w| format!("item {}: {}", i, w)))
    }
}

// ---------------------------------------------------------------------------
// additions for the infallible / saturating / wrapping part of the catalogue
// ---------------------------------------------------------------------------

fn rendered<T: Chk>(v: &T) -> String {
    let mut s = String::new();
    v.show(&mut s);
    s
}

/// A plain number returned by an accessor / conversion, with the range its
/// documentation gives (`lo = i128::MIN`, `hi = i128::MAX` when none is given).
pub struct Num {
    pub what: &'static str,
    pub v: i128,
    pub lo: i128,
    pub hi: i128,
}
pub fn num(what: &'static str, v: impl Into<i128>, lo: i128, hi: i128) -> Num {
    Num { what, v: v.into(), lo, hi }
}
pub fn anynum(what: &'static str, v: impl Into<i128>) -> Num {
    Num { what, v: v.into(), lo: i128::MIN, hi: i128::MAX }
}
impl Chk for Num {
    fn show(&self, s: &mut String) {
        let _ = write!(s, "{}={}", self.what, self.v);
    }
    fn bad(&self) -> Option<String> {
        if self.v < self.lo || self.v > self.hi {
            return Some(format!("{} = {} outside {}..={}", self.what, self.v, self.lo, self.hi));
        }
        None
    }
}

/// A result together with the value the documentation pins it to: the exact
/// `i128` result of a wrapping / saturating operation, or the documented
/// identity "`saturating_x` = `checked_x`, else the type's MIN / MAX". Compared
/// by rendering (every public field). A `bad()` text that starts with `[tag]`
/// makes the signature `<entry>/<tag>` instead of `<entry>/ok-out-of-range`.
pub struct Pinned<T> {
    pub got: T,
    pub want: T,
    pub tag: &'static str,
}
impl<T: Chk> Chk for Pinned<T> {
    fn show(&self, s: &mut String) {
        self.got.show(s);
    }
    fn bad(&self) -> Option<String> {
        if let Some(w) = self.got.bad() {
            return Some(w);
        }
        let (g, w) = (rendered(&self.got), rendered(&self.want));
        if g != w {
            return Some(format!("[{}] documented result {}", self.tag, w));
        }
        None
    }
}

impl<A: Chk, B: Chk> Chk for (A, B) {
    fn show(&self, s: &mut String) {
        self.0.show(s);
        s.push(' ');
        self.1.show(s);
    }
    fn bad(&self) -> Option<String> {
        self.0.bad().or_else(|| self.1.bad())
    }
}

/// f64 with every NaN rendered alike (the payload of a NaN produced by 0/0 is
/// not something the two build flavours have to agree on)
pub struct F(pub f64);
impl Chk for F {
    fn show(&self, s: &mut String) {
        if self.0.is_nan() {
            s.push_str("f64:nan");
        } else {
            let _ = write!(s, "f64:{:016x}", self.0.to_bits());
        }
    }
    fn bad(&self) -> Option<String> {
        None
    }
}

impl Chk for std::time::SystemTime {
    fn show(&self, s: &mut String) {
        match self.duration_since(std::time::SystemTime::UNIX_EPOCH) {
            Ok(d) => {
                let _ = write!(s, "st:+{}+{}", d.as_secs(), d.subsec_nanos());
            }
            Err(e) => {
                let d = e.duration();
                let _ = write!(s, "st:-{}+{}", d.as_secs(), d.subsec_nanos());
            }
        }
    }
    fn bad(&self) -> Option<String> {
        None
    }
}

/// one item of `TimeZone::preceding` / `TimeZone::following`
pub struct Trans {
    pub ts: Timestamp,
    pub off: Offset,
    pub dst: bool,
    pub abbr: String,
}
impl Chk for Trans {
    fn show(&self, s: &mut String) {
        self.ts.show(s);
        s.push(' ');
        self.off.show(s);
        let _ = write!(s, " dst:{} {}", self.dst as i8, self.abbr);
    }
    fn bad(&self) -> Option<String> {
        self.ts.bad().or_else(|| self.off.bad())
    }
}

/// `SignedDuration` from exact nanoseconds (None outside the type)
pub fn sdur_from_ns(n: i128) -> Option<SignedDuration> {
    let (s, r) = (n / NS, n % NS);
    let s = i64::try_from(s).ok()?;
    Some(SignedDuration::new(s, r as i32))
}
pub fn sdur_ns(d: SignedDuration) -> i128 {
    d.as_secs() as i128 * NS + d.subsec_nanos() as i128
}

/// text produced by a `Display` / `Debug` impl: nothing to range-check, but it
/// is part of the stream the two build flavours must agree on
impl Chk for String {
    fn show(&self, s: &mut String) {
        s.push_str("str:");
        s.push_str(self);
    }
    fn bad(&self) -> Option<String> {
        None
    }
}
