//! The lookup battery: every zone built from accepted TZif / POSIX data must
//! answer `to_offset_info`, `to_ambiguous_timestamp`, `preceding`,
//! `following` at the extremes and around its own transitions without
//! panicking. No correctness oracle (the data may be hostile); the only value
//! check is that an `Ok(Timestamp)` lies inside `Timestamp::MIN..=MAX`.
//!
//! All lookups are attempted; each distinct failure class is reported once
//! (with its first query).

use jiff::civil::DateTime;
use jiff::tz::TimeZone;
use jiff::Timestamp;
use vf::{guard, panic_sig};

const NS: i128 = 1_000_000_000;
const TS_MIN_SEC: i64 = -377705023201;
const TS_MAX_SEC: i64 = 253402207200;

fn ts(ns: i128) -> Option<Timestamp> {
    Timestamp::from_nanosecond(ns).ok()
}

struct Fails(Vec<(String, String)>);
impl Fails {
    fn push(&mut self, class: String, detail: String) {
        if !self.0.iter().any(|x| x.0 == class) {
            self.0.push((class, detail));
        }
    }
    fn run<T>(&mut self, op: &str, query: impl FnOnce() -> String, cls: &str, f: impl FnOnce() -> T) -> Option<T> {
        match guard(f) {
            Ok(v) => Some(v),
            Err(p) => {
                self.push(format!("lookup:{}/{}{}", op, panic_sig(&p), cls), format!("query {}: {}", query(), p));
                None
            }
        }
    }
}

/// `raw_times`: transition instants read from the raw bytes (may be empty).
/// `heavy` (zones from untrusted TZif bytes): every own transition is probed;
/// else the first and last six. 50 items of both iterators are walked from
/// the first/last four probed transitions, two items from each of the others.
pub fn battery(tz: &TimeZone, raw_times: &[i64], heavy: bool) -> Vec<(String, String)> {
    let min = Timestamp::MIN.as_nanosecond();
    let max = Timestamp::MAX.as_nanosecond();
    let mut f = Fails(vec![]);

    // own transitions, as jiff itself reports them, plus the raw ones
    let mut trans: Vec<i128> = vec![];
    let fwd = f.run("following", || "Timestamp::MIN take 50".into(), "", || tz.following(Timestamp::MIN).take(50).map(|t| t.timestamp().as_nanosecond()).collect::<Vec<_>>()).unwrap_or_default();
    let bwd = f.run("preceding", || "Timestamp::MAX take 50".into(), "", || tz.preceding(Timestamp::MAX).take(50).map(|t| t.timestamp().as_nanosecond()).collect::<Vec<_>>()).unwrap_or_default();
    f.run("preceding", || "Timestamp::MIN take 50".into(), "", || tz.preceding(Timestamp::MIN).take(50).count());
    f.run("following", || "Timestamp::MAX take 50".into(), "", || tz.following(Timestamp::MAX).take(50).count());
    f.run("following", || "epoch take 50".into(), "", || tz.following(Timestamp::UNIX_EPOCH).take(50).count());
    f.run("preceding", || "epoch take 50".into(), "", || tz.preceding(Timestamp::UNIX_EPOCH).take(50).count());
    trans.extend(&fwd);
    trans.extend(&bwd);
    let n = raw_times.len();
    for (i, &t) in raw_times.iter().enumerate() {
        if i < 50 || i + 50 >= n {
            trans.push((t as i128).saturating_mul(NS).clamp(min, max));
        }
    }
    trans.retain(|x| *x >= min && *x <= max);
    trans.sort_unstable();
    trans.dedup();

    // Zones that come from text (POSIX rules, named zones: `heavy` is false)
    // repeat the same rule every year: their own transitions are probed at
    // the first six and the last six (the ends of the range); zones built
    // from untrusted TZif bytes are probed at every one.
    let all_trans = trans;
    let trans: Vec<i128> = if !heavy && all_trans.len() > 12 { all_trans[..6].iter().chain(all_trans[all_trans.len() - 6..].iter()).copied().collect() } else { all_trans };

    // instants
    let mut tss: Vec<i128> = vec![min, min + 1, min + NS, -NS, -1, 0, 1, NS, max - NS, max - 1, max];
    for &t in &trans {
        tss.extend([t - NS, t - 1, t, t + 1, t + NS]);
    }
    tss.retain(|x| *x >= min && *x <= max);
    tss.sort_unstable();
    tss.dedup();
    for &x in &tss {
        let t = ts(x).unwrap();
        let q = || format!("{} ns", x);
        let info = f.run("to_offset_info", q, "", || {
            let i = tz.to_offset_info(t);
            (i.offset().seconds(), i.dst().is_dst(), i.abbreviation().len())
        });
        let off = f.run("to_offset", q, "", || tz.to_offset(t).seconds());
        // every Ok value must lie inside its type's range: an Offset is within +-25:59:59
        for o in info.map(|x| x.0).into_iter().chain(off) {
            if !(-93_599..=93_599).contains(&o) {
                f.push("lookup:to_offset/ok-offset-out-of-range".into(), format!("query {} ns: offset {} s is outside -93599..=93599", x, o));
            }
        }
        f.run("to_datetime", q, "", || tz.to_datetime(t));
        f.run("to_zoned", q, "", || {
            let z = t.to_zoned(tz.clone());
            (z.datetime(), z.offset())
        });
    }

    // civil datetimes
    let (dmin, dmax) = (vf::conv::dt_min_ns(), vf::conv::dt_max_ns());
    let mut civ: Vec<i128> = vec![dmin, dmin + 1, dmin + NS, dmin + 93_599 * NS, dmin + 187_198 * NS, 0, 1_718_452_800 * NS, dmax - 187_198 * NS, dmax - 93_599 * NS, dmax - NS, dmax];
    let off_at = |f: &mut Fails, x: i128| -> Option<i128> {
        let t = ts(x.clamp(min, max))?;
        f.run("to_offset", || format!("{} ns", x), "", || tz.to_offset(t).seconds() as i128)
    };
    for &t in &trans {
        for o in [off_at(&mut f, t - 1), off_at(&mut f, t)].into_iter().flatten() {
            let c = t.div_euclid(NS) * NS + o * NS;
            civ.extend([c - NS, c - 1, c, c + 1, c + NS]);
        }
    }
    // the edges of the representable range in this zone's first / last offset
    let first_off = off_at(&mut f, min).unwrap_or(0);
    let last_off = off_at(&mut f, max).unwrap_or(0);
    let c0 = (TS_MIN_SEC as i128 + first_off) * NS;
    let c1 = (TS_MAX_SEC as i128 + last_off) * NS + 999_999_999;
    civ.extend([c0 - NS, c0 - NS / 2, c0 - 1, c0, c0 + 1, c1 - 1, c1, c1 + 1, c1 + NS / 2, c1 + NS]);
    civ.retain(|x| *x >= dmin && *x <= dmax);
    civ.sort_unstable();
    civ.dedup();
    for &c in &civ {
        let dt: DateTime = vf::conv::dt_from_civil_ns(c).unwrap();
        // input classes: (N2) a civil time with a non-zero fraction inside the
        // last second before the zone's first wall clock reading
        // (Timestamp::MIN + first offset); (F1) any other civil time earlier
        // than that first reading
        let first = TS_MIN_SEC as i128 + first_off;
        let sec = c.div_euclid(NS);
        let cls = if sec == first - 1 && c.rem_euclid(NS) != 0 {
            "[civil-query-with-fraction-in-the-second-before-Timestamp::MIN+first-offset]"
        } else if sec < first {
            "[civil-query<Timestamp::MIN+first-offset]"
        } else {
            ""
        };
        let q = || format!("civil {}", dt);
        let got = f.run("to_ambiguous_timestamp", q, cls, || {
            let a = tz.to_ambiguous_timestamp(dt);
            let _ = a.offset();
            let _ = a.is_ambiguous();
            [a.clone().compatible().ok(), a.clone().earlier().ok(), a.clone().later().ok(), a.unambiguous().ok()]
        });
        let got2 = f.run("to_timestamp", q, cls, || tz.to_timestamp(dt).ok());
        for t in got.into_iter().flatten().chain(got2).flatten() {
            if t < Timestamp::MIN || t > Timestamp::MAX {
                f.push(
                    format!("lookup:to_ambiguous_timestamp/ok-timestamp-out-of-range{}", cls),
                    format!("query civil {}: Ok(Timestamp {{ second: {}, nanosecond: {} }}) lies outside Timestamp::MIN..=MAX", dt, t.as_second(), t.subsec_nanosecond()),
                );
            }
        }
        f.run("to_ambiguous_zoned", q, cls, || {
            let a = tz.to_ambiguous_zoned(dt);
            let _ = a.clone().compatible();
            let _ = a.clone().earlier();
            let _ = a.later();
        });
        f.run("to_zoned", q, cls, || {
            let _ = tz.to_zoned(dt);
        });
    }

    // iterators from own transitions
    // the long walks start from the first four and the last four own
    // transitions (where the ends of the representable range are); two items
    // from every other one. (A rule zone repeats every year, so the same rule
    // applied to the light battery costs nothing in reach and makes the
    // battery ~10x cheaper, which pays for many more accepted inputs.)
    let pick: Vec<i128> = if trans.len() > 8 { trans[..4].iter().chain(trans[trans.len() - 4..].iter()).copied().collect() } else { trans.clone() };
    for &t in &trans {
        let (a, b) = (ts((t + NS).min(max)).unwrap(), ts((t - NS).max(min)).unwrap());
        let k = if pick.contains(&t) { 50 } else { 2 };
        f.run("preceding", || format!("{} ns take {}", t + NS, k), "", || tz.preceding(a).take(k).map(|x| (x.timestamp(), x.offset(), x.abbreviation().len(), x.dst())).count());
        f.run("following", || format!("{} ns take {}", t - NS, k), "", || tz.following(b).take(k).map(|x| (x.timestamp(), x.offset(), x.abbreviation().len(), x.dst())).count());
    }
    f.0
}
