//! The lookup battery: every zone built from accepted TZif / POSIX data must
//! answer `to_offset_info`, `to_ambiguous_timestamp`, `preceding`,
//! `following` at the extremes and around its own transitions without
//! panicking. No correctness oracle (the data may be hostile).

use jiff::civil::DateTime;
use jiff::tz::TimeZone;
use jiff::Timestamp;
use vf::{guard, panic_sig};

const NS: i128 = 1_000_000_000;
const TS_MIN_SEC: i64 = -377705023201;

fn ts(ns: i128) -> Option<Timestamp> {
    Timestamp::from_nanosecond(ns).ok()
}

/// Returns Some((failure class, detail)) for the first lookup that panics.
/// `raw_times`: transition instants read from the raw bytes (may be empty).
/// `heavy`: also walk 50 items of both iterators from several own transitions.
pub fn battery(tz: &TimeZone, raw_times: &[i64], heavy: bool) -> Option<(String, String)> {
    let min = Timestamp::MIN.as_nanosecond();
    let max = Timestamp::MAX.as_nanosecond();

    macro_rules! g {
        ($op:expr, $q:expr, $cls:expr, $body:expr) => {
            match guard(|| $body) {
                Ok(v) => Some(v),
                Err(p) => {
                    return Some((format!("lookup:{}/{}{}", $op, panic_sig(&p), $cls), format!("query {}: {}", $q, p)));
                }
            }
        };
    }

    // own transitions, as jiff itself reports them, plus the raw ones
    let mut trans: Vec<i128> = vec![];
    let fwd = g!("following", "Timestamp::MIN take 50", "", tz.following(Timestamp::MIN).take(50).map(|t| t.timestamp().as_nanosecond()).collect::<Vec<_>>())?;
    let bwd = g!("preceding", "Timestamp::MAX take 50", "", tz.preceding(Timestamp::MAX).take(50).map(|t| t.timestamp().as_nanosecond()).collect::<Vec<_>>())?;
    g!("preceding", "Timestamp::MIN take 50", "", tz.preceding(Timestamp::MIN).take(50).count())?;
    g!("following", "Timestamp::MAX take 50", "", tz.following(Timestamp::MAX).take(50).count())?;
    g!("following", "epoch take 50", "", tz.following(Timestamp::UNIX_EPOCH).take(50).count())?;
    g!("preceding", "epoch take 50", "", tz.preceding(Timestamp::UNIX_EPOCH).take(50).count())?;
    trans.extend(&fwd);
    trans.extend(&bwd);
    let n = raw_times.len();
    for (i, &t) in raw_times.iter().enumerate() {
        if i < 50 || i + 50 >= n {
            trans.push((t as i128).saturating_mul(NS).clamp(min, max));
        }
    }
    trans.sort_unstable();
    trans.dedup();

    // instants
    let mut tss: Vec<i128> = vec![min, min + 1, min + NS, -NS, -1, 0, 1, NS, max - NS, max - 1, max];
    for &t in &trans {
        tss.extend([t - NS, t - 1, t, t + 1, t + NS]);
    }
    tss.retain(|x| *x >= min && *x <= max);
    tss.sort_unstable();
    tss.dedup();
    let first_off = g!("to_offset", "Timestamp::MIN", "", tz.to_offset(Timestamp::MIN).seconds())? as i64;
    for &x in &tss {
        let t = ts(x).unwrap();
        g!("to_offset_info", format!("{} ns", x), "", {
            let i = tz.to_offset_info(t);
            (i.offset().seconds(), i.dst().is_dst(), i.abbreviation().len())
        })?;
        g!("to_offset", format!("{} ns", x), "", tz.to_offset(t).seconds())?;
        g!("to_datetime", format!("{} ns", x), "", tz.to_datetime(t))?;
        g!("to_zoned", format!("{} ns", x), "", {
            let z = t.to_zoned(tz.clone());
            (z.datetime(), z.offset())
        })?;
    }

    // civil datetimes
    let mut civ: Vec<i128> = vec![
        vf::conv::dt_min_ns(),
        vf::conv::dt_min_ns() + 1,
        vf::conv::dt_min_ns() + NS,
        vf::conv::dt_min_ns() + 93_599 * NS,
        vf::conv::dt_min_ns() + 187_198 * NS,
        0,
        1_718_452_800 * NS,
        vf::conv::dt_max_ns() - 187_198 * NS,
        vf::conv::dt_max_ns() - 93_599 * NS,
        vf::conv::dt_max_ns() - NS,
        vf::conv::dt_max_ns(),
    ];
    for &t in &trans {
        let before = ts((t - 1).max(min)).map(|x| tz.to_offset(x).seconds() as i128);
        let after = ts(t).map(|x| tz.to_offset(x).seconds() as i128);
        for o in [before, after].into_iter().flatten() {
            let c = t.div_euclid(NS) * NS + o * NS;
            civ.extend([c - NS, c - 1, c, c + 1, c + NS]);
        }
    }
    civ.retain(|x| *x >= vf::conv::dt_min_ns() && *x <= vf::conv::dt_max_ns());
    civ.sort_unstable();
    civ.dedup();
    // the edges of the representable range in this zone's first / last offset
    let last_off = g!("to_offset", "Timestamp::MAX", "", tz.to_offset(Timestamp::MAX).seconds())? as i128;
    let c0 = (TS_MIN_SEC + first_off) as i128 * NS;
    let c1 = (253_402_207_200 + last_off) * NS + 999_999_999;
    civ.extend([c0 - NS, c0 - NS / 2, c0 - 1, c0, c0 + 1, c1 - 1, c1, c1 + 1, c1 + NS / 2, c1 + NS]);
    civ.retain(|x| *x >= vf::conv::dt_min_ns() && *x <= vf::conv::dt_max_ns());
    civ.sort_unstable();
    civ.dedup();
    for &c in &civ {
        let dt: DateTime = vf::conv::dt_from_civil_ns(c).unwrap();
        // input classes: (N2) a civil time with a non-zero fraction inside the
        // last second before the zone's first wall clock reading
        // (Timestamp::MIN + first offset); (F1) any other civil time earlier
        // than that first reading
        let first = (TS_MIN_SEC + first_off) as i128;
        let sec = c.div_euclid(NS);
        let cls = if sec == first - 1 && c.rem_euclid(NS) != 0 {
            "[civil-query-with-fraction-in-the-second-before-Timestamp::MIN+first-offset]"
        } else if sec < first {
            "[civil-query<Timestamp::MIN+first-offset]"
        } else {
            ""
        };
        let got = g!("to_ambiguous_timestamp", format!("civil {}", dt), cls, {
            let a = tz.to_ambiguous_timestamp(dt);
            let _ = a.offset();
            let _ = a.is_ambiguous();
            [a.clone().compatible().ok(), a.clone().earlier().ok(), a.clone().later().ok(), a.unambiguous().ok(), tz.to_timestamp(dt).ok()]
        })?;
        for t in got.into_iter().flatten() {
            if t < Timestamp::MIN || t > Timestamp::MAX {
                return Some((
                    format!("lookup:to_ambiguous_timestamp/ok-timestamp-out-of-range{}", cls),
                    format!("query civil {}: Ok(Timestamp {{ second: {}, nanosecond: {} }}) lies outside Timestamp::MIN..=MAX", dt, t.as_second(), t.subsec_nanosecond()),
                ));
            }
        }
        g!("to_ambiguous_zoned", format!("civil {}", dt), cls, {
            let _ = tz.to_ambiguous_zoned(dt).compatible();
        })?;
        g!("to_timestamp", format!("civil {}", dt), cls, {
            let _ = tz.to_timestamp(dt);
        })?;
    }

    // iterators from own transitions
    let pick: Vec<i128> = if heavy && trans.len() > 8 { trans[..4].iter().chain(trans[trans.len() - 4..].iter()).copied().collect() } else { trans.clone() };
    for &t in &trans {
        let (a, b) = (ts((t + NS).min(max)).unwrap(), ts((t - NS).max(min)).unwrap());
        let k = if pick.contains(&t) { 50 } else { 2 };
        g!("preceding", format!("{} ns take {}", t + NS, k), "", tz.preceding(a).take(k).map(|x| (x.timestamp(), x.offset(), x.abbreviation().len(), x.dst())).count())?;
        g!("following", format!("{} ns take {}", t - NS, k), "", tz.following(b).take(k).map(|x| (x.timestamp(), x.offset(), x.abbreviation().len(), x.dst())).count())?;
    }
    None
}
