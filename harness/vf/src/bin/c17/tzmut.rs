//! TZif seeds, a TZif writer, and the deviation-bounded mutation space of
//! C17 part (e). Everything here is a deterministic function of the files
//! under /usr/share/zoneinfo and the bundled jiff-tzdb, so the parent process
//! and its worker children enumerate the identical case list.

use std::path::Path;

pub const TS_MIN: i64 = -377705023201;
pub const TS_MAX: i64 = 253402207200;

#[derive(Clone)]
pub struct Seed {
    pub name: String,
    pub bytes: Vec<u8>,
}

fn walk(dir: &Path, base: &Path, out: &mut Vec<(String, u64)>) {
    let mut ents: Vec<_> = match std::fs::read_dir(dir) {
        Ok(r) => r.filter_map(|e| e.ok()).map(|e| e.path()).collect(),
        Err(_) => return,
    };
    ents.sort();
    for p in ents {
        let Ok(md) = std::fs::metadata(&p) else { continue };
        if md.is_dir() {
            walk(&p, base, out);
        } else if md.is_file() {
            if let Ok(b) = std::fs::read(&p) {
                if b.len() >= 44 && &b[..4] == b"TZif" {
                    out.push((p.strip_prefix(base).unwrap().to_string_lossy().into_owned(), b.len() as u64));
                }
            }
        }
    }
}

/// Big-endian u32 at `off`.
pub fn be32(b: &[u8], off: usize) -> u32 {
    u32::from_be_bytes([b[off], b[off + 1], b[off + 2], b[off + 3]])
}

/// The six count fields of the header at `h`: isut, isstd, leap, time, type, char.
pub fn counts(b: &[u8], h: usize) -> [u32; 6] {
    let mut c = [0u32; 6];
    for (i, x) in c.iter_mut().enumerate() {
        *x = be32(b, h + 20 + 4 * i);
    }
    c
}

/// Length of the data block described by `c` with the given time size.
pub fn block_len(c: &[u32; 6], tsize: usize) -> usize {
    let [isut, isstd, leap, time, typ, chr] = c.map(|x| x as usize);
    time * tsize + time + typ * 6 + chr + leap * (tsize + 4) + isstd + isut
}

/// Offset of the second (64-bit) header of a well-formed v2+ file.
pub fn v2_header_offset(b: &[u8]) -> Option<usize> {
    if b.len() < 44 || b[4] == 0 {
        return None;
    }
    let off = 44 + block_len(&counts(b, 0), 4);
    if off + 44 <= b.len() && &b[off..off + 4] == b"TZif" {
        Some(off)
    } else {
        None
    }
}

/// Offset of the footer's leading newline in a well-formed v2+ file.
pub fn footer_offset(b: &[u8]) -> Option<usize> {
    let h = v2_header_offset(b)?;
    let off = h + 44 + block_len(&counts(b, h), 8);
    if off < b.len() {
        Some(off)
    } else {
        None
    }
}

/// The transition instants recorded in the 64-bit block (or the 32-bit one
/// for v1 data), read leniently: anything odd gives an empty list.
pub fn raw_times(b: &[u8]) -> Vec<i64> {
    if b.len() < 44 || &b[..4] != b"TZif" {
        return vec![];
    }
    let (h, tsize) = match v2_header_offset(b) {
        Some(h) => (h, 8usize),
        None => (0usize, 4usize),
    };
    let n = counts(b, h)[3] as usize;
    let start = h + 44;
    if n > 100_000 || start + n * tsize > b.len() {
        return vec![];
    }
    (0..n)
        .map(|i| {
            let p = &b[start + i * tsize..];
            if tsize == 8 {
                i64::from_be_bytes([p[0], p[1], p[2], p[3], p[4], p[5], p[6], p[7]])
            } else {
                be32(p, 0) as i32 as i64
            }
        })
        .collect()
}

// ---------------------------------------------------------------------------
// writer
// ---------------------------------------------------------------------------

#[derive(Clone, Debug)]
pub struct Tz {
    pub version: u8,
    pub times: Vec<i64>,
    pub idx: Vec<u8>,
    /// (utoff, isdst, designation index)
    pub types: Vec<(i32, u8, u8)>,
    pub chars: Vec<u8>,
    pub leaps: Vec<(i64, i32)>,
    pub isstd: Vec<u8>,
    pub isut: Vec<u8>,
    pub footer: Vec<u8>,
    /// write the full data into the v1 block too (fat style) instead of a stub
    pub fat_v1: bool,
    /// overrides of the count fields of the second header (None = actual)
    pub force_counts: [Option<u32>; 6],
}

impl Tz {
    pub fn base() -> Tz {
        Tz {
            version: b'2',
            times: vec![-2717650800, 1710054000, 1730613600],
            idx: vec![1, 2, 1],
            types: vec![(-17762, 0, 0), (-18000, 0, 4), (-14400, 1, 8)],
            chars: b"LMT\0EST\0EDT\0".to_vec(),
            leaps: vec![],
            isstd: vec![],
            isut: vec![],
            footer: b"EST5EDT,M3.2.0,M11.1.0".to_vec(),
            fat_v1: false,
            force_counts: [None; 6],
        }
    }
    /// No transitions, one type; what the footer says rules.
    pub fn footer_only(footer: &[u8]) -> Tz {
        Tz {
            version: b'3',
            times: vec![],
            idx: vec![],
            types: vec![(0, 0, 0)],
            chars: b"-00\0".to_vec(),
            leaps: vec![],
            isstd: vec![],
            isut: vec![],
            footer: footer.to_vec(),
            fat_v1: false,
            force_counts: [None; 6],
        }
    }

    fn block(&self, tsize: usize, out: &mut Vec<u8>) {
        for &t in &self.times {
            if tsize == 8 {
                out.extend(t.to_be_bytes());
            } else {
                out.extend((t.clamp(i32::MIN as i64, i32::MAX as i64) as i32).to_be_bytes());
            }
        }
        out.extend(&self.idx);
        for &(o, d, i) in &self.types {
            out.extend(o.to_be_bytes());
            out.push(d);
            out.push(i);
        }
        out.extend(&self.chars);
        for &(t, c) in &self.leaps {
            if tsize == 8 {
                out.extend(t.to_be_bytes());
            } else {
                out.extend((t as i32).to_be_bytes());
            }
            out.extend(c.to_be_bytes());
        }
        out.extend(&self.isstd);
        out.extend(&self.isut);
    }

    fn header(&self, version: u8, counts: [u32; 6], out: &mut Vec<u8>) {
        out.extend(b"TZif");
        out.push(version);
        out.extend([0u8; 15]);
        for c in counts {
            out.extend(c.to_be_bytes());
        }
    }

    fn actual_counts(&self) -> [u32; 6] {
        [
            self.isut.len() as u32,
            self.isstd.len() as u32,
            self.leaps.len() as u32,
            self.times.len() as u32,
            self.types.len() as u32,
            self.chars.len() as u32,
        ]
    }

    pub fn build(&self) -> Vec<u8> {
        let mut out = vec![];
        if self.version == 0 {
            // v1 only
            let mut c = self.actual_counts();
            for (i, f) in self.force_counts.iter().enumerate() {
                if let Some(v) = f {
                    c[i] = *v;
                }
            }
            self.header(0, c, &mut out);
            self.block(4, &mut out);
            return out;
        }
        if self.fat_v1 {
            self.header(self.version, self.actual_counts(), &mut out);
            self.block(4, &mut out);
        } else {
            self.header(self.version, [0, 0, 0, 0, 1, 1], &mut out);
            out.extend([0u8; 6]);
            out.push(0);
        }
        let mut c = self.actual_counts();
        for (i, f) in self.force_counts.iter().enumerate() {
            if let Some(v) = f {
                c[i] = *v;
            }
        }
        self.header(self.version, c, &mut out);
        self.block(8, &mut out);
        out.push(b'\n');
        out.extend(&self.footer);
        out.push(b'\n');
        out
    }
}

// ---------------------------------------------------------------------------
// seeds
// ---------------------------------------------------------------------------

pub fn seeds() -> Vec<Seed> {
    let base = Path::new("/usr/share/zoneinfo");
    let mut all = vec![];
    walk(base, base, &mut all);
    // smallest and largest real files (ties: first name in sorted order)
    let mut by_size = all.clone();
    by_size.sort_by(|a, b| (a.1, &a.0).cmp(&(b.1, &b.0)));
    let smallest = by_size.first().map(|x| x.0.clone());
    let largest = by_size.last().map(|x| x.0.clone());
    let mut names: Vec<String> = vec![];
    for n in [smallest, largest].into_iter().flatten() {
        names.push(n);
    }
    for n in [
        "UTC",
        "Etc/GMT+5",
        "America/New_York",
        "Australia/Lord_Howe",
        "Africa/Monrovia",
        "Asia/Kathmandu",
        "Africa/Casablanca",
        "Pacific/Kiritimati",
        "Antarctica/Troll",
        "right/UTC",
    ] {
        if !names.iter().any(|x| x == n) {
            names.push(n.to_string());
        }
    }
    let mut out = vec![];
    for n in names {
        if let Ok(b) = std::fs::read(base.join(&n)) {
            out.push(Seed { name: format!("sys:{}", n), bytes: b });
        }
    }
    // slim files from the bundled database
    for n in ["America/New_York", "Africa/Casablanca"] {
        if let Some((_, b)) = jiff_tzdb::get(n) {
            out.push(Seed { name: format!("bundled:{}", n), bytes: b.to_vec() });
        }
    }
    // v1-style truncation of a fat file: version byte 0, cut after the 32-bit block
    if let Ok(b) = std::fs::read(base.join("America/New_York")) {
        let end = 44 + block_len(&counts(&b, 0), 4);
        if end <= b.len() {
            let mut v1 = b[..end].to_vec();
            v1[4] = 0;
            out.push(Seed { name: "v1:America/New_York".into(), bytes: v1 });
        }
        // the same file with an empty footer
        if let Some(f) = footer_offset(&b) {
            let mut nf = b[..f].to_vec();
            nf.extend(b"\n\n");
            out.push(Seed { name: "nofooter:America/New_York".into(), bytes: nf });
        }
    }
    out.push(Seed { name: "synthetic:minimal".into(), bytes: Tz::footer_only(b"UTC0").build() });
    out.push(Seed { name: "synthetic:base".into(), bytes: Tz::base().build() });
    out
}

// ---------------------------------------------------------------------------
// mutations
// ---------------------------------------------------------------------------

pub const BYTE_KINDS: usize = 7;

pub fn byte_kind(old: u8, kind: u8) -> u8 {
    match kind {
        0 => 0x00,
        1 => 0x01,
        2 => 0x7F,
        3 => 0x80,
        4 => 0xFF,
        5 => old.wrapping_add(1),
        _ => old.wrapping_sub(1),
    }
}

pub const FIELD_NAMES: [&str; 6] = ["isutcnt", "isstdcnt", "leapcnt", "timecnt", "typecnt", "charcnt"];
pub const N_FIELD_VALS: usize = 10;

pub fn field_val(n: u32, k: u8) -> u32 {
    match k {
        0 => 0,
        1 => 1,
        2 => 2,
        3 => n.wrapping_sub(1),
        4 => n.wrapping_add(1),
        5 => 255,
        6 => 256,
        7 => 65_536,
        8 => 1 << 31,
        _ => u32::MAX,
    }
}

/// A header-field edit: (header 0 = 32-bit / 1 = 64-bit, field 0..6, value index).
pub type HdrEdit = (u8, u8, u8);

#[derive(Clone, Debug)]
pub enum Mut {
    None,
    Byte { pos: usize, kind: u8 },
    Trunc { len: usize },
    Hdr(HdrEdit),
    Hdr2(HdrEdit, HdrEdit),
    HdrFooter(HdrEdit, usize),
}

pub fn hostile_footers() -> Vec<Vec<u8>> {
    let mut v: Vec<Vec<u8>> = [
        &b""[..],
        b" ",
        b"\0",
        b"E",
        b"EST",
        b"EST5",
        b"EST5EDT",
        b"EST5EDT,",
        b"EST5EDT,M3.2.0",
        b"EST5EDT,M3.2.0,",
        b"EST5EDT,M3.2.0,M11.1.0",
        b"EST5EDT,M3.2.0,M11.1.0,",
        b"EST5EDT,M3.2.0/2,M11.1.0/2",
        b"EST5EDT4,M3.2.0,M11.1.0",
        b"EST5EDT,M13.2.0,M11.1.0",
        b"EST5EDT,M0.2.0,M11.1.0",
        b"EST5EDT,M3.6.0,M11.1.0",
        b"EST5EDT,M3.0.0,M11.1.0",
        b"EST5EDT,M3.2.7,M11.1.0",
        b"EST5EDT,J0,J365",
        b"EST5EDT,J366,J1",
        b"EST5EDT,J1,J365",
        b"EST5EDT,366,0",
        b"EST5EDT,0,365",
        b"EST5EDT,0/0,J365/25",
        b"EST5EDT,M3.2.0/167,M11.1.0/-167",
        b"EST5EDT,M3.2.0/168,M11.1.0",
        b"EST5EDT,M3.2.0/-168,M11.1.0",
        b"EST5EDT,M3.2.0/1:60,M11.1.0",
        b"EST5EDT,M3.2.0/1:59:60,M11.1.0",
        b"EST25EDT,M3.2.0,M11.1.0",
        b"EST24:59:59EDT-24:59:59,M3.2.0,M11.1.0",
        b"EST-24:59:59EDT24:59:59,M3.2.0,M11.1.0",
        b"<+13>-13<+14>,M1.1.0/0,M6.1.0",
        b"XXX-2<+01>-1,0/0,J365/23",
        b"AAA-24:59:59BBB-25:59:59,J1/-167,J365/167",
        b"AAA24:59:59BBB24:59:59,J1/167,J365/-167",
        b"AAA-24BBB24,M1.1.0/-167,M12.5.6/167",
        b"AAA24BBB-24,M12.5.6/167,M1.1.0/-167",
        b"EST5EDT,M3.2.0,M3.2.0",
        b"EST5EDT,M3.2.0/2,M3.2.0/3",
        b"EST5EST,M3.2.0,M11.1.0",
        b"EST5EDT5,M3.2.0,M11.1.0",
        b"EST5EDT6,M3.2.0,M11.1.0",
        b"EST5EDT,J59,J60",
        b"EST5EDT,59,60",
        b"EST5EDT,J60/24,J60/25",
        b"<>5",
        b"<A>5",
        b"<AB>5",
        b"<ABC",
        b"<+>5",
        b"<-00>0",
        b"AB5",
        b"ABC",
        b"ABC+",
        b"ABC-",
        b"ABC5:",
        b"ABC5:0:",
        b"ABC99",
        b"ABC+0:0:0:0",
        b"\xC3\x89ST5",
        b"EST5\xFF",
        b"EST5EDT,M3.2.0,M11.1.0\0",
        b"EST5 EDT,M3.2.0,M11.1.0",
        b"UTC0",
        b"<+0545>-5:45",
        b"<-03>3<-02>,M3.5.0/-2,M10.5.0/-1",
        b"IST-1GMT0,M10.5.0,M3.5.0/1",
    ]
    .iter()
    .map(|x| x.to_vec())
    .collect();
    v.push(vec![b'A'; 30].into_iter().chain(*b"5").collect());
    v.push(vec![b'A'; 31].into_iter().chain(*b"5").collect());
    let mut q = b"<".to_vec();
    q.extend(vec![b'A'; 40]);
    q.extend(b">5");
    v.push(q);
    for n in [1022usize, 1023, 1024, 1025, 5000] {
        v.push(vec![b'A'; n]);
    }
    let mut long_ok = b"EST5EDT,M3.2.0,M11.1.0".to_vec();
    long_ok.extend(vec![b' '; 1100]);
    v.push(long_ok);
    // abbreviation lengths on both sides of the 30-byte capacity, for the
    // standard and the daylight abbreviation, unquoted and quoted (appended
    // last: the footer indices above appear in case descriptions)
    for quoted in [false, true] {
        for (std_len, dst_len) in [(3usize, 29usize), (3, 30), (3, 31), (29, 30), (29, 31), (30, 29), (30, 30), (30, 31), (30, 32), (31, 3)] {
            let mut f = vec![];
            let name = |f: &mut Vec<u8>, c: u8, n: usize| {
                if quoted {
                    f.push(b'<');
                }
                f.extend(vec![c; n]);
                if quoted {
                    f.push(b'>');
                }
            };
            name(&mut f, b'A', std_len);
            f.push(b'5');
            name(&mut f, b'B', dst_len);
            f.extend(b",M3.2.0,M11.1.0");
            v.push(f);
        }
    }
    v
}

/// Apply a mutation to seed bytes.
pub fn apply(seed: &[u8], m: &Mut, footers: &[Vec<u8>]) -> Vec<u8> {
    let mut b = seed.to_vec();
    let hdr = |b: &mut Vec<u8>, e: &HdrEdit| {
        let h = if e.0 == 0 { Some(0) } else { v2_header_offset(seed) };
        if let Some(h) = h {
            let off = h + 20 + 4 * e.1 as usize;
            let n = be32(seed, off);
            b[off..off + 4].copy_from_slice(&field_val(n, e.2).to_be_bytes());
        }
    };
    match m {
        Mut::None => {}
        Mut::Byte { pos, kind } => b[*pos] = byte_kind(b[*pos], *kind),
        Mut::Trunc { len } => b.truncate(*len),
        Mut::Hdr(e) => hdr(&mut b, e),
        Mut::Hdr2(e1, e2) => {
            hdr(&mut b, e1);
            hdr(&mut b, e2);
        }
        Mut::HdrFooter(e, f) => {
            hdr(&mut b, e);
            if let Some(fo) = footer_offset(seed) {
                b.truncate(fo);
                b.push(b'\n');
                b.extend(&footers[*f]);
                b.push(b'\n');
            }
        }
    }
    b
}

pub fn describe(seed: &Seed, m: &Mut) -> String {
    let e = |e: &HdrEdit| format!("hdr{}.{}:={}", if e.0 == 0 { 32 } else { 64 }, FIELD_NAMES[e.1 as usize], ["0", "1", "2", "n-1", "n+1", "255", "256", "65536", "2^31", "2^32-1"][e.2 as usize]);
    match m {
        Mut::None => format!("tzif seed={} unmodified", seed.name),
        Mut::Byte { pos, kind } => format!("tzif seed={} byte[{}]:={}", seed.name, pos, ["0x00", "0x01", "0x7F", "0x80", "0xFF", "+1", "-1"][*kind as usize]),
        Mut::Trunc { len } => format!("tzif seed={} truncated-to={}", seed.name, len),
        Mut::Hdr(a) => format!("tzif seed={} {}", seed.name, e(a)),
        Mut::Hdr2(a, b) => format!("tzif seed={} {} {}", seed.name, e(a), e(b)),
        Mut::HdrFooter(a, f) => format!("tzif seed={} {} footer#{}", seed.name, e(a), f),
    }
}

/// All header edits applicable to a seed.
pub fn hdr_edits(seed: &[u8]) -> Vec<HdrEdit> {
    let mut v = vec![];
    let nh = if v2_header_offset(seed).is_some() { 2 } else { 1 };
    for h in 0..nh {
        for f in 0..6u8 {
            for k in 0..N_FIELD_VALS as u8 {
                v.push((h, f, k));
            }
        }
    }
    v
}

/// The mutation list of one seed. `full_bytes`: sweep every byte (else only
/// the headers, the 64 bytes after each header, and the last 64 bytes).
/// `pairs`: include the 2-deviation header x header and header x footer edits.
pub fn mutations(seed: &[u8], full_bytes: bool, pairs: bool, n_footers: usize) -> Vec<Mut> {
    let mut v = vec![Mut::None];
    let h2 = v2_header_offset(seed);
    let near = |pos: usize| -> bool {
        if full_bytes || pos < 108 || pos + 64 >= seed.len() {
            return true;
        }
        match h2 {
            Some(h) => pos + 8 >= h && pos < h + 108,
            None => false,
        }
    };
    for pos in 0..seed.len() {
        if !near(pos) {
            continue;
        }
        for kind in 0..BYTE_KINDS as u8 {
            if byte_kind(seed[pos], kind) != seed[pos] {
                v.push(Mut::Byte { pos, kind });
            }
        }
    }
    for len in 0..seed.len() {
        if near(len) {
            v.push(Mut::Trunc { len });
        }
    }
    let edits = hdr_edits(seed);
    for e in &edits {
        v.push(Mut::Hdr(*e));
    }
    if pairs {
        for (i, a) in edits.iter().enumerate() {
            for b in &edits[i + 1..] {
                if (a.0, a.1) != (b.0, b.1) {
                    v.push(Mut::Hdr2(*a, *b));
                }
            }
        }
        if footer_offset(seed).is_some() {
            for a in &edits {
                for f in 0..n_footers {
                    v.push(Mut::HdrFooter(*a, f));
                }
            }
        }
    }
    v
}

// ---------------------------------------------------------------------------
// structured (built) cases
// ---------------------------------------------------------------------------

pub fn built_cases(posix_alphabet: &[String]) -> Vec<(String, Vec<u8>)> {
    let mut out: Vec<(String, Tz)> = vec![];
    let base = Tz::base();
    let nofoot = |mut t: Tz| {
        t.footer.clear();
        t
    };
    fn both(out: &mut Vec<(String, Tz)>, name: String, t: Tz) {
        out.push((format!("{} footer=kept", name), t.clone()));
        let mut t = t;
        t.footer.clear();
        out.push((format!("{} footer=empty", name), t));
    }
    // 1. transition order / duplicates / extremes
    {
        let mut t = base.clone();
        t.times.swap(0, 1);
        both(&mut out, "times swap(0,1)".into(), t);
        let mut t = base.clone();
        t.times.swap(1, 2);
        both(&mut out, "times swap(1,2)".into(), t);
        let mut t = base.clone();
        t.times.reverse();
        both(&mut out, "times reversed".into(), t);
        let mut t = base.clone();
        t.times = vec![t.times[1]; 3];
        both(&mut out, "times all-equal".into(), t);
        let mut t = base.clone();
        t.times[1] = t.times[0];
        both(&mut out, "times dup(0,1)".into(), t);
        let mut t = base.clone();
        t.times[1] = t.times[2];
        both(&mut out, "times dup(1,2)".into(), t);
        let ext: [i64; 17] = [
            i64::MIN,
            i64::MIN + 1,
            TS_MIN - 93_600,
            TS_MIN - 1,
            TS_MIN,
            TS_MIN + 1,
            TS_MIN + 93_600,
            -1,
            0,
            1,
            TS_MAX - 93_600,
            TS_MAX - 1,
            TS_MAX,
            TS_MAX + 1,
            TS_MAX + 93_600,
            i64::MAX - 1,
            i64::MAX,
        ];
        for k in 0..3 {
            for &x in &ext {
                let mut t = base.clone();
                t.times[k] = x;
                both(&mut out, format!("times[{}]={}", k, x), t);
            }
        }
        for &x in &ext {
            let mut t = base.clone();
            t.times = vec![x];
            t.idx = vec![1];
            both(&mut out, format!("times=[{}] only", x), t.clone());
            t.idx = vec![2];
            both(&mut out, format!("times=[{}] only, type EDT", x), t);
        }
        // two extremes together
        for &a in &[i64::MIN, TS_MIN, TS_MIN + 1] {
            for &b in &[TS_MAX - 1, TS_MAX, i64::MAX] {
                let mut t = base.clone();
                t.times = vec![a, b];
                t.idx = vec![2, 1];
                both(&mut out, format!("times=[{},{}]", a, b), t);
            }
        }
    }
    // 2. extreme offsets
    for k in 0..3usize {
        for o in [93_599, -93_599, 93_600, -93_600, 0, 1, -1, 59, -59, 86_400, -86_400, i32::MIN, i32::MAX] {
            let mut t = base.clone();
            t.types[k].0 = o;
            both(&mut out, format!("types[{}].utoff={}", k, o), t);
        }
    }
    for (a, b) in [(93_599, -93_599), (-93_599, 93_599), (93_599, 93_599), (-93_599, -93_599)] {
        // a zone flipping between the two extreme offsets, near both ends of time
        for times in [vec![TS_MIN + 10, TS_MIN + 20, 0, TS_MAX - 20, TS_MAX - 10], vec![-100_000, 0, 100_000, 200_000, 300_000]] {
            let mut t = base.clone();
            t.types = vec![(a, 0, 0), (b, 1, 4), (a, 0, 8)];
            t.idx = vec![1, 2, 1, 2, 1];
            t.times = times.clone();
            t.footer.clear();
            out.push((format!("flip offsets {}/{} times={:?}", a, b, times), t));
        }
    }
    // 3. type indices at and past the table end
    for k in [0usize, 2] {
        for i in [0u8, 2, 3, 4, 127, 128, 255] {
            let mut t = base.clone();
            t.idx[k] = i;
            both(&mut out, format!("idx[{}]={}", k, i), t);
        }
    }
    // 4. designation indices and tables
    for k in 0..3usize {
        for i in [0u8, 1, 3, 7, 11, 12, 13, 127, 128, 255] {
            let mut t = base.clone();
            t.types[k].2 = i;
            both(&mut out, format!("types[{}].desig={}", k, i), t);
        }
    }
    for (name, chars) in [
        ("no-final-NUL", b"LMT\0EST\0EDT".to_vec()),
        ("non-utf8", b"LMT\0E\xFFT\0EDT\0".to_vec()),
        ("all-NUL", vec![0u8; 12]),
        ("no-NUL", b"LMTxESTxEDTx".to_vec()),
        ("multibyte", "LMT\0É T\0EDT\0".as_bytes().to_vec()),
        ("multibyte-3", "LMT\0€T\0EDT\0".as_bytes().to_vec()),
        ("multibyte-4", "LMT\0\u{1F552}\0EDT\0".as_bytes().to_vec()),
        ("len-1", vec![0u8]),
        ("len-255", {
            let mut c = b"LMT\0EST\0EDT\0".to_vec();
            c.resize(254, b'A');
            c.push(0);
            c
        }),
        ("len-256", {
            let mut c = b"LMT\0EST\0EDT\0".to_vec();
            c.resize(255, b'A');
            c.push(0);
            c
        }),
        ("len-300-long-abbrev", {
            let mut c = vec![b'A'; 299];
            c.push(0);
            c
        }),
    ] {
        let mut t = base.clone();
        t.chars = chars;
        both(&mut out, format!("chars {}", name), t.clone());
        // every byte position of the (start of the) table as a designation
        // index - the table only has to be UTF-8, so an index may point into
        // the middle of a multi-byte character - plus the far end
        let mut positions: Vec<u8> = (0..=t.chars.len().min(24) as u8).collect();
        positions.extend([250u8, 254, 255]);
        for i in positions {
            for k in [1usize, 2] {
                let mut t2 = t.clone();
                t2.types[k].2 = i;
                out.push((format!("chars {} types[{}].desig={}", name, k, i), nofoot(t2.clone())));
                if k == 1 && i <= 12 {
                    out.push((format!("chars {} types[{}].desig={} (with footer)", name, k, i), t2));
                }
            }
        }
    }
    // 4b. designation tables on both sides of the u8 index space whose footer
    // needs an abbreviation the table does not hold as a whole entry (the
    // in-memory fattening appends it: the appended entry's end index crosses
    // 255 for tables of 253..=255 bytes). The daylight type points at the
    // filler run instead of `EDT`.
    for len in 236usize..=262 {
        let mut c = b"LMT\0EST\0".to_vec();
        c.resize(len - 1, b'A');
        c.push(0);
        let mut t = base.clone();
        t.chars = c;
        t.types[2].2 = 8;
        out.push((format!("chars len-{} without the footer's daylight abbreviation (footer kept)", len), t));
    }
    // 4c. trailing bytes after the last NUL of the table (unterminated, not
    // referenced by any type) while the footer needs an abbreviation that has to
    // be appended: plain ASCII, and multi-byte characters
    for (name, tail) in [("ascii", "xy".as_bytes().to_vec()), ("2-byte", "É".as_bytes().to_vec()), ("3-byte", "€".as_bytes().to_vec()), ("4-byte", "\u{1F552}".as_bytes().to_vec()), ("4-byte+ascii", "\u{1F552}z".as_bytes().to_vec())] {
        let mut c = b"LMT\0EST\0".to_vec();
        c.extend_from_slice(&tail);
        let mut t = base.clone();
        t.chars = c;
        t.types[2].2 = 4;
        out.push((format!("chars unterminated {} tail, footer's daylight abbreviation absent (footer kept)", name), t));
    }
    // 5. isdst
    for d in [2u8, 127, 255] {
        let mut t = base.clone();
        t.types[2].1 = d;
        both(&mut out, format!("types[2].isdst={}", d), t);
    }
    // 6. indicators
    for (name, isstd, isut) in [
        ("std000-ut111", vec![0u8, 0, 0], vec![1u8, 1, 1]),
        ("std111-ut111", vec![1, 1, 1], vec![1, 1, 1]),
        ("std111-ut000", vec![1, 1, 1], vec![0, 0, 0]),
        ("std101", vec![1, 0, 1], vec![]),
        ("ut000", vec![], vec![0, 0, 0]),
        ("ut010", vec![], vec![0, 1, 0]),
        ("std222", vec![2, 2, 2], vec![]),
        ("std111-ut222", vec![1, 1, 1], vec![2, 2, 2]),
        ("std-short", vec![1, 1], vec![]),
        ("ut-long", vec![1, 1, 1], vec![1, 1, 1, 1]),
    ] {
        let mut t = base.clone();
        t.isstd = isstd;
        t.isut = isut;
        both(&mut out, format!("indicators {}", name), t);
    }
    // 7. leap second records
    for (name, leaps) in [
        ("one", vec![(78_796_800i64, 1i32)]),
        ("unsorted", vec![(94_694_401, 2), (78_796_800, 1)]),
        ("extreme", vec![(i64::MIN, i32::MIN), (i64::MAX, i32::MAX)]),
        ("thousand", (0..1000).map(|i| (i as i64 * 1000, i)).collect()),
    ] {
        let mut t = base.clone();
        t.leaps = leaps;
        both(&mut out, format!("leaps {}", name), t);
    }
    // 8. footers: on a file with no transitions (the footer alone rules) and
    // on the base file (must be consistent with the last transition)
    for (i, f) in hostile_footers().iter().enumerate() {
        out.push((format!("footer-only hostile#{}", i), Tz::footer_only(f)));
        let mut t = base.clone();
        t.footer = f.clone();
        out.push((format!("base hostile-footer#{}", i), t.clone()));
        // last transition switched to DST, for footers that are in DST then
        t.idx = vec![1, 2, 2];
        out.push((format!("base(last=EDT) hostile-footer#{}", i), t));
    }
    for f in posix_alphabet {
        out.push((format!("footer-only posix {}", f), Tz::footer_only(f.as_bytes())));
    }
    // 9. version byte
    for v in [0u8, b'1', b'2', b'3', b'4', b'5', b'9', b'A', 0x01, 0xFF] {
        let mut t = base.clone();
        t.version = v;
        out.push((format!("version={:#x}", v), t.clone()));
        t.fat_v1 = true;
        out.push((format!("version={:#x} fat", v), t));
    }
    // 10. many transitions / many types
    for (name, n, step) in [("2000-alternating", 2000usize, 15_778_800i64), ("100000-sorted", 100_000, 1000), ("100000-equal", 100_000, 0), ("70000-unsorted", 70_000, -1000)] {
        let mut t = base.clone();
        t.times = (0..n as i64).map(|i| -1_000_000_000 + i * step).collect();
        t.idx = (0..n).map(|i| 1 + (i % 2) as u8).collect();
        // ends on index 1 (EST) when n is even -> last idx = 2 (EDT); make it EST
        if let Some(l) = t.idx.last_mut() {
            *l = 1;
        }
        both(&mut out, format!("many times {}", name), t);
    }
    {
        let mut t = base.clone();
        t.types = (0..256).map(|i| (i * 60 - 7200, (i % 2) as u8, ((i % 3) * 4) as u8)).collect();
        t.times = (0..256).map(|i| i as i64 * 86_400 * 30).collect();
        t.idx = (0..256).map(|i| i as u8).collect();
        both(&mut out, "256 types".into(), t.clone());
        t.types.truncate(255);
        t.times.truncate(255);
        t.idx.truncate(255);
        both(&mut out, "255 types".into(), t);
    }
    // 11. count fields that disagree with the data (both directions)
    for f in 0..6usize {
        for k in 0..N_FIELD_VALS as u8 {
            let mut t = base.clone();
            let n = t.actual_counts()[f];
            t.force_counts[f] = Some(field_val(n, k));
            out.push((format!("base count {}:={}", FIELD_NAMES[f], field_val(n, k)), t));
        }
    }
    out.into_iter().map(|(n, t)| (format!("tzif built: {}", n), t.build())).collect()
}

// ---------------------------------------------------------------------------
// concatenated tzdata (Android)
// ---------------------------------------------------------------------------

pub const CONCAT_NAMES: [&str; 3] = ["UTC", "America/New_York", "Africa/Monrovia"];

pub fn concat_base() -> Vec<u8> {
    let mut blobs: Vec<(String, Vec<u8>)> = vec![];
    for n in CONCAT_NAMES {
        let b = jiff_tzdb::get(n).map(|x| x.1.to_vec()).or_else(|| std::fs::read(format!("/usr/share/zoneinfo/{}", n)).ok()).unwrap_or_default();
        blobs.push((n.to_string(), b));
    }
    let index_off = 24u32;
    let data_off = index_off + 52 * blobs.len() as u32;
    let mut data: Vec<u8> = vec![];
    let mut index: Vec<u8> = vec![];
    for (n, b) in &blobs {
        let mut name = [0u8; 40];
        name[..n.len()].copy_from_slice(n.as_bytes());
        index.extend(name);
        index.extend((data.len() as u32).to_be_bytes());
        index.extend((b.len() as u32).to_be_bytes());
        index.extend(0u32.to_be_bytes());
        data.extend(b);
    }
    let final_off = data_off + data.len() as u32;
    let mut out = b"tzdata2025b\0".to_vec();
    out.extend(index_off.to_be_bytes());
    out.extend(data_off.to_be_bytes());
    out.extend(final_off.to_be_bytes());
    out.extend(index);
    out.extend(data);
    out
}

#[derive(Clone, Debug)]
pub enum CMut {
    None,
    Byte { pos: usize, kind: u8 },
    Trunc { len: usize },
    /// 32-bit big-endian field at byte offset := value index
    Field { off: usize, val: u8 },
    Field2 { a: (usize, u8), b: (usize, u8) },
}

pub fn concat_mutations(base: &[u8], pairs: bool) -> Vec<CMut> {
    let n = CONCAT_NAMES.len();
    let idx_end = 24 + 52 * n;
    let mut v = vec![CMut::None];
    for pos in 0..idx_end {
        for kind in 0..BYTE_KINDS as u8 {
            if byte_kind(base[pos], kind) != base[pos] {
                v.push(CMut::Byte { pos, kind });
            }
        }
    }
    for len in 0..base.len() {
        if len <= idx_end + 64 || len % 61 == 0 || len + 64 >= base.len() {
            v.push(CMut::Trunc { len });
        }
    }
    let mut fields = vec![12usize, 16, 20];
    for i in 0..n {
        fields.extend([24 + 52 * i + 40, 24 + 52 * i + 44, 24 + 52 * i + 48]);
    }
    let mut edits = vec![];
    for &off in &fields {
        for val in 0..N_FIELD_VALS as u8 {
            edits.push((off, val));
            v.push(CMut::Field { off, val });
        }
    }
    if pairs {
        for (i, a) in edits.iter().enumerate() {
            for b in &edits[i + 1..] {
                if a.0 != b.0 {
                    v.push(CMut::Field2 { a: *a, b: *b });
                }
            }
        }
    }
    v
}

pub fn concat_apply(base: &[u8], m: &CMut) -> Vec<u8> {
    let mut b = base.to_vec();
    let set = |b: &mut Vec<u8>, (off, val): (usize, u8)| {
        let n = be32(base, off);
        b[off..off + 4].copy_from_slice(&field_val(n, val).to_be_bytes());
    };
    match m {
        CMut::None => {}
        CMut::Byte { pos, kind } => b[*pos] = byte_kind(b[*pos], *kind),
        CMut::Trunc { len } => b.truncate(*len),
        CMut::Field { off, val } => set(&mut b, (*off, *val)),
        CMut::Field2 { a, b: bb } => {
            set(&mut b, *a);
            set(&mut b, *bb);
        }
    }
    b
}

pub fn concat_describe(m: &CMut) -> String {
    let vals = ["0", "1", "2", "n-1", "n+1", "255", "256", "65536", "2^31", "2^32-1"];
    match m {
        CMut::None => "concat unmodified".into(),
        CMut::Byte { pos, kind } => format!("concat byte[{}]:={}", pos, ["0x00", "0x01", "0x7F", "0x80", "0xFF", "+1", "-1"][*kind as usize]),
        CMut::Trunc { len } => format!("concat truncated-to={}", len),
        CMut::Field { off, val } => format!("concat u32@{}:={}", off, vals[*val as usize]),
        CMut::Field2 { a, b } => format!("concat u32@{}:={} u32@{}:={}", a.0, vals[a.1 as usize], b.0, vals[b.1 as usize]),
    }
}
