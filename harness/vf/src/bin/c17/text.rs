//! The text parsers under test: entry points, alphabets, seed corpora and the
//! "Ok values are sane" checks (in range; prints and re-parses to an equal
//! value where the type has a printer; zones answer lookups).

use super::battery;
use super::rfmt;
use jiff::civil::{Date, DateTime, Time};
use jiff::fmt::{friendly, rfc2822, temporal};
use jiff::tz::{Offset, TimeZone};
use jiff::{SignedDuration, Span, Timestamp, Zoned};

pub enum Res {
    Err,
    Ok,
    /// Parsed Ok but the value is not sane: (failure class, detail)
    Bad(String, String),
    /// several distinct failure classes (the lookup battery)
    Many(Vec<(String, String)>),
}

pub struct Parser {
    pub name: &'static str,
    pub alpha: &'static [u8],
    pub seeds: &'static [&'static [u8]],
    /// repeated units for the 10^6-byte inputs: (prefix, unit, suffix)
    pub units: &'static [(&'static [u8], &'static [u8], &'static [u8])],
    pub f: fn(&[u8]) -> Res,
}

static TP: temporal::DateTimeParser = temporal::DateTimeParser::new();
static TPR: temporal::DateTimePrinter = temporal::DateTimePrinter::new();
static TSP: temporal::SpanParser = temporal::SpanParser::new();
static TSPR: temporal::SpanPrinter = temporal::SpanPrinter::new();
static FSP: friendly::SpanParser = friendly::SpanParser::new();
static FSPR: friendly::SpanPrinter = friendly::SpanPrinter::new();
static RP: rfc2822::DateTimeParser = rfc2822::DateTimeParser::new();
static RPR: rfc2822::DateTimePrinter = rfc2822::DateTimePrinter::new();

const NS: i128 = 1_000_000_000;

// ---------------------------------------------------------------------------
// sanity of Ok values
// ---------------------------------------------------------------------------

fn bad(class: impl Into<String>, detail: impl Into<String>) -> Option<(String, String)> {
    Some((class.into(), detail.into()))
}

pub fn chk_date(d: Date) -> Option<(String, String)> {
    if Date::new(d.year(), d.month(), d.day()).ok() != Some(d) || d < Date::MIN || d > Date::MAX {
        return bad("ok-value-out-of-range:Date", format!("{:?}", d));
    }
    match d.to_string().parse::<Date>() {
        Ok(b) if b == d => None,
        other => bad("ok-value-reparse:Date", format!("{:?} printed {:?} re-parsed {:?}", d, d.to_string(), other)),
    }
}

pub fn chk_time(t: Time) -> Option<(String, String)> {
    if Time::new(t.hour(), t.minute(), t.second(), t.subsec_nanosecond()).ok() != Some(t) {
        return bad("ok-value-out-of-range:Time", format!("{:?}", t));
    }
    match t.to_string().parse::<Time>() {
        Ok(b) if b == t => None,
        other => bad("ok-value-reparse:Time", format!("{:?} printed {:?} re-parsed {:?}", t, t.to_string(), other)),
    }
}

pub fn chk_datetime(dt: DateTime) -> Option<(String, String)> {
    if let Some(x) = chk_date(dt.date()) {
        return Some(x);
    }
    if let Some(x) = chk_time(dt.time()) {
        return Some(x);
    }
    match dt.to_string().parse::<DateTime>() {
        Ok(b) if b == dt => None,
        other => bad("ok-value-reparse:DateTime", format!("{:?} printed {:?} re-parsed {:?}", dt, dt.to_string(), other)),
    }
}

pub fn chk_offset(o: Offset) -> Option<(String, String)> {
    if o.seconds().abs() > 93_599 {
        return bad("ok-value-out-of-range:Offset", format!("{:?}", o));
    }
    None
}

/// The F13 input classes (see C09), here computed from what the *input text*
/// says when the independent reader can read it, else "unclassified".
fn f13_from_input(input: &[u8]) -> &'static str {
    if let Ok(st) = std::str::from_utf8(input) {
        let core = st.split('[').next().unwrap_or(st);
        if let Ok(rd) = rfmt::read_full(core, true, false) {
            if let (Some(c), Some(i)) = (rd.civil_ns(), rd.instant_ns()) {
                return f13_of(c, i);
            }
        }
    }
    // forms the small reader does not know (basic format, hour-only offsets):
    // let jiff split the text into pieces, only to name the class
    match temporal::Pieces::parse(input) {
        Ok(p) => {
            let dt = DateTime::from_parts(p.date(), p.time().unwrap_or(Time::midnight()));
            let off = p.to_numeric_offset().map(|o| o.seconds() as i128).unwrap_or(0);
            let c = civil_ns(dt);
            f13_of(c, c - off * NS)
        }
        Err(_) => "[unclassified-input]",
    }
}

fn f13_of(civil_ns: i128, inst_ns: i128) -> &'static str {
    if inst_ns.rem_euclid(NS) == 0 {
        ""
    } else if civil_ns < 0 && inst_ns >= 0 {
        "[text-date<1970,fraction!=0,instant>=epoch]"
    } else if civil_ns >= 0 && inst_ns < 0 {
        "[text-date>=1970,fraction!=0,instant<epoch]"
    } else {
        ""
    }
}

pub fn chk_timestamp(ts: Timestamp, input: &[u8]) -> Option<(String, String)> {
    let ns = ts.as_nanosecond();
    if ts < Timestamp::MIN || ts > Timestamp::MAX || ns < Timestamp::MIN.as_nanosecond() || ns > Timestamp::MAX.as_nanosecond() {
        // input class N2: a non-zero fraction inside the second before Timestamp::MIN
        let cls = if ts.as_second() == Timestamp::MIN.as_second() && ts.subsec_nanosecond() < 0 { "[fraction!=0,instant-in-the-second-before-Timestamp::MIN]" } else { "" };
        return bad(format!("ok-value-out-of-range:Timestamp{}", cls), format!("{:?}: second={} subsec_nanosecond={}", ts, ts.as_second(), ts.subsec_nanosecond()));
    }
    let norm = Timestamp::from_nanosecond(ns).unwrap();
    if norm != ts || (ts.as_second() > 0 && ts.subsec_nanosecond() < 0) || (ts.as_second() < 0 && ts.subsec_nanosecond() > 0) {
        return bad(
            format!("ok-value-denormalised:Timestamp{}", f13_from_input(input)),
            format!("second={} subsec_nanosecond={} compares != to Timestamp::from_nanosecond({})", ts.as_second(), ts.subsec_nanosecond(), ns),
        );
    }
    match ts.to_string().parse::<Timestamp>() {
        Ok(b) if b == ts => None,
        other => bad("ok-value-reparse:Timestamp", format!("{:?} printed {:?} re-parsed {:?}", ts, ts.to_string(), other)),
    }
}

pub fn civil_ns(dt: DateTime) -> i128 {
    vf::conv::dt_civil_ns(dt)
}

pub fn chk_zoned(z: &Zoned) -> Option<(String, String)> {
    let ts = z.timestamp();
    let ns = ts.as_nanosecond();
    // input class, computed from the parsed value (a function of the input)
    let f13 = f13_of(civil_ns(z.datetime()), ns);
    if ts < Timestamp::MIN || ts > Timestamp::MAX {
        let cls = if ts.as_second() == Timestamp::MIN.as_second() && ts.subsec_nanosecond() < 0 { "[fraction!=0,instant-in-the-second-before-Timestamp::MIN]" } else { "" };
        return bad(format!("ok-value-out-of-range:Zoned{}", cls), format!("timestamp second={} subsec_nanosecond={}", ts.as_second(), ts.subsec_nanosecond()));
    }
    if Timestamp::from_nanosecond(ns).unwrap() != ts {
        return bad(
            format!("ok-value-denormalised:Zoned{}", f13),
            format!("{:?}: timestamp second={} subsec_nanosecond={}", z, ts.as_second(), ts.subsec_nanosecond()),
        );
    }
    if let Some(x) = chk_datetime(z.datetime()) {
        return Some(x);
    }
    if let Some(x) = chk_offset(z.offset()) {
        return Some(x);
    }
    let tz = z.time_zone();
    let fixed = tz.to_fixed_offset().ok();
    if tz.iana_name().is_none() && fixed.is_none() {
        // POSIX or anonymous zones: no round trip promised
        return None;
    }
    if let Some(o) = fixed {
        if o.seconds() % 60 != 0 {
            // sub-minute fixed offsets are printed rounded (documented); only
            // printing without panicking is demanded
            let _ = z.to_string();
            return None;
        }
    }
    let text = z.to_string();
    // class of the value: inside a fold / sub-minute offsets (F3 of C09)
    let amb = tz.to_ambiguous_timestamp(z.datetime());
    let (fold, submin) = match amb.offset() {
        jiff::tz::AmbiguousOffset::Fold { before, after } => (true, before.seconds() % 60 != 0 || after.seconds() % 60 != 0),
        _ => (false, z.offset().seconds() % 60 != 0),
    };
    let cls = format!("{}{}{}", if fold { "[fold]" } else { "" }, if submin { "[subminute-offset]" } else { "" }, f13);
    match text.parse::<Zoned>() {
        Ok(b) => {
            if b.timestamp().as_nanosecond() != ns || b.offset() != z.offset() || b.time_zone() != tz || b.timestamp() != ts {
                bad(format!("ok-value-reparse:Zoned{}", cls), format!("{:?} ({} ns) printed {:?} re-parsed {:?} ({} ns)", z, ns, text, b, b.timestamp().as_nanosecond()))
            } else {
                None
            }
        }
        Err(e) => bad(format!("ok-value-reparse-error:Zoned{}", cls), format!("{:?} printed {:?}: {}", z, text, e)),
    }
}

const SPAN_LIMITS: [i64; 10] = [
    19_998,
    239_976,
    1_043_497,
    7_304_484,
    175_307_616,
    10_518_456_960,
    631_107_417_600,
    631_107_417_600_000,
    631_107_417_600_000_000,
    i64::MAX,
];

pub fn span_fields(s: &Span) -> [i64; 10] {
    [
        s.get_years() as i64,
        s.get_months() as i64,
        s.get_weeks() as i64,
        s.get_days() as i64,
        s.get_hours() as i64,
        s.get_minutes(),
        s.get_seconds(),
        s.get_milliseconds(),
        s.get_microseconds(),
        s.get_nanoseconds(),
    ]
}

pub fn chk_span_range(s: &Span) -> Option<(String, String)> {
    let f = span_fields(s);
    let mut pos = false;
    let mut neg = false;
    for (i, &v) in f.iter().enumerate() {
        if v.checked_abs().map(|a| a > SPAN_LIMITS[i]).unwrap_or(true) {
            return bad("ok-value-out-of-range:Span", format!("{:?} field {} = {}", s, i, v));
        }
        pos |= v > 0;
        neg |= v < 0;
    }
    if pos && neg {
        return bad("ok-value-mixed-signs:Span", format!("{:?}", f));
    }
    if s.signum() as i64 != (pos as i64 - neg as i64) {
        return bad("ok-value-sign:Span", format!("{:?} signum {}", f, s.signum()));
    }
    None
}

/// Equality of spans as values: the calendar fields one by one, the clock
/// fields by their exact total (the ISO 8601 form has no designator below the
/// second, so `1000ms` legitimately prints as `PT1S`).
pub fn span_same_value(a: &Span, b: &Span) -> bool {
    let (fa, fb) = (span_fields(a), span_fields(b));
    let clock = |f: &[i64; 10]| -> i128 {
        f[4] as i128 * 3_600_000_000_000 + f[5] as i128 * 60_000_000_000 + f[6] as i128 * 1_000_000_000 + f[7] as i128 * 1_000_000 + f[8] as i128 * 1_000 + f[9] as i128
    };
    fa[..4] == fb[..4] && clock(&fa) == clock(&fb)
}

pub fn chk_sdur_range(d: SignedDuration) -> Option<(String, String)> {
    let (s, n) = (d.as_secs(), d.subsec_nanos());
    if n.abs() >= 1_000_000_000 || (s > 0 && n < 0) || (s < 0 && n > 0) {
        return bad("ok-value-out-of-range:SignedDuration", format!("secs={} nanos={}", s, n));
    }
    None
}

/// Input class of the POSIX abbreviation printing defect: some abbreviation of
/// the zone contains a digit but neither '+' nor '-' (such an abbreviation can
/// only have been written in the quoted `<...>` form).
fn abbrev_class(tz: &TimeZone) -> &'static str {
    let hit = |a: &str| a.bytes().any(|c| c.is_ascii_digit()) && !a.contains('+') && !a.contains('-');
    let Ok(start) = Timestamp::from_second(1_704_067_200) else { return "" };
    if hit(tz.to_offset_info(start).abbreviation()) {
        return "[abbreviation-with-digit-but-no-sign]";
    }
    // both abbreviations of a POSIX rule show up within its next transitions
    for t in tz.following(start).take(4) {
        if hit(t.abbreviation()) {
            return "[abbreviation-with-digit-but-no-sign]";
        }
    }
    ""
}

/// Equality of zones as values. `TimeZone::get("UTC")` is the built-in UTC
/// while any other spelling ("Utc") loads the file named UTC; jiff's `==`
/// tells those apart although they are the same zone with the same name, so
/// zones with equal IANA names are taken as equal here.
fn tz_same(a: &TimeZone, b: &TimeZone) -> bool {
    a == b || (a.iana_name().is_some() && a.iana_name() == b.iana_name())
}

fn chk_tz(tz: &TimeZone, reparse: fn(&str) -> Result<TimeZone, jiff::Error>) -> Res {
    let mut v = vec![];
    match TPR.time_zone_to_string(tz) {
        Err(_) => {}
        Ok(text) => match reparse(&text) {
            Ok(b) if tz_same(&b, tz) => {}
            other => v.push((
                format!("ok-value-reparse:TimeZone{}", abbrev_class(tz)),
                format!("{:?} printed {:?} re-parsed {:?}", tz, text, other.map(|_| "a different zone").map_err(|e| e.to_string())),
            )),
        },
    }
    v.extend(battery::battery(tz, &[], false));
    if v.is_empty() {
        Res::Ok
    } else {
        Res::Many(v)
    }
}

// ---------------------------------------------------------------------------
// entry points
// ---------------------------------------------------------------------------

fn wrap(x: Option<(String, String)>) -> Res {
    match x {
        None => Res::Ok,
        Some((c, d)) => Res::Bad(c, d),
    }
}

fn p_zoned(i: &[u8]) -> Res {
    match TP.parse_zoned(i) {
        Err(_) => Res::Err,
        Ok(z) => wrap(chk_zoned(&z)),
    }
}
fn p_timestamp(i: &[u8]) -> Res {
    match TP.parse_timestamp(i) {
        Err(_) => Res::Err,
        Ok(t) => wrap(chk_timestamp(t, i)),
    }
}
fn p_datetime(i: &[u8]) -> Res {
    match TP.parse_datetime(i) {
        Err(_) => Res::Err,
        Ok(t) => wrap(chk_datetime(t)),
    }
}
fn p_date(i: &[u8]) -> Res {
    match TP.parse_date(i) {
        Err(_) => Res::Err,
        Ok(t) => wrap(chk_date(t)),
    }
}
fn p_time(i: &[u8]) -> Res {
    match TP.parse_time(i) {
        Err(_) => Res::Err,
        Ok(t) => wrap(chk_time(t)),
    }
}
fn p_pieces(i: &[u8]) -> Res {
    let p = match TP.parse_pieces(i) {
        Err(_) => return Res::Err,
        Ok(p) => p,
    };
    if let Some(x) = chk_date(p.date()) {
        return wrap(Some(x));
    }
    if let Some(t) = p.time() {
        if let Some(x) = chk_time(t) {
            return wrap(Some(x));
        }
    }
    let off = p.to_numeric_offset();
    if let Some(o) = off {
        if let Some(x) = chk_offset(o) {
            return wrap(Some(x));
        }
    }
    let _ = p.to_time_zone();
    let mut ann_off = None;
    if let Some(a) = p.time_zone_annotation() {
        if let temporal::TimeZoneAnnotationKind::Offset(o) = a.kind() {
            ann_off = Some(*o);
            if let Some(x) = chk_offset(*o) {
                return wrap(Some(x));
            }
        }
        let _ = a.to_time_zone();
    }
    let text = p.to_string();
    let whole = off.map(|o| o.seconds() % 60 == 0).unwrap_or(true) && ann_off.map(|o| o.seconds() % 60 == 0).unwrap_or(true);
    let big = |o: Option<Offset>| o.map(|o| o.seconds().abs() >= 25 * 3600 + 59 * 60 + 30).unwrap_or(false);
    let cls = if big(off) || big(ann_off) { "[|offset|>=25:59:30]" } else if whole { "" } else { "[subminute-offset]" };
    match temporal::Pieces::parse(&text) {
        Ok(b) => {
            if whole && b != p {
                return Res::Bad("ok-value-reparse:Pieces".into(), format!("{:?} printed {:?} re-parsed {:?}", p, text, b));
            }
            Res::Ok
        }
        Err(e) => Res::Bad(format!("ok-value-reparse-error:Pieces{}", cls), format!("{:?} printed {:?}: {}", p, text, e)),
    }
}
fn reparse_tz(s: &str) -> Result<TimeZone, jiff::Error> {
    TP.parse_time_zone(s)
}
fn p_time_zone(i: &[u8]) -> Res {
    match TP.parse_time_zone(i) {
        Err(_) => Res::Err,
        Ok(tz) => chk_tz(&tz, reparse_tz),
    }
}
fn reparse_posix(s: &str) -> Result<TimeZone, jiff::Error> {
    TimeZone::posix(s)
}
fn p_posix(i: &[u8]) -> Res {
    let Ok(s) = std::str::from_utf8(i) else { return Res::Err };
    match TimeZone::posix(s) {
        Err(_) => Res::Err,
        Ok(tz) => chk_tz(&tz, reparse_posix),
    }
}
fn p_tspan(i: &[u8]) -> Res {
    match TSP.parse_span(i) {
        Err(_) => Res::Err,
        Ok(s) => {
            if let Some(x) = chk_span_range(&s) {
                return wrap(Some(x));
            }
            let text = TSPR.span_to_string(&s);
            match TSP.parse_span(&text) {
                Ok(b) if b.fieldwise() == s.fieldwise() || span_same_value(&b, &s) => Res::Ok,
                other => Res::Bad("ok-value-reparse:Span".into(), format!("{:?} printed {:?} re-parsed {:?}", s, text, other)),
            }
        }
    }
}
fn p_tdur(i: &[u8]) -> Res {
    match TSP.parse_duration(i) {
        Err(_) => Res::Err,
        Ok(d) => {
            if let Some(x) = chk_sdur_range(d) {
                return wrap(Some(x));
            }
            let text = TSPR.duration_to_string(&d);
            match TSP.parse_duration(&text) {
                Ok(b) if b == d => Res::Ok,
                other => Res::Bad("ok-value-reparse:SignedDuration".into(), format!("{:?} printed {:?} re-parsed {:?}", d, text, other)),
            }
        }
    }
}
fn p_fspan(i: &[u8]) -> Res {
    match FSP.parse_span(i) {
        Err(_) => Res::Err,
        Ok(s) => {
            if let Some(x) = chk_span_range(&s) {
                return wrap(Some(x));
            }
            let text = FSPR.span_to_string(&s);
            match FSP.parse_span(&text) {
                Ok(b) if b.fieldwise() == s.fieldwise() || span_same_value(&b, &s) => Res::Ok,
                other => Res::Bad("ok-value-reparse:Span".into(), format!("{:?} printed {:?} re-parsed {:?}", s, text, other)),
            }
        }
    }
}
fn p_fdur(i: &[u8]) -> Res {
    match FSP.parse_duration(i) {
        Err(_) => Res::Err,
        Ok(d) => {
            if let Some(x) = chk_sdur_range(d) {
                return wrap(Some(x));
            }
            let text = FSPR.duration_to_string(&d);
            match FSP.parse_duration(&text) {
                Ok(b) if b == d => Res::Ok,
                other => Res::Bad("ok-value-reparse:SignedDuration".into(), format!("{:?} printed {:?} re-parsed {:?}", d, text, other)),
            }
        }
    }
}
fn p_span_fromstr(i: &[u8]) -> Res {
    let Ok(s) = std::str::from_utf8(i) else { return Res::Err };
    match s.parse::<Span>() {
        Err(_) => Res::Err,
        Ok(sp) => {
            if let Some(x) = chk_span_range(&sp) {
                return wrap(Some(x));
            }
            // Display is the ISO form, which folds sub-second units into
            // seconds; only demand that it parses again.
            let text = sp.to_string();
            match text.parse::<Span>() {
                Ok(_) => Res::Ok,
                Err(e) => Res::Bad("ok-value-reparse-error:Span".into(), format!("{:?} printed {:?}: {}", sp, text, e)),
            }
        }
    }
}
fn p_sdur_fromstr(i: &[u8]) -> Res {
    let Ok(s) = std::str::from_utf8(i) else { return Res::Err };
    match s.parse::<SignedDuration>() {
        Err(_) => Res::Err,
        Ok(d) => {
            if let Some(x) = chk_sdur_range(d) {
                return wrap(Some(x));
            }
            let text = d.to_string();
            match text.parse::<SignedDuration>() {
                Ok(b) if b == d => Res::Ok,
                other => Res::Bad("ok-value-reparse:SignedDuration".into(), format!("{:?} printed {:?} re-parsed {:?}", d, text, other)),
            }
        }
    }
}
/// Reference acceptor for the one place RFC 2822 input may contain a comment
/// (after the zone): from the first `(`, parentheses - minus backslash-quoted
/// bytes - must balance, with an unbounded depth counter. Returns false when
/// the comment is never closed.
fn rfc2822_comment_closed(i: &[u8]) -> bool {
    let Some(start) = i.iter().position(|&b| b == b'(') else { return true };
    let mut depth: usize = 0;
    let mut escape = false;
    for &b in &i[start..] {
        if escape {
            escape = false;
        } else if b == b'\\' {
            escape = true;
        } else if b == b'(' {
            depth += 1;
        } else if b == b')' {
            depth -= 1;
            if depth == 0 {
                return true;
            }
        }
    }
    false
}
fn p_rfc2822_zoned(i: &[u8]) -> Res {
    match RP.parse_zoned(i) {
        Err(_) => Res::Err,
        Ok(z) => {
            if !rfc2822_comment_closed(i) {
                return Res::Bad("ok-unclosed-comment:Zoned(rfc2822)".into(), format!("{:?} from input with an unclosed comment", z));
            }
            let ts = z.timestamp();
            if Timestamp::from_nanosecond(ts.as_nanosecond()).ok() != Some(ts) {
                return Res::Bad(format!("ok-value-denormalised:Zoned{}", f13_of(civil_ns(z.datetime()), ts.as_nanosecond())), format!("{:?}", z));
            }
            if let Some(x) = chk_datetime(z.datetime()).or_else(|| chk_offset(z.offset())) {
                return wrap(Some(x));
            }
            match RPR.zoned_to_string(&z) {
                // RFC 2822 cannot express every year / offset; an error is fine
                Err(_) => Res::Ok,
                Ok(text) => match RP.parse_zoned(&text) {
                    Ok(b) if b.timestamp() == ts && b.offset() == z.offset() => Res::Ok,
                    other => Res::Bad("ok-value-reparse:Zoned(rfc2822)".into(), format!("{:?} printed {:?} re-parsed {:?}", z, text, other)),
                },
            }
        }
    }
}
fn p_rfc2822_timestamp(i: &[u8]) -> Res {
    match RP.parse_timestamp(i) {
        Err(_) => Res::Err,
        Ok(ts) => {
            if !rfc2822_comment_closed(i) {
                return Res::Bad("ok-unclosed-comment:Timestamp(rfc2822)".into(), format!("{:?} from input with an unclosed comment", ts));
            }
            if Timestamp::from_nanosecond(ts.as_nanosecond()).ok() != Some(ts) || ts < Timestamp::MIN || ts > Timestamp::MAX {
                return Res::Bad("ok-value-denormalised:Timestamp".into(), format!("second={} subsec={}", ts.as_second(), ts.subsec_nanosecond()));
            }
            match RPR.timestamp_to_string(&ts) {
                Err(_) => Res::Ok,
                Ok(text) => match RP.parse_timestamp(&text) {
                    Ok(b) if b == ts => Res::Ok,
                    other => Res::Bad("ok-value-reparse:Timestamp(rfc2822)".into(), format!("{:?} printed {:?} re-parsed {:?}", ts, text, other)),
                },
            }
        }
    }
}

// ---------------------------------------------------------------------------
// alphabets and seeds
// ---------------------------------------------------------------------------

const A_DT: &[u8] = b"019-:TZ+.[]/A \x00\xFF";
const A_TZ: &[u8] = b"019+-:/AUC,.MJ<\xFF";
const A_ISO: &[u8] = b"019PTYMDHS.,-+W\xFF";
const A_FRI: &[u8] = b"019ymodhs ,.:-ag\xFF";
const A_2822: &[u8] = b"019SatJn, :+-(G\xFF";
const A_POSIX: &[u8] = b"019A<>+-,MJ./:\x00\xC3";

const S_ZONED: &[&[u8]] = &[
    b"2024-03-10T01:59:59-05:00[America/New_York]",
    b"2024-03-10T03:00:00-04:00[America/New_York]",
    b"2024-11-03T01:30:00-04:00[America/New_York]",
    b"2024-11-03T01:30:00-05:00[America/New_York]",
    b"2024-06-15T07:00:00.123456789-04:00[America/New_York]",
    b"2024-06-15T07:00-04[America/New_York]",
    b"2024-06-15 07:00:00-04:00[America/New_York]",
    b"2024-06-15t07:00:00-04:00[america/new_york]",
    b"20240615T070000-0400[America/New_York]",
    b"2024-06-15T07:00:00[America/New_York]",
    b"2024-06-15[America/New_York]",
    b"2024-06-15T07:00:00Z[America/New_York]",
    b"2024-06-15T11:00:00+00:00[UTC]",
    b"2024-06-15T11Z[UTC]",
    b"2024-06-15T16:30:00+05:30[+05:30]",
    b"2024-06-15T16:30:00+05:30[!+05:30]",
    b"2024-06-15T07:00:00-04:00[!America/New_York]",
    b"2024-06-15T07:00:00-04:00[America/New_York][u-ca=iso8601]",
    b"2024-06-15T07:00:00-04:00[America/New_York][foo=bar]",
    b"1919-02-28T23:59:00-00:43[Africa/Monrovia]",
    b"1919-03-01T00:00:00-00:44:30[Africa/Monrovia]",
    b"1968-02-01T23:15:00-00:45[Africa/Monrovia]",
    b"-009999-01-02T01:59:59+00:00[UTC]",
    b"9999-12-30T22:00:00.999999999+00:00[UTC]",
    b"9999-12-31T23:59:00.999999999+25:59[+25:59]",
    b"-009999-01-01T00:00:59-25:59[-25:59]",
    b"-009999-01-02T01:59:59.5+00:00[UTC]",
    b"-009999-01-01T18:07:01.5-07:53[America/Los_Angeles]",
    b"-009999-01-02T01:58:44.5-00:01[Europe/London]",
    b"9999-12-30T22:00:00.5+00:00[UTC]",
    b"2024-02-29T23:59:60-05:00[America/New_York]",
    b"2024-06-15T07:00:00,5-04:00[America/New_York]",
    b"2011-12-29T23:59:59-10:00[Pacific/Apia]",
    b"2011-12-31T00:00:00+14:00[Pacific/Apia]",
    b"2024-04-07T01:45:00+10:30[Australia/Lord_Howe]",
    b"2024-04-07T01:45:00+11:00[Australia/Lord_Howe]",
    b"1969-12-31T19:00:00.000000001-05:00[America/New_York]",
    b"1970-01-01T01:00:00-05:00[EST]",
    b"2024-01-01T00:00:00+00:00[Etc/GMT]",
    b"2024-06-15T07:00:00+05:45[Asia/Kathmandu]",
    b"+002024-06-15T07:00:00-04:00[America/New_York]",
    b"0000-01-01T00:00:00+00:00[UTC]",
];

const S_TIMESTAMP: &[&[u8]] = &[
    b"1970-01-01T00:00:00Z",
    b"1970-01-01T00:00:00.000000001Z",
    b"1969-12-31T23:59:59.999999999Z",
    b"2024-06-15T07:00:00-04:00",
    b"2024-06-15T07:00:00.5-04:00",
    b"2024-06-15T07:00-04",
    b"2024-06-15 07:00:00+05:30",
    b"2024-06-15t07:00:00z",
    b"20240615T070000Z",
    b"20240615T07Z",
    b"2024-06-15T07:00:00-04:00[America/New_York]",
    b"2024-06-15T07:00:00+00:00[Europe/Nowhere]",
    b"2024-06-15T07:00:00-00:00",
    b"2024-06-15T07:00:00+25:59:59",
    b"2024-06-15T07:00:00-25:59:59",
    b"2024-06-15T07:00:00+05:30:15",
    b"2024-06-15T07:00:00.123456789+0530",
    b"-009999-01-02T01:59:59Z",
    b"-009999-01-02T01:59:59.5Z",
    b"-009999-01-02T01:59:59.5+00:00:00",
    b"-009999-01-01T18:07:01.5-07:52:58",
    b"-009999-01-01T00:00:00.5-25:59:59",
    b"-009999-01-01T00:00:00-25:59:59",
    b"9999-12-30T22:00:00.999999999Z",
    b"9999-12-31T23:59:00.999999999+25:59",
    b"+002024-06-15T07:00:00Z",
    b"2024-02-29T23:59:60Z",
    b"2024-06-15T07:00:00,123Z",
    b"1969-12-31T23:00:00.000000001-05:00",
    b"1970-01-01T00:59:59.5+01:00",
    b"0000-01-01T00:00:00Z",
    b"2024-06-15T07:00:00Z[u-ca=iso8601]",
    b"2024-06-15T07:00:00Z[!UTC]",
    b"1970-01-01T00:00:00+00",
    b"1970-01-01T00Z",
];

const S_DATETIME: &[&[u8]] = &[
    b"2024-06-15T07:00:00",
    b"2024-06-15T07:00:00.123456789",
    b"2024-06-15 07:00",
    b"2024-06-15T07",
    b"20240615T070000",
    b"2024-06-15",
    b"2024-06-15T07:00:00[America/New_York]",
    b"2024-06-15T07:00:00-04:00",
    b"2024-06-15T07:00:00-04:00[America/New_York]",
    b"-009999-01-01T00:00:00",
    b"9999-12-31T23:59:59.999999999",
    b"2024-02-29T23:59:60",
    b"0000-02-29T12:00:00",
    b"+002024-06-15T07:00:00",
    b"2024-06-15t07:00:00,5",
    b"2024-06-15T07:00:00[u-ca=iso8601]",
    b"1970-01-01T00:00",
];

const S_DATE: &[&[u8]] = &[
    b"2024-06-15",
    b"20240615",
    b"-009999-01-01",
    b"9999-12-31",
    b"0000-01-01",
    b"+002024-02-29",
    b"2024-06-15T07:00:00",
    b"2024-06-15[America/New_York]",
    b"2024-06-15T07:00-04:00[America/New_York]",
    b"2024-06-15[u-ca=iso8601]",
    b"1970-01-01",
    b"2000-02-29",
    b"2024-12-31T23:59:60",
];

const S_TIME: &[&[u8]] = &[
    b"07:00:00",
    b"07:00",
    b"07",
    b"070000",
    b"0700",
    b"T07:00:00",
    b"t07",
    b"23:59:59.999999999",
    b"23:59:60",
    b"00:00:00,1",
    b"2024-06-15T07:00:00",
    b"2024-06-15T07:00:00-04:00[America/New_York]",
    b"T070000.5",
    b"00:00",
    b"12:30:45.123",
    b"T12:30-04:00",
];

const S_PIECES: &[&[u8]] = &[
    b"2024-06-15",
    b"2024-06-15T07:00:00",
    b"2024-06-15T07:00:00Z",
    b"2024-06-15T07:00:00-00:00",
    b"2024-06-15T07:00:00+00:00",
    b"2024-06-15T07:00:00-04:00[America/New_York]",
    b"2024-06-15T07:00:00[America/New_York]",
    b"2024-06-15[America/New_York]",
    b"2024-06-15T07:00:00+05:30[+05:30]",
    b"2024-06-15T07:00:00+05:30:15",
    b"2024-06-15T07:00:00+25:59:59",
    b"2024-06-15T07:00:00-25:59:59",
    b"2024-06-15T07:00:00+25:59:30",
    b"2024-06-15T07:00:00+25:59:29",
    b"2024-06-15T07:00:00-04:00[!Does/Not_Exist]",
    b"2024-06-15T07:00:00-04:00[u-ca=iso8601]",
    b"2024-06-15T07:00:00-04:00[America/New_York][u-ca=iso8601]",
    b"-009999-01-01T00:00:00-25:59:59",
    b"9999-12-31T23:59:59.999999999+25:59:59",
    b"20240615T070000.5-0400",
    b"2024-06-15T07-04",
    b"+002024-06-15T07:00:00z",
    b"2024-06-15T07:00:00+05[+05]",
    b"2024-06-15T07:00:00-00:00:29",
];

const S_TZ: &[&[u8]] = &[
    b"America/New_York",
    b"america/new_york",
    b"UTC",
    b"Israel",
    b"Etc/GMT+5",
    b"+05:30",
    b"-0800",
    b"+05",
    b"-25:59:59",
    b"+25:59:59",
    b"+05:00:01",
    b"-00:44:30",
    b"+00:00",
    b"-00:00",
    b"EST5EDT,M3.2.0,M11.1.0",
    b"EST5",
    b"<+0545>-5:45",
    b"<-03>3<-02>,M3.5.0/-2,M10.5.0/-1",
    b"IST-1GMT0,M10.5.0,M3.5.0/1",
    b"AAA-23:59:59BBB-24:59:59,J1/-167,J365/167",
    b"XXX-2<+01>-1,0/0,J365/23",
    b"EST5EDT,0/0,J365/25",
    b"NZST-12NZDT,M9.5.0,M4.1.0/3",
    b"Africa/Monrovia",
    b"Australia/Lord_Howe",
];

const S_POSIX: &[&[u8]] = &[
    b"EST5EDT,M3.2.0,M11.1.0",
    b"EST5",
    b"UTC0",
    b"<+0545>-5:45",
    b"<-03>3<-02>,M3.5.0/-2,M10.5.0/-1",
    b"IST-1GMT0,M10.5.0,M3.5.0/1",
    b"AAA-23:59:59BBB-24:59:59,J1/-167,J365/167",
    b"AAA24:59:59BBB24:59:59,J1/167,J365/-167",
    b"XXX-2<+01>-1,0/0,J365/23",
    b"EST5EDT,0/0,J365/25",
    b"NZST-12NZDT,M9.5.0,M4.1.0/3",
    b"EST5EDT4,M3.2.0/2:30:15,M11.1.0/2:30:15",
    b"EST+5EDT+4,J60,J300",
    b"EST5EDT,59,300",
    b"EST5EDT,M1.1.0,M12.5.6",
    b"<+13>-13<+14>,M1.1.0/0,M6.1.0",
    b"CET-1CEST,M3.5.0,M10.5.0/3",
    b"WGT3WGST,M3.5.0/-2,M10.5.0/-1",
    b"EST5EDT,M3.2.0/167,M11.1.0/-167",
    b"ABCDEFGHIJKLMNOPQRSTUVWXYZabcd5",
    b"<ABC+-123>5",
    b"EST5EDT5,M3.2.0,M11.1.0",
    b"EST5EDT6,M3.2.0,M11.1.0",
];

const S_TSPAN: &[&[u8]] = &[
    b"P1Y",
    b"P1M",
    b"P1W",
    b"P1D",
    b"PT1H",
    b"PT1M",
    b"PT1S",
    b"PT0S",
    b"-PT0S",
    b"P1Y2M3W4DT5H6M7S",
    b"P1Y2M3W4DT5H6M7.123456789S",
    b"-P1Y2M3W4DT5H6M7.123456789S",
    b"+P1D",
    b"p1dt1h",
    b"PT1.5H",
    b"PT1.5M",
    b"PT0.000000001S",
    b"PT1,5S",
    b"P19998Y",
    b"-P19998Y",
    b"P239976M",
    b"P1043497W",
    b"P7304484D",
    b"PT175307616H",
    b"PT10518456960M",
    b"PT631107417600S",
    b"-PT631107417600S",
    b"PT631107417599.999999999S",
    b"PT2562047H",
    b"P0D",
    b"P0Y0M0W0DT0H0M0S",
    b"PT1H30M",
    b"P1DT0.5S",
    b"PT24H",
];

const S_TDUR: &[&[u8]] = &[
    b"PT1H",
    b"PT1M",
    b"PT1S",
    b"PT0S",
    b"-PT0S",
    b"PT5H6M7S",
    b"PT5H6M7.123456789S",
    b"-PT5H6M7.123456789S",
    b"+PT1S",
    b"pt1h",
    b"PT1.5H",
    b"PT1.5M",
    b"PT0.000000001S",
    b"PT1,5S",
    b"PT2562047788015215H",
    b"-PT2562047788015215H30M8S",
    b"PT2562047788015215H30M7.999999999S",
    b"PT153722867280912930M",
    b"PT9223372036854775807S",
    b"-PT9223372036854775807S",
    b"PT9223372036854775807.999999999S",
    b"PT24H",
    b"PT0.5S",
    b"PT1H30M",
];

const S_FSPAN: &[&[u8]] = &[
    b"1y",
    b"1 year",
    b"2 years",
    b"1mo",
    b"1 month",
    b"1w",
    b"1 week",
    b"1d",
    b"1 day",
    b"1h",
    b"1 hr",
    b"1 hour",
    b"1m",
    b"1 min",
    b"1s",
    b"1 sec",
    b"1ms",
    b"1us",
    b"1\xC2\xB5s",
    b"1ns",
    b"0s",
    b"1y 2mo 3w 4d 5h 6m 7s",
    b"1y, 2mo, 3w, 4d, 5h, 6m, 7s",
    b"1 year, 2 months, 3 weeks, 4 days, 5 hours, 6 minutes, 7 seconds",
    b"-1y 2mo",
    b"+1d",
    b"1y 2mo ago",
    b"1d ago",
    b"1.5h",
    b"1.5 hours",
    b"1,5s",
    b"2h 30m",
    b"2d 05:06:07",
    b"05:06:07",
    b"05:06:07.123456789",
    b"-05:06:07",
    b"1d 05:06:07 ago",
    b"19998y",
    b"175307616h",
    b"631107417600s",
    b"9223372036854775807ns",
    b"1s 2ms 3us 4ns",
];

const S_FDUR: &[&[u8]] = &[
    b"1h",
    b"1 hr",
    b"1 hour",
    b"1m",
    b"1s",
    b"1ms",
    b"1us",
    b"1ns",
    b"0s",
    b"5h 6m 7s",
    b"5h, 6m, 7s",
    b"5 hours, 6 minutes, 7 seconds",
    b"-5h 6m",
    b"+1h",
    b"5h 6m ago",
    b"1.5h",
    b"1,5s",
    b"05:06:07",
    b"05:06:07.123456789",
    b"-05:06:07",
    b"2562047788015215h",
    b"2562047788015215h 30m 7s 999ms 999us 999ns",
    b"9223372036854775807s",
    b"-9223372036854775807s",
    b"1s 2ms 3us 4ns",
    b"2562047788015215:30:07.999999999",
];

const S_2822: &[&[u8]] = &[
    b"Sat, 15 Jun 2024 07:00:00 -0400",
    b"15 Jun 2024 07:00:00 -0400",
    b"Sat, 15 Jun 2024 07:00 -0400",
    b"Sat, 15 Jun 2024 07:00:00 +0000",
    b"Sat, 15 Jun 2024 07:00:00 -0000",
    b"Sat, 15 Jun 2024 07:00:00 GMT",
    b"Sat, 15 Jun 2024 07:00:00 UT",
    b"Sat, 15 Jun 2024 07:00:00 EST",
    b"Sat, 15 Jun 2024 07:00:00 PDT",
    b"Sat, 15 Jun 2024 07:00:00 Z",
    b"Sat, 15 Jun 2024 07:00:00 A",
    b"Sat, 15 Jun 24 07:00:00 -0400",
    b"Thu, 1 Jan 1970 00:00:00 +0000",
    b"Thu, 01 Jan 1970 00:00:00 +0000 (UTC)",
    b"Sat, 15 Jun 2024 07:00:00 -0400 (EDT)",
    b"Sat, 15 Jun 2024 07:00:00 -0400 (a (nested) comment)",
    b"  Sat,  15  Jun  2024  07:00:00  -0400  ",
    b"Sat, 15 Jun 2024 07:00:60 -0400",
    b"Thu, 30 Dec 9999 22:00:00 +0000",
    b"Mon, 1 Jan 0001 00:00:00 +0000",
    b"Sat, 1 Jan 0000 00:00:00 +0000",
    b"Sat, 15 Jun 2024 07:00:00 -2559",
    b"Sat, 15 Jun 2024 07:00:00 +2559",
    b"sat, 15 jun 2024 07:00:00 gmt",
    b"Sat, 15 Jun 124 07:00:00 +0000",
    b"Wed, 31 Dec 1969 19:00:00 -0500",
];

macro_rules! units {
    ($($p:expr, $u:expr, $s:expr);* $(;)?) => { &[$(($p, $u, $s)),*] };
}

const U_DT: &[(&[u8], &[u8], &[u8])] = units![
    b"", b"2024-06-15T07:00:00Z", b"";
    b"2024-06-15T07:00:00Z", b"[u-ca=iso8601]", b"";
    b"2024-06-15T07:00:00Z[", b"a", b"]";
    b"2024-06-15T07:00:00Z[", b"a/", b"b]";
    b"2024-06-15T07:00:00Z", b"[", b"";
    b"2024-06-15T07:00:00.", b"0", b"Z";
    b"2024-06-15T07:00:00+", b"0", b"";
    b"", b"-", b"";
    b"", b" ", b"";
    b"", b"\xFF", b"";
];
const U_TZ: &[(&[u8], &[u8], &[u8])] = units![
    b"", b"A", b"";
    b"", b"A/", b"B";
    b"<", b"A", b">5";
    b"EST5EDT,", b"M3.2.0,", b"";
    b"EST5EDT,M3.2.0/", b"1", b",M11.1.0";
    b"+", b"0", b"";
    b"", b"\xFF", b"";
];
const U_ISO: &[(&[u8], &[u8], &[u8])] = units![
    b"P", b"1Y", b"";
    b"PT", b"1S", b"";
    b"PT", b"0", b"S";
    b"PT0.", b"0", b"S";
    b"P", b"T", b"";
    b"", b"P", b"";
    b"", b"-", b"";
    b"", b"\xFF", b"";
];
const U_FRI: &[(&[u8], &[u8], &[u8])] = units![
    b"", b"1h ", b"";
    b"", b"1s, ", b"1s";
    b"1", b" ", b"h";
    b"1h", b" ", b"ago";
    b"", b"0", b"h";
    b"0.", b"0", b"h";
    b"", b"1:", b"1";
    b"", b"-", b"";
    b"", b"\xFF", b"";
];
const U_2822: &[(&[u8], &[u8], &[u8])] = units![
    b"", b" ", b"Sat, 15 Jun 2024 07:00:00 -0400";
    b"Sat, 15 Jun 2024 07:00:00 -0400 ", b"(", b"";
    b"Sat, 15 Jun 2024 07:00:00 -0400 (", b"a", b")";
    b"Sat, 15 Jun 2024 07:00:00 -0400 ", b"()", b"";
    b"Sat, 15 Jun 2024 07:00:00 -0400 ", b"(", b")";
    b"Sat, 15 Jun 2024 07:00:00 -0400 (", b"\\", b")";
    b"Sat, 15 Jun ", b"0", b" 07:00:00 -0400";
    b"", b"\xFF", b"";
];

pub fn parsers() -> Vec<Parser> {
    vec![
        Parser { name: "temporal::DateTimeParser::parse_zoned", alpha: A_DT, seeds: S_ZONED, units: U_DT, f: p_zoned },
        Parser { name: "temporal::DateTimeParser::parse_timestamp", alpha: A_DT, seeds: S_TIMESTAMP, units: U_DT, f: p_timestamp },
        Parser { name: "temporal::DateTimeParser::parse_datetime", alpha: A_DT, seeds: S_DATETIME, units: U_DT, f: p_datetime },
        Parser { name: "temporal::DateTimeParser::parse_date", alpha: A_DT, seeds: S_DATE, units: U_DT, f: p_date },
        Parser { name: "temporal::DateTimeParser::parse_time", alpha: A_DT, seeds: S_TIME, units: U_DT, f: p_time },
        Parser { name: "temporal::DateTimeParser::parse_pieces", alpha: A_DT, seeds: S_PIECES, units: U_DT, f: p_pieces },
        Parser { name: "temporal::DateTimeParser::parse_time_zone", alpha: A_TZ, seeds: S_TZ, units: U_TZ, f: p_time_zone },
        Parser { name: "TimeZone::posix", alpha: A_POSIX, seeds: S_POSIX, units: U_TZ, f: p_posix },
        Parser { name: "temporal::SpanParser::parse_span", alpha: A_ISO, seeds: S_TSPAN, units: U_ISO, f: p_tspan },
        Parser { name: "temporal::SpanParser::parse_duration", alpha: A_ISO, seeds: S_TDUR, units: U_ISO, f: p_tdur },
        Parser { name: "friendly::SpanParser::parse_span", alpha: A_FRI, seeds: S_FSPAN, units: U_FRI, f: p_fspan },
        Parser { name: "friendly::SpanParser::parse_duration", alpha: A_FRI, seeds: S_FDUR, units: U_FRI, f: p_fdur },
        Parser { name: "Span::from_str", alpha: A_ISO, seeds: S_TSPAN, units: U_ISO, f: p_span_fromstr },
        Parser { name: "Span::from_str(friendly)", alpha: A_FRI, seeds: S_FSPAN, units: U_FRI, f: p_span_fromstr },
        Parser { name: "SignedDuration::from_str", alpha: A_ISO, seeds: S_TDUR, units: U_ISO, f: p_sdur_fromstr },
        Parser { name: "SignedDuration::from_str(friendly)", alpha: A_FRI, seeds: S_FDUR, units: U_FRI, f: p_sdur_fromstr },
        Parser { name: "rfc2822::DateTimeParser::parse_zoned", alpha: A_2822, seeds: S_2822, units: U_2822, f: p_rfc2822_zoned },
        Parser { name: "rfc2822::DateTimeParser::parse_timestamp", alpha: A_2822, seeds: S_2822, units: U_2822, f: p_rfc2822_timestamp },
    ]
}

/// Input class attached to a panic signature. Uses jiff's own lexer and zone
/// lookup only to *name* the class of the input (never as an oracle):
/// N2 = the text denotes, in its zone / offset, an instant with a non-zero
/// fraction inside the second before Timestamp::MIN.
pub fn panic_class(input: &[u8]) -> &'static str {
    if input.is_empty() {
        return "[empty-input]";
    }
    let r = vf::guard(|| -> bool {
        let Ok(p) = temporal::Pieces::parse(input) else { return false };
        let dt = DateTime::from_parts(p.date(), p.time().unwrap_or(Time::midnight()));
        let below = |t: Timestamp| t.as_second() == Timestamp::MIN.as_second() && t.subsec_nanosecond() < 0;
        if let Ok(Some(tz)) = p.to_time_zone() {
            if let Ok(t) = tz.to_ambiguous_timestamp(dt).compatible() {
                if below(t) {
                    return true;
                }
            }
        }
        if let Some(o) = p.to_numeric_offset() {
            if let Ok(t) = o.to_timestamp(dt) {
                return below(t);
            }
        }
        false
    });
    match r {
        Ok(true) => "[fraction!=0,instant-in-the-second-before-Timestamp::MIN]",
        _ => "",
    }
}

pub fn escape(b: &[u8]) -> String {
    let mut s = String::with_capacity(b.len() + 2);
    for &c in b {
        match c {
            b'\\' => s.push_str("\\\\"),
            b'"' => s.push_str("\\\""),
            0x20..=0x7E => s.push(c as char),
            _ => s.push_str(&format!("\\x{:02X}", c)),
        }
    }
    s
}
