//! The text parsers under test: entry points, alphabets, seed corpora and the
//! "Ok values are sane" checks (in range; prints and re-parses to an equal
//! value where the type has a printer; zones answer lookups).

use super::battery;
use super::rfmt;
use jiff::civil::{Date, DateTime, Time};
use jiff::fmt::{friendly, rfc2822, temporal};
use jiff::tz::{Offset, TimeZone};
use jiff::{SignedDuration, Span, Timestamp, Zoned};

pub enum Res {
    Err,
    Ok,
    /// Parsed Ok but the value is not sane: (failure class, detail)
    Bad(String, String),
    /// several distinct failure classes (the lookup battery)
    Many(Vec<(String, String)>),
}

/// How much of the enumeration a table row takes part in.
#[derive(Clone, Copy, PartialEq, Eq, Debug)]
pub enum Level {
    /// short strings, 1- and 2-deviation mutations, anchored tails, field
    /// values, blow-ups
    Full,
    /// 1-deviation mutations, anchored tails, field values and the small
    /// blow-ups only (thin wrappers, option combinations and second alphabets
    /// of a grammar that a `Full` row already enumerates)
    Light,
}

/// An anchored tail enumeration: `prefix + t + suffix` for every string `t`
/// of length <= L over `alpha` (the grammar behind a valid prefix, which the
/// plain short strings never reach).
pub struct Anchor {
    pub prefix: &'static [u8],
    pub alpha: &'static [u8],
    pub suffix: &'static [u8],
    /// tail length bound: (quick, thorough)
    pub len: (usize, usize),
}

pub struct Parser {
    pub name: &'static str,
    pub alpha: &'static [u8],
    pub seeds: &'static [&'static [u8]],
    /// repeated units for the 10^6-byte inputs: (prefix, unit, suffix)
    pub units: &'static [(&'static [u8], &'static [u8], &'static [u8])],
    pub f: fn(&[u8]) -> Res,
    pub level: Level,
    /// length bound of the plain short strings: (quick, thorough)
    pub short_len: (usize, usize),
    pub anchors: &'static [Anchor],
    /// parser calls the row's function makes per input (the allocation bound
    /// of the blow-ups is per call)
    pub calls: u64,
}

static TP: temporal::DateTimeParser = temporal::DateTimeParser::new();
static TPR: temporal::DateTimePrinter = temporal::DateTimePrinter::new();
static TSP: temporal::SpanParser = temporal::SpanParser::new();
static TSPR: temporal::SpanPrinter = temporal::SpanPrinter::new();
static FSP: friendly::SpanParser = friendly::SpanParser::new();
static FSPR: friendly::SpanPrinter = friendly::SpanPrinter::new();
static RP: rfc2822::DateTimeParser = rfc2822::DateTimeParser::new();
static RPR: rfc2822::DateTimePrinter = rfc2822::DateTimePrinter::new();

const NS: i128 = 1_000_000_000;

// ---------------------------------------------------------------------------
// sanity of Ok values
// ---------------------------------------------------------------------------

fn bad(class: impl Into<String>, detail: impl Into<String>) -> Option<(String, String)> {
    Some((class.into(), detail.into()))
}

pub fn chk_date(d: Date) -> Option<(String, String)> {
    if Date::new(d.year(), d.month(), d.day()).ok() != Some(d) || d < Date::MIN || d > Date::MAX {
        return bad("ok-value-out-of-range:Date", format!("{:?}", d));
    }
    match d.to_string().parse::<Date>() {
        Ok(b) if b == d => None,
        other => bad("ok-value-reparse:Date", format!("{:?} printed {:?} re-parsed {:?}", d, d.to_string(), other)),
    }
}

pub fn chk_time(t: Time) -> Option<(String, String)> {
    if Time::new(t.hour(), t.minute(), t.second(), t.subsec_nanosecond()).ok() != Some(t) {
        return bad("ok-value-out-of-range:Time", format!("{:?}", t));
    }
    match t.to_string().parse::<Time>() {
        Ok(b) if b == t => None,
        other => bad("ok-value-reparse:Time", format!("{:?} printed {:?} re-parsed {:?}", t, t.to_string(), other)),
    }
}

pub fn chk_datetime(dt: DateTime) -> Option<(String, String)> {
    if let Some(x) = chk_date(dt.date()) {
        return Some(x);
    }
    if let Some(x) = chk_time(dt.time()) {
        return Some(x);
    }
    match dt.to_string().parse::<DateTime>() {
        Ok(b) if b == dt => None,
        other => bad("ok-value-reparse:DateTime", format!("{:?} printed {:?} re-parsed {:?}", dt, dt.to_string(), other)),
    }
}

pub fn chk_offset(o: Offset) -> Option<(String, String)> {
    if o.seconds().abs() > 93_599 {
        return bad("ok-value-out-of-range:Offset", format!("{:?}", o));
    }
    None
}

/// The F13 input classes (see C09), here computed from what the *input text*
/// says when the independent reader can read it, else "unclassified".
fn f13_from_input(input: &[u8]) -> &'static str {
    if let Ok(st) = std::str::from_utf8(input) {
        let core = st.split('[').next().unwrap_or(st);
        if let Ok(rd) = rfmt::read_full(core, true, false) {
            if let (Some(c), Some(i)) = (rd.civil_ns(), rd.instant_ns()) {
                return f13_of(c, i);
            }
        }
    }
    // forms the small reader does not know (basic format, hour-only offsets):
    // let jiff split the text into pieces, only to name the class
    match temporal::Pieces::parse(input) {
        Ok(p) => {
            let dt = DateTime::from_parts(p.date(), p.time().unwrap_or(Time::midnight()));
            let off = p.to_numeric_offset().map(|o| o.seconds() as i128).unwrap_or(0);
            let c = civil_ns(dt);
            f13_of(c, c - off * NS)
        }
        Err(_) => "[unclassified-input]",
    }
}

fn f13_of(civil_ns: i128, inst_ns: i128) -> &'static str {
    if inst_ns.rem_euclid(NS) == 0 {
        ""
    } else if civil_ns < 0 && inst_ns >= 0 {
        "[text-date<1970,fraction!=0,instant>=epoch]"
    } else if civil_ns >= 0 && inst_ns < 0 {
        "[text-date>=1970,fraction!=0,instant<epoch]"
    } else {
        ""
    }
}

pub fn chk_timestamp(ts: Timestamp, input: &[u8]) -> Option<(String, String)> {
    let ns = ts.as_nanosecond();
    if ts < Timestamp::MIN || ts > Timestamp::MAX || ns < Timestamp::MIN.as_nanosecond() || ns > Timestamp::MAX.as_nanosecond() {
        // input class N2: a non-zero fraction inside the second before Timestamp::MIN
        let cls = if ts.as_second() == Timestamp::MIN.as_second() && ts.subsec_nanosecond() < 0 { "[fraction!=0,instant-in-the-second-before-Timestamp::MIN]" } else { "" };
        return bad(format!("ok-value-out-of-range:Timestamp{}", cls), format!("{:?}: second={} subsec_nanosecond={}", ts, ts.as_second(), ts.subsec_nanosecond()));
    }
    let norm = Timestamp::from_nanosecond(ns).unwrap();
    if norm != ts || (ts.as_second() > 0 && ts.subsec_nanosecond() < 0) || (ts.as_second() < 0 && ts.subsec_nanosecond() > 0) {
        return bad(
            format!("ok-value-denormalised:Timestamp{}", f13_from_input(input)),
            format!("second={} subsec_nanosecond={} compares != to Timestamp::from_nanosecond({})", ts.as_second(), ts.subsec_nanosecond(), ns),
        );
    }
    match ts.to_string().parse::<Timestamp>() {
        Ok(b) if b == ts => None,
        other => bad("ok-value-reparse:Timestamp", format!("{:?} printed {:?} re-parsed {:?}", ts, ts.to_string(), other)),
    }
}

pub fn civil_ns(dt: DateTime) -> i128 {
    vf::conv::dt_civil_ns(dt)
}

pub fn chk_zoned(z: &Zoned) -> Option<(String, String)> {
    let ts = z.timestamp();
    let ns = ts.as_nanosecond();
    // input class, computed from the parsed value (a function of the input)
    let f13 = f13_of(civil_ns(z.datetime()), ns);
    if ts < Timestamp::MIN || ts > Timestamp::MAX {
        let cls = if ts.as_second() == Timestamp::MIN.as_second() && ts.subsec_nanosecond() < 0 { "[fraction!=0,instant-in-the-second-before-Timestamp::MIN]" } else { "" };
        return bad(format!("ok-value-out-of-range:Zoned{}", cls), format!("timestamp second={} subsec_nanosecond={}", ts.as_second(), ts.subsec_nanosecond()));
    }
    if Timestamp::from_nanosecond(ns).unwrap() != ts {
        return bad(
            format!("ok-value-denormalised:Zoned{}", f13),
            format!("{:?}: timestamp second={} subsec_nanosecond={}", z, ts.as_second(), ts.subsec_nanosecond()),
        );
    }
    if let Some(x) = chk_datetime(z.datetime()) {
        return Some(x);
    }
    if let Some(x) = chk_offset(z.offset()) {
        return Some(x);
    }
    let tz = z.time_zone();
    let fixed = tz.to_fixed_offset().ok();
    if tz.iana_name().is_none() && fixed.is_none() {
        // POSIX or anonymous zones: no round trip promised
        return None;
    }
    if let Some(o) = fixed {
        if o.seconds() % 60 != 0 {
            // sub-minute fixed offsets are printed rounded (documented); only
            // printing without panicking is demanded
            let _ = z.to_string();
            return None;
        }
    }
    let text = z.to_string();
    // class of the value: inside a fold / sub-minute offsets (F3 of C09)
    let amb = tz.to_ambiguous_timestamp(z.datetime());
    let (fold, submin) = match amb.offset() {
        jiff::tz::AmbiguousOffset::Fold { before, after } => (true, before.seconds() % 60 != 0 || after.seconds() % 60 != 0),
        _ => (false, z.offset().seconds() % 60 != 0),
    };
    let cls = format!("{}{}{}", if fold { "[fold]" } else { "" }, if submin { "[subminute-offset]" } else { "" }, f13);
    match text.parse::<Zoned>() {
        Ok(b) => {
            if b.timestamp().as_nanosecond() != ns || b.offset() != z.offset() || !tz_same(b.time_zone(), tz) || b.timestamp() != ts {
                bad(format!("ok-value-reparse:Zoned{}", cls), format!("{:?} ({} ns) printed {:?} re-parsed {:?} ({} ns)", z, ns, text, b, b.timestamp().as_nanosecond()))
            } else {
                None
            }
        }
        Err(e) => bad(format!("ok-value-reparse-error:Zoned{}", cls), format!("{:?} printed {:?}: {}", z, text, e)),
    }
}

const SPAN_LIMITS: [i64; 10] = [
    19_998,
    239_976,
    1_043_497,
    7_304_484,
    175_307_616,
    10_518_456_960,
    631_107_417_600,
    631_107_417_600_000,
    631_107_417_600_000_000,
    i64::MAX,
];

pub fn span_fields(s: &Span) -> [i64; 10] {
    [
        s.get_years() as i64,
        s.get_months() as i64,
        s.get_weeks() as i64,
        s.get_days() as i64,
        s.get_hours() as i64,
        s.get_minutes(),
        s.get_seconds(),
        s.get_milliseconds(),
        s.get_microseconds(),
        s.get_nanoseconds(),
    ]
}

pub fn chk_span_range(s: &Span) -> Option<(String, String)> {
    let f = span_fields(s);
    let mut pos = false;
    let mut neg = false;
    for (i, &v) in f.iter().enumerate() {
        if v.checked_abs().map(|a| a > SPAN_LIMITS[i]).unwrap_or(true) {
            return bad("ok-value-out-of-range:Span", format!("{:?} field {} = {}", s, i, v));
        }
        pos |= v > 0;
        neg |= v < 0;
    }
    if pos && neg {
        return bad("ok-value-mixed-signs:Span", format!("{:?}", f));
    }
    if s.signum() as i64 != (pos as i64 - neg as i64) {
        return bad("ok-value-sign:Span", format!("{:?} signum {}", f, s.signum()));
    }
    None
}

/// Equality of spans as values: the calendar fields one by one, the clock
/// fields by their exact total (the ISO 8601 form has no designator below the
/// second, so `1000ms` legitimately prints as `PT1S`).
pub fn span_same_value(a: &Span, b: &Span) -> bool {
    let (fa, fb) = (span_fields(a), span_fields(b));
    let clock = |f: &[i64; 10]| -> i128 {
        f[4] as i128 * 3_600_000_000_000 + f[5] as i128 * 60_000_000_000 + f[6] as i128 * 1_000_000_000 + f[7] as i128 * 1_000_000 + f[8] as i128 * 1_000 + f[9] as i128
    };
    fa[..4] == fb[..4] && clock(&fa) == clock(&fb)
}

pub fn chk_sdur_range(d: SignedDuration) -> Option<(String, String)> {
    let (s, n) = (d.as_secs(), d.subsec_nanos());
    if n.abs() >= 1_000_000_000 || (s > 0 && n < 0) || (s < 0 && n > 0) {
        return bad("ok-value-out-of-range:SignedDuration", format!("secs={} nanos={}", s, n));
    }
    None
}

/// Input class of the POSIX abbreviation printing defect: some abbreviation of
/// the zone contains a digit but neither '+' nor '-' (such an abbreviation can
/// only have been written in the quoted `<...>` form).
fn abbrev_class(tz: &TimeZone) -> &'static str {
    let hit = |a: &str| a.bytes().any(|c| c.is_ascii_digit()) && !a.contains('+') && !a.contains('-');
    let Ok(start) = Timestamp::from_second(1_704_067_200) else { return "" };
    if hit(tz.to_offset_info(start).abbreviation()) {
        return "[abbreviation-with-digit-but-no-sign]";
    }
    // both abbreviations of a POSIX rule show up within its next transitions
    for t in tz.following(start).take(4) {
        if hit(t.abbreviation()) {
            return "[abbreviation-with-digit-but-no-sign]";
        }
    }
    ""
}

/// Equality of zones as values. `TimeZone::get("UTC")` is the built-in UTC
/// while any other spelling ("Utc") loads the file named UTC; jiff's `==`
/// tells those apart although they are the same zone with the same name, so
/// zones with equal IANA names are taken as equal here.
fn tz_same(a: &TimeZone, b: &TimeZone) -> bool {
    a == b || (a.iana_name().is_some() && a.iana_name() == b.iana_name())
}

fn chk_tz(tz: &TimeZone, reparse: fn(&str) -> Result<TimeZone, jiff::Error>) -> Res {
    let mut v = vec![];
    match TPR.time_zone_to_string(tz) {
        Err(_) => {}
        Ok(text) => match reparse(&text) {
            Ok(b) if tz_same(&b, tz) => {}
            other => v.push((
                format!("ok-value-reparse:TimeZone{}", abbrev_class(tz)),
                format!("{:?} printed {:?} re-parsed {:?}", tz, text, other.map(|_| "a different zone").map_err(|e| e.to_string())),
            )),
        },
    }
    v.extend(battery::battery(tz, &[], false));
    if v.is_empty() {
        Res::Ok
    } else {
        Res::Many(v)
    }
}

// ---------------------------------------------------------------------------
// entry points
// ---------------------------------------------------------------------------

fn wrap(x: Option<(String, String)>) -> Res {
    match x {
        None => Res::Ok,
        Some((c, d)) => Res::Bad(c, d),
    }
}

fn p_zoned(i: &[u8]) -> Res {
    match TP.parse_zoned(i) {
        Err(_) => Res::Err,
        Ok(z) => wrap(chk_zoned(&z)),
    }
}
fn p_timestamp(i: &[u8]) -> Res {
    match TP.parse_timestamp(i) {
        Err(_) => Res::Err,
        Ok(t) => wrap(chk_timestamp(t, i)),
    }
}
fn p_datetime(i: &[u8]) -> Res {
    match TP.parse_datetime(i) {
        Err(_) => Res::Err,
        Ok(t) => wrap(chk_datetime(t)),
    }
}
fn p_date(i: &[u8]) -> Res {
    match TP.parse_date(i) {
        Err(_) => Res::Err,
        Ok(t) => wrap(chk_date(t)),
    }
}
fn p_time(i: &[u8]) -> Res {
    match TP.parse_time(i) {
        Err(_) => Res::Err,
        Ok(t) => wrap(chk_time(t)),
    }
}
fn p_pieces(i: &[u8]) -> Res {
    let p = match TP.parse_pieces(i) {
        Err(_) => return Res::Err,
        Ok(p) => p,
    };
    if let Some(x) = chk_date(p.date()) {
        return wrap(Some(x));
    }
    if let Some(t) = p.time() {
        if let Some(x) = chk_time(t) {
            return wrap(Some(x));
        }
    }
    let off = p.to_numeric_offset();
    if let Some(o) = off {
        if let Some(x) = chk_offset(o) {
            return wrap(Some(x));
        }
    }
    let _ = p.to_time_zone();
    let _ = p.to_time_zone_with(bundled_db());
    let _ = p.to_time_zone_with(&NO_DB);
    match p.offset() {
        None => {}
        Some(temporal::PiecesOffset::Zulu) => {
            if off != Some(Offset::UTC) {
                return Res::Bad("ok-value-inconsistent:Pieces".into(), format!("offset() is Zulu but to_numeric_offset() is {:?}", off));
            }
        }
        Some(temporal::PiecesOffset::Numeric(n)) => {
            if Some(n.offset()) != off || (n.is_negative() && n.offset().seconds() > 0) || (!n.is_negative() && n.offset().seconds() < 0) {
                return Res::Bad("ok-value-inconsistent:Pieces".into(), format!("offset() {:?} (is_negative {}) vs to_numeric_offset() {:?}", n.offset(), n.is_negative(), off));
            }
        }
        Some(_) => {}
    }
    // (`Pieces ==` tells a borrowed annotation name from an owned one, so the
    // owned copy is only exercised, not compared)
    let _ = p.clone().into_owned().to_string();
    let mut ann_off = None;
    if let Some(a) = p.time_zone_annotation() {
        let _ = a.is_critical();
        let _ = a.to_time_zone_with(bundled_db());
        let _ = a.to_time_zone_with(&NO_DB);
        if let temporal::TimeZoneAnnotationKind::Offset(o) = a.kind() {
            ann_off = Some(*o);
            if let Some(x) = chk_offset(*o) {
                return wrap(Some(x));
            }
        }
        let _ = a.to_time_zone();
    }
    let text = p.to_string();
    let whole = off.map(|o| o.seconds() % 60 == 0).unwrap_or(true) && ann_off.map(|o| o.seconds() % 60 == 0).unwrap_or(true);
    let big = |o: Option<Offset>| o.map(|o| o.seconds().abs() >= 25 * 3600 + 59 * 60 + 30).unwrap_or(false);
    let cls = if big(off) || big(ann_off) { "[|offset|>=25:59:30]" } else if whole { "" } else { "[subminute-offset]" };
    match temporal::Pieces::parse(&text) {
        Ok(b) => {
            if whole && b != p {
                return Res::Bad("ok-value-reparse:Pieces".into(), format!("{:?} printed {:?} re-parsed {:?}", p, text, b));
            }
            Res::Ok
        }
        Err(e) => Res::Bad(format!("ok-value-reparse-error:Pieces{}", cls), format!("{:?} printed {:?}: {}", p, text, e)),
    }
}
fn reparse_tz(s: &str) -> Result<TimeZone, jiff::Error> {
    TP.parse_time_zone(s)
}
fn p_time_zone(i: &[u8]) -> Res {
    match TP.parse_time_zone(i) {
        Err(_) => Res::Err,
        Ok(tz) => chk_tz(&tz, reparse_tz),
    }
}
fn reparse_posix(s: &str) -> Result<TimeZone, jiff::Error> {
    TimeZone::posix(s)
}
fn p_posix(i: &[u8]) -> Res {
    let Ok(s) = std::str::from_utf8(i) else { return Res::Err };
    match TimeZone::posix(s) {
        Err(_) => Res::Err,
        Ok(tz) => chk_tz(&tz, reparse_posix),
    }
}
fn p_tspan(i: &[u8]) -> Res {
    match TSP.parse_span(i) {
        Err(_) => Res::Err,
        Ok(s) => {
            if let Some(x) = chk_span_range(&s) {
                return wrap(Some(x));
            }
            let text = TSPR.span_to_string(&s);
            match TSP.parse_span(&text) {
                Ok(b) if b.fieldwise() == s.fieldwise() || span_same_value(&b, &s) => Res::Ok,
                other => Res::Bad("ok-value-reparse:Span".into(), format!("{:?} printed {:?} re-parsed {:?}", s, text, other)),
            }
        }
    }
}
fn p_tdur(i: &[u8]) -> Res {
    match TSP.parse_duration(i) {
        Err(_) => Res::Err,
        Ok(d) => {
            if let Some(x) = chk_sdur_range(d) {
                return wrap(Some(x));
            }
            let text = TSPR.duration_to_string(&d);
            match TSP.parse_duration(&text) {
                Ok(b) if b == d => Res::Ok,
                other => Res::Bad("ok-value-reparse:SignedDuration".into(), format!("{:?} printed {:?} re-parsed {:?}", d, text, other)),
            }
        }
    }
}
fn p_fspan(i: &[u8]) -> Res {
    match FSP.parse_span(i) {
        Err(_) => Res::Err,
        Ok(s) => {
            if let Some(x) = chk_span_range(&s) {
                return wrap(Some(x));
            }
            let text = FSPR.span_to_string(&s);
            match FSP.parse_span(&text) {
                Ok(b) if b.fieldwise() == s.fieldwise() || span_same_value(&b, &s) => Res::Ok,
                other => Res::Bad("ok-value-reparse:Span".into(), format!("{:?} printed {:?} re-parsed {:?}", s, text, other)),
            }
        }
    }
}
fn p_fdur(i: &[u8]) -> Res {
    match FSP.parse_duration(i) {
        Err(_) => Res::Err,
        Ok(d) => {
            if let Some(x) = chk_sdur_range(d) {
                return wrap(Some(x));
            }
            let text = FSPR.duration_to_string(&d);
            match FSP.parse_duration(&text) {
                Ok(b) if b == d => Res::Ok,
                other => Res::Bad("ok-value-reparse:SignedDuration".into(), format!("{:?} printed {:?} re-parsed {:?}", d, text, other)),
            }
        }
    }
}
/// `FromStr for Span` is documented to pick the ISO 8601 parser when the text
/// (after an optional sign) starts with `P`/`p` and the friendly parser
/// otherwise; the two grammars are disjoint, so the trait implementation must
/// accept exactly what one of the two parsers accepts, with an equal value.
fn p_span_fromstr(i: &[u8]) -> Res {
    let Ok(s) = std::str::from_utf8(i) else { return Res::Err };
    let a = s.parse::<Span>();
    let b = match TSP.parse_span(i) {
        Ok(x) => Ok(x),
        Err(_) => FSP.parse_span(i),
    };
    match (&a, &b) {
        (Err(_), Err(_)) => return Res::Err,
        (Ok(x), Ok(y)) if x.fieldwise() == y.fieldwise() => {}
        _ => return differs("temporal/friendly SpanParser::parse_span", &a, &b),
    }
    let sp = a.unwrap();
    if let Some(x) = chk_span_range(&sp) {
        return wrap(Some(x));
    }
    // Display is the ISO form, which folds sub-second units into
    // seconds; only demand that it parses again.
    let text = sp.to_string();
    match text.parse::<Span>() {
        Ok(_) => Res::Ok,
        Err(e) => Res::Bad("ok-value-reparse-error:Span".into(), format!("{:?} printed {:?}: {}", sp, text, e)),
    }
}
fn p_sdur_fromstr(i: &[u8]) -> Res {
    let Ok(s) = std::str::from_utf8(i) else { return Res::Err };
    let a = s.parse::<SignedDuration>();
    let b = match TSP.parse_duration(i) {
        Ok(x) => Ok(x),
        Err(_) => FSP.parse_duration(i),
    };
    match (&a, &b) {
        (Err(_), Err(_)) => return Res::Err,
        (Ok(x), Ok(y)) if x == y => {}
        _ => return differs("temporal/friendly SpanParser::parse_duration", &a, &b),
    }
    let d = a.unwrap();
    if let Some(x) = chk_sdur_range(d) {
        return wrap(Some(x));
    }
    let text = d.to_string();
    match text.parse::<SignedDuration>() {
        Ok(b) if b == d => Res::Ok,
        other => Res::Bad("ok-value-reparse:SignedDuration".into(), format!("{:?} printed {:?} re-parsed {:?}", d, text, other)),
    }
}
/// Reference acceptor for the one place RFC 2822 input may contain a comment
/// (after the zone): from the first `(`, parentheses - minus backslash-quoted
/// bytes - must balance, with an unbounded depth counter. Returns false when
/// the comment is never closed.
fn rfc2822_comment_closed(i: &[u8]) -> bool {
    let Some(start) = i.iter().position(|&b| b == b'(') else { return true };
    let mut depth: usize = 0;
    let mut escape = false;
    for &b in &i[start..] {
        if escape {
            escape = false;
        } else if b == b'\\' {
            escape = true;
        } else if b == b'(' {
            depth += 1;
        } else if b == b')' {
            depth -= 1;
            if depth == 0 {
                return true;
            }
        }
    }
    false
}
fn p_rfc2822_zoned(i: &[u8]) -> Res {
    match RP.parse_zoned(i) {
        Err(_) => Res::Err,
        Ok(z) => chk_rfc2822_zoned(i, &z),
    }
}
fn chk_rfc2822_zoned(i: &[u8], z: &Zoned) -> Res {
    if !rfc2822_comment_closed(i) {
        return Res::Bad("ok-unclosed-comment:Zoned(rfc2822)".into(), format!("{:?} from input with an unclosed comment", z));
    }
    let ts = z.timestamp();
    if Timestamp::from_nanosecond(ts.as_nanosecond()).ok() != Some(ts) {
        return Res::Bad(format!("ok-value-denormalised:Zoned{}", f13_of(civil_ns(z.datetime()), ts.as_nanosecond())), format!("{:?}", z));
    }
    if let Some(x) = chk_datetime(z.datetime()).or_else(|| chk_offset(z.offset())) {
        return wrap(Some(x));
    }
    match RPR.zoned_to_string(z) {
        // RFC 2822 cannot express every year / offset; an error is fine
        Err(_) => Res::Ok,
        Ok(text) => match RP.parse_zoned(&text) {
            Ok(b) if b.timestamp() == ts && b.offset() == z.offset() => Res::Ok,
            other => Res::Bad("ok-value-reparse:Zoned(rfc2822)".into(), format!("{:?} printed {:?} re-parsed {:?}", z, text, other)),
        },
    }
}
fn p_rfc2822_timestamp(i: &[u8]) -> Res {
    match RP.parse_timestamp(i) {
        Err(_) => Res::Err,
        Ok(ts) => chk_rfc2822_timestamp(i, ts),
    }
}
fn chk_rfc2822_timestamp(i: &[u8], ts: Timestamp) -> Res {
    if !rfc2822_comment_closed(i) {
        return Res::Bad("ok-unclosed-comment:Timestamp(rfc2822)".into(), format!("{:?} from input with an unclosed comment", ts));
    }
    if Timestamp::from_nanosecond(ts.as_nanosecond()).ok() != Some(ts) || ts < Timestamp::MIN || ts > Timestamp::MAX {
        return Res::Bad("ok-value-denormalised:Timestamp".into(), format!("second={} subsec={}", ts.as_second(), ts.subsec_nanosecond()));
    }
    match RPR.timestamp_to_string(&ts) {
        Err(_) => Res::Ok,
        Ok(text) => match RP.parse_timestamp(&text) {
            Ok(b) if b == ts => Res::Ok,
            other => Res::Bad("ok-value-reparse:Timestamp(rfc2822)".into(), format!("{:?} printed {:?} re-parsed {:?}", ts, text, other)),
        },
    }
}

// ---------------------------------------------------------------------------
// FromStr of the datetime types: the documented behaviour is "the default
// `DateTimeParser`", so the trait implementation must agree with it on every
// input (same Ok/Err, equal value), and the value must be sane.
// ---------------------------------------------------------------------------

fn differs<T: std::fmt::Debug>(what: &str, a: &Result<T, jiff::Error>, b: &Result<T, jiff::Error>) -> Res {
    let show = |r: &Result<T, jiff::Error>| match r {
        Ok(v) => format!("Ok({:?})", v),
        Err(e) => format!("Err({})", e),
    };
    Res::Bad(format!("differs-from-{}", what), format!("this entry point: {}; {}: {}", show(a), what, show(b)))
}

fn p_zoned_fromstr(i: &[u8]) -> Res {
    let Ok(s) = std::str::from_utf8(i) else { return Res::Err };
    let (a, b) = (s.parse::<Zoned>(), TP.parse_zoned(i));
    match (&a, &b) {
        (Err(_), Err(_)) => Res::Err,
        (Ok(x), Ok(y)) if x == y && x.offset() == y.offset() => wrap(chk_zoned(x)),
        _ => differs("DateTimeParser::parse_zoned", &a, &b),
    }
}
fn p_timestamp_fromstr(i: &[u8]) -> Res {
    let Ok(s) = std::str::from_utf8(i) else { return Res::Err };
    let (a, b) = (s.parse::<Timestamp>(), TP.parse_timestamp(i));
    match (&a, &b) {
        (Err(_), Err(_)) => Res::Err,
        (Ok(x), Ok(y)) if x == y => wrap(chk_timestamp(*x, i)),
        _ => differs("DateTimeParser::parse_timestamp", &a, &b),
    }
}
fn p_datetime_fromstr(i: &[u8]) -> Res {
    let Ok(s) = std::str::from_utf8(i) else { return Res::Err };
    let (a, b) = (s.parse::<DateTime>(), TP.parse_datetime(i));
    match (&a, &b) {
        (Err(_), Err(_)) => Res::Err,
        (Ok(x), Ok(y)) if x == y => wrap(chk_datetime(*x)),
        _ => differs("DateTimeParser::parse_datetime", &a, &b),
    }
}
fn p_date_fromstr(i: &[u8]) -> Res {
    let Ok(s) = std::str::from_utf8(i) else { return Res::Err };
    let (a, b) = (s.parse::<Date>(), TP.parse_date(i));
    match (&a, &b) {
        (Err(_), Err(_)) => Res::Err,
        (Ok(x), Ok(y)) if x == y => wrap(chk_date(*x)),
        _ => differs("DateTimeParser::parse_date", &a, &b),
    }
}
fn p_time_fromstr(i: &[u8]) -> Res {
    let Ok(s) = std::str::from_utf8(i) else { return Res::Err };
    let (a, b) = (s.parse::<Time>(), TP.parse_time(i));
    match (&a, &b) {
        (Err(_), Err(_)) => Res::Err,
        (Ok(x), Ok(y)) if x == y => wrap(chk_time(*x)),
        _ => differs("DateTimeParser::parse_time", &a, &b),
    }
}

// ---------------------------------------------------------------------------
// DateTimeParser options: every offset-conflict x disambiguation strategy
// ---------------------------------------------------------------------------

use jiff::tz::{Disambiguation as Dis, OffsetConflict as Oc};
const OCS: [(Oc, &str); 4] = [(Oc::AlwaysOffset, "AlwaysOffset"), (Oc::AlwaysTimeZone, "AlwaysTimeZone"), (Oc::PreferOffset, "PreferOffset"), (Oc::Reject, "Reject")];
const DISS: [(Dis, &str); 4] = [(Dis::Compatible, "Compatible"), (Dis::Earlier, "Earlier"), (Dis::Later, "Later"), (Dis::Reject, "Reject")];

fn p_zoned_options(i: &[u8]) -> Res {
    let mut v = vec![];
    let mut any_ok = false;
    for (oc, ocn) in OCS {
        for (dis, disn) in DISS {
            let p = temporal::DateTimeParser::new().offset_conflict(oc).disambiguation(dis);
            if let Ok(z) = p.parse_zoned(i) {
                any_ok = true;
                if let Some((c, d)) = chk_zoned(&z) {
                    v.push((format!("{}[offset_conflict={},disambiguation={}]", c, ocn, disn), d));
                }
            }
        }
    }
    if !v.is_empty() {
        Res::Many(v)
    } else if any_ok {
        Res::Ok
    } else {
        Res::Err
    }
}

// ---------------------------------------------------------------------------
// the `_with(db)` entry points: the bundled database and the empty one
// ---------------------------------------------------------------------------

fn bundled_db() -> &'static jiff::tz::TimeZoneDatabase {
    static DB: std::sync::OnceLock<jiff::tz::TimeZoneDatabase> = std::sync::OnceLock::new();
    DB.get_or_init(jiff::tz::TimeZoneDatabase::bundled)
}
static NO_DB: jiff::tz::TimeZoneDatabase = jiff::tz::TimeZoneDatabase::none();

/// the sanity of a Zoned whose zone came from `db`: in range, normalised,
/// prints, and the printed form parses back (with the same database) to the
/// same instant, offset and zone name
fn chk_zoned_with(db: &jiff::tz::TimeZoneDatabase, z: &Zoned) -> Option<(String, String)> {
    let ts = z.timestamp();
    if ts < Timestamp::MIN || ts > Timestamp::MAX || Timestamp::from_nanosecond(ts.as_nanosecond()).ok() != Some(ts) {
        return bad("ok-value-out-of-range:Zoned", format!("timestamp second={} subsec_nanosecond={}", ts.as_second(), ts.subsec_nanosecond()));
    }
    if let Some(x) = chk_datetime(z.datetime()).or_else(|| chk_offset(z.offset())) {
        return Some(x);
    }
    let tz = z.time_zone();
    let fixed = tz.to_fixed_offset().ok();
    if (tz.iana_name().is_none() && fixed.is_none()) || fixed.map(|o| o.seconds() % 60 != 0).unwrap_or(false) {
        let _ = z.to_string();
        return None;
    }
    let text = z.to_string();
    match TP.parse_zoned_with(db, &text) {
        Ok(b) if b.timestamp() == ts && b.offset() == z.offset() && b.time_zone().iana_name() == tz.iana_name() => None,
        other => bad("ok-value-reparse:Zoned", format!("{:?} printed {:?} re-parsed {:?}", z, text, other.map_err(|e| e.to_string()))),
    }
}

fn p_zoned_with(i: &[u8]) -> Res {
    // the empty database: named zones cannot resolve; must not panic, and a
    // fixed-offset result must still be sane
    if let Ok(z) = TP.parse_zoned_with(&NO_DB, i) {
        if let Some((c, d)) = chk_zoned_with(&NO_DB, &z) {
            return Res::Bad(format!("{}[TimeZoneDatabase::none]", c), d);
        }
    }
    match TP.parse_zoned_with(bundled_db(), i) {
        Err(_) => Res::Err,
        Ok(z) => wrap(chk_zoned_with(bundled_db(), &z)),
    }
}
fn reparse_tz_bundled(s: &str) -> Result<TimeZone, jiff::Error> {
    TP.parse_time_zone_with(bundled_db(), s)
}
fn p_time_zone_with(i: &[u8]) -> Res {
    if let Ok(tz) = TP.parse_time_zone_with(&NO_DB, i) {
        let v = battery::battery(&tz, &[], false);
        if !v.is_empty() {
            return Res::Many(v.into_iter().map(|(c, d)| (format!("{}[TimeZoneDatabase::none]", c), d)).collect());
        }
    }
    match TP.parse_time_zone_with(bundled_db(), i) {
        Err(_) => Res::Err,
        Ok(tz) => chk_tz(&tz, reparse_tz_bundled),
    }
}

// ---------------------------------------------------------------------------
// RFC 2822: the free function and the relaxed-weekday parser
// ---------------------------------------------------------------------------

static RPX: rfc2822::DateTimeParser = rfc2822::DateTimeParser::new().relaxed_weekday(true);

fn p_rfc2822_parse(i: &[u8]) -> Res {
    let Ok(s) = std::str::from_utf8(i) else { return Res::Err };
    let (a, b) = (rfc2822::parse(s), RP.parse_zoned(i));
    match (&a, &b) {
        (Err(_), Err(_)) => Res::Err,
        (Ok(x), Ok(y)) if x == y && x.offset() == y.offset() => chk_rfc2822_zoned(i, x),
        _ => differs("rfc2822::DateTimeParser::parse_zoned", &a, &b),
    }
}
fn p_rfc2822_relaxed_zoned(i: &[u8]) -> Res {
    let (a, b) = (RPX.parse_zoned(i), RP.parse_zoned(i));
    match (&a, &b) {
        (Err(_), Err(_)) => Res::Err,
        // documented: the only difference is that a weekday that does not
        // match the date is not an error
        (Err(_), Ok(_)) => differs("strict parse_zoned (which accepted)", &a, &b),
        (Ok(x), Ok(y)) if !(x == y && x.offset() == y.offset()) => differs("strict parse_zoned", &a, &b),
        (Ok(x), _) => chk_rfc2822_zoned(i, x),
    }
}
fn p_rfc2822_relaxed_timestamp(i: &[u8]) -> Res {
    let (a, b) = (RPX.parse_timestamp(i), RP.parse_timestamp(i));
    match (&a, &b) {
        (Err(_), Err(_)) => Res::Err,
        (Err(_), Ok(_)) => differs("strict parse_timestamp (which accepted)", &a, &b),
        (Ok(x), Ok(y)) if x != y => differs("strict parse_timestamp", &a, &b),
        (Ok(x), _) => chk_rfc2822_timestamp(i, *x),
    }
}

// ---------------------------------------------------------------------------
// alphabets and seeds
// ---------------------------------------------------------------------------

const A_DT: &[u8] = b"019-:TZ+.[]/A \x00\xFF";
const A_TZ: &[u8] = b"019+-:/AUC,.MJ<\xFF";
const A_ISO: &[u8] = b"019PTYMDHS.,-+W\xFF";
const A_FRI: &[u8] = b"019ymodhs ,.:-ag\xFF";
const A_2822: &[u8] = b"019SatJn, :+-(G\xFF";
const A_POSIX: &[u8] = b"019A<>+-,MJ./:\x00\xC3";

const S_ZONED: &[&[u8]] = &[
    b"2024-03-10T01:59:59-05:00[America/New_York]",
    b"2024-03-10T03:00:00-04:00[America/New_York]",
    b"2024-11-03T01:30:00-04:00[America/New_York]",
    b"2024-11-03T01:30:00-05:00[America/New_York]",
    b"2024-06-15T07:00:00.123456789-04:00[America/New_York]",
    b"2024-06-15T07:00-04[America/New_York]",
    b"2024-06-15 07:00:00-04:00[America/New_York]",
    b"2024-06-15t07:00:00-04:00[america/new_york]",
    b"20240615T070000-0400[America/New_York]",
    b"2024-06-15T07:00:00[America/New_York]",
    b"2024-06-15[America/New_York]",
    b"2024-06-15T07:00:00Z[America/New_York]",
    b"2024-06-15T11:00:00+00:00[UTC]",
    b"2024-06-15T11Z[UTC]",
    b"2024-06-15T16:30:00+05:30[+05:30]",
    b"2024-06-15T16:30:00+05:30[!+05:30]",
    b"2024-06-15T07:00:00-04:00[!America/New_York]",
    b"2024-06-15T07:00:00-04:00[America/New_York][u-ca=iso8601]",
    b"2024-06-15T07:00:00-04:00[America/New_York][foo=bar]",
    b"1919-02-28T23:59:00-00:43[Africa/Monrovia]",
    b"1919-03-01T00:00:00-00:44:30[Africa/Monrovia]",
    b"1968-02-01T23:15:00-00:45[Africa/Monrovia]",
    b"-009999-01-02T01:59:59+00:00[UTC]",
    b"9999-12-30T22:00:00.999999999+00:00[UTC]",
    b"9999-12-31T23:59:00.999999999+25:59[+25:59]",
    b"-009999-01-01T00:00:59-25:59[-25:59]",
    b"-009999-01-02T01:59:59.5+00:00[UTC]",
    b"-009999-01-01T18:07:01.5-07:53[America/Los_Angeles]",
    b"-009999-01-02T01:58:44.5-00:01[Europe/London]",
    b"9999-12-30T22:00:00.5+00:00[UTC]",
    b"2024-02-29T23:59:60-05:00[America/New_York]",
    b"2024-06-15T07:00:00,5-04:00[America/New_York]",
    b"2011-12-29T23:59:59-10:00[Pacific/Apia]",
    b"2011-12-31T00:00:00+14:00[Pacific/Apia]",
    b"2024-04-07T01:45:00+10:30[Australia/Lord_Howe]",
    b"2024-04-07T01:45:00+11:00[Australia/Lord_Howe]",
    b"1969-12-31T19:00:00.000000001-05:00[America/New_York]",
    b"1970-01-01T01:00:00-05:00[EST]",
    b"2024-01-01T00:00:00+00:00[Etc/GMT]",
    b"2024-06-15T07:00:00+05:45[Asia/Kathmandu]",
    b"+002024-06-15T07:00:00-04:00[America/New_York]",
    b"0000-01-01T00:00:00+00:00[UTC]",
    b"2024-06-15T07:00:00-04:00[America/New_York][u-ca=iso8601][foo=bar-baz]",
    b"2024-06-15T07:00:00-04:00[America/New_York][_a1-b=x1]",
    b"2024-06-15T07:00:00+00[UTC]",
    b"2024-06-15T07:00:00-00:00[UTC]",
    b"2024-06-15T07:00:00.1-04:00[America/New_York]",
    b"2024-03-10T02:30:00[America/New_York]",
    b"2024-11-03T01:30:00[America/New_York]",
    b"2024-06-15T07:00:00z[UTC]",
    b"2024-06-15T03:00:00-08:00[!-08:00]",
    b"2024-06-15T21:00:00+14:00[Etc/GMT-14]",
    b"2024-06-15T16:30:00+05:30:00.4[+05:30]",
    b"2024-06-15T07:00:00-03:59:59.5[America/New_York]",
];

const S_TIMESTAMP: &[&[u8]] = &[
    b"1970-01-01T00:00:00Z",
    b"1970-01-01T00:00:00.000000001Z",
    b"1969-12-31T23:59:59.999999999Z",
    b"2024-06-15T07:00:00-04:00",
    b"2024-06-15T07:00:00.5-04:00",
    b"2024-06-15T07:00-04",
    b"2024-06-15 07:00:00+05:30",
    b"2024-06-15t07:00:00z",
    b"20240615T070000Z",
    b"20240615T07Z",
    b"2024-06-15T07:00:00-04:00[America/New_York]",
    b"2024-06-15T07:00:00+00:00[Europe/Nowhere]",
    b"2024-06-15T07:00:00-00:00",
    b"2024-06-15T07:00:00+25:59:59",
    b"2024-06-15T07:00:00-25:59:59",
    b"2024-06-15T07:00:00+05:30:15",
    b"2024-06-15T07:00:00.123456789+0530",
    b"-009999-01-02T01:59:59Z",
    b"-009999-01-02T01:59:59.5Z",
    b"-009999-01-02T01:59:59.5+00:00:00",
    b"-009999-01-01T18:07:01.5-07:52:58",
    b"-009999-01-01T00:00:00.5-25:59:59",
    b"-009999-01-01T00:00:00-25:59:59",
    b"9999-12-30T22:00:00.999999999Z",
    b"9999-12-31T23:59:00.999999999+25:59",
    b"+002024-06-15T07:00:00Z",
    b"2024-02-29T23:59:60Z",
    b"2024-06-15T07:00:00,123Z",
    b"1969-12-31T23:00:00.000000001-05:00",
    b"1970-01-01T00:59:59.5+01:00",
    b"0000-01-01T00:00:00Z",
    b"2024-06-15T07:00:00Z[u-ca=iso8601]",
    b"2024-06-15T07:00:00Z[!UTC]",
    b"1970-01-01T00:00:00+00",
    b"1970-01-01T00Z",
    b"2024-06-15T07:00:00.1Z",
    b"2024-06-15T07:00:00.12345678Z",
    b"2024-06-15T07:00:00Z[America/New_York][u-ca=iso8601][foo=bar-baz]",
    b"2024-06-15T07:00:00+00:00[!-08:00]",
    b"2024-06-15T07:00:60.5Z",
    b"2024-06-15T07:00:00+05:30:15.5",
    b"2024-06-15T07:00:00-25:59:58.999999999",
    b"2024-06-15T07:00:00+05:30:15,499999999",
];

const S_DATETIME: &[&[u8]] = &[
    b"2024-06-15T07:00:00",
    b"2024-06-15T07:00:00.123456789",
    b"2024-06-15 07:00",
    b"2024-06-15T07",
    b"20240615T070000",
    b"2024-06-15",
    b"2024-06-15T07:00:00[America/New_York]",
    b"2024-06-15T07:00:00-04:00",
    b"2024-06-15T07:00:00-04:00[America/New_York]",
    b"-009999-01-01T00:00:00",
    b"9999-12-31T23:59:59.999999999",
    b"2024-02-29T23:59:60",
    b"0000-02-29T12:00:00",
    b"+002024-06-15T07:00:00",
    b"2024-06-15t07:00:00,5",
    b"2024-06-15T07:00:00[u-ca=iso8601]",
    b"1970-01-01T00:00",
    b"2024-06-15T07:00:00[!UTC]",
    b"2024-06-15T07:00:00+05:30:15[foo=bar]",
    b"-000001-12-31T23:59:59",
    b"2024-06-15T07:00:00+05:30:15.5",
];

const S_DATE: &[&[u8]] = &[
    b"2024-06-15",
    b"20240615",
    b"-009999-01-01",
    b"9999-12-31",
    b"0000-01-01",
    b"+002024-02-29",
    b"2024-06-15T07:00:00",
    b"2024-06-15[America/New_York]",
    b"2024-06-15T07:00-04:00[America/New_York]",
    b"2024-06-15[u-ca=iso8601]",
    b"1970-01-01",
    b"2000-02-29",
    b"2024-12-31T23:59:60",
    b"2024-06-15[!America/New_York][foo=bar-baz]",
    b"-000001-12-31",
    b"2024-06-15 07",
];

const S_TIME: &[&[u8]] = &[
    b"07:00:00",
    b"07:00",
    b"07",
    b"070000",
    b"0700",
    b"T07:00:00",
    b"t07",
    b"23:59:59.999999999",
    b"23:59:60",
    b"00:00:00,1",
    b"2024-06-15T07:00:00",
    b"2024-06-15T07:00:00-04:00[America/New_York]",
    b"T070000.5",
    b"00:00",
    b"12:30:45.123",
    b"T12:30-04:00",
    b"T07:00:00.5",
    b"T0700",
    b"07:00[u-ca=iso8601]",
    b"T07[America/New_York]",
    b"07:00:00+05:30:15",
    b"0759",
    b"2024-06-15 07:00:60",
];

const S_PIECES: &[&[u8]] = &[
    b"2024-06-15",
    b"2024-06-15T07:00:00",
    b"2024-06-15T07:00:00Z",
    b"2024-06-15T07:00:00-00:00",
    b"2024-06-15T07:00:00+00:00",
    b"2024-06-15T07:00:00-04:00[America/New_York]",
    b"2024-06-15T07:00:00[America/New_York]",
    b"2024-06-15[America/New_York]",
    b"2024-06-15T07:00:00+05:30[+05:30]",
    b"2024-06-15T07:00:00+05:30:15",
    b"2024-06-15T07:00:00+25:59:59",
    b"2024-06-15T07:00:00-25:59:59",
    b"2024-06-15T07:00:00+25:59:30",
    b"2024-06-15T07:00:00+25:59:29",
    b"2024-06-15T07:00:00-04:00[!Does/Not_Exist]",
    b"2024-06-15T07:00:00-04:00[u-ca=iso8601]",
    b"2024-06-15T07:00:00-04:00[America/New_York][u-ca=iso8601]",
    b"-009999-01-01T00:00:00-25:59:59",
    b"9999-12-31T23:59:59.999999999+25:59:59",
    b"20240615T070000.5-0400",
    b"2024-06-15T07-04",
    b"+002024-06-15T07:00:00z",
    b"2024-06-15T07:00:00+05[+05]",
    b"2024-06-15T07:00:00-00:00:29",
    b"2024-06-15T07:00:00-04:00[!America/New_York][u-ca=iso8601][foo=bar-baz]",
    b"2024-06-15T07:00:00Z[!+05:30]",
    b"2024-06-15T07:00:00-00[_=0]",
    b"2024-06-15T07:00:00,5+0530[A/B/C_d.e+f-1]",
    b"2024-06-15T07:00:60.999999999-00:00:00",
    b"2024-06-15T07:00:00+05:30:15.5",
    b"2024-06-15T07:00:00-25:59:58.999999999",
    b"2024-06-15T07:00:00+00:00:00.4[UTC]",
];

const S_TZ: &[&[u8]] = &[
    b"America/New_York",
    b"america/new_york",
    b"UTC",
    b"Israel",
    b"Etc/GMT+5",
    b"+05:30",
    b"-0800",
    b"+05",
    b"-25:59:59",
    b"+25:59:59",
    b"+05:00:01",
    b"-00:44:30",
    b"+00:00",
    b"-00:00",
    b"EST5EDT,M3.2.0,M11.1.0",
    b"EST5",
    b"<+0545>-5:45",
    b"<-03>3<-02>,M3.5.0/-2,M10.5.0/-1",
    b"IST-1GMT0,M10.5.0,M3.5.0/1",
    b"AAA-23:59:59BBB-24:59:59,J1/-167,J365/167",
    b"XXX-2<+01>-1,0/0,J365/23",
    b"EST5EDT,0/0,J365/25",
    b"NZST-12NZDT,M9.5.0,M4.1.0/3",
    b"Africa/Monrovia",
    b"Australia/Lord_Howe",
    b"Etc/GMT-14",
    b"+25:59",
    b"-2559",
];

const S_POSIX: &[&[u8]] = &[
    b"EST5EDT,M3.2.0,M11.1.0",
    b"EST5",
    b"UTC0",
    b"<+0545>-5:45",
    b"<-03>3<-02>,M3.5.0/-2,M10.5.0/-1",
    b"IST-1GMT0,M10.5.0,M3.5.0/1",
    b"AAA-23:59:59BBB-24:59:59,J1/-167,J365/167",
    b"AAA24:59:59BBB24:59:59,J1/167,J365/-167",
    b"XXX-2<+01>-1,0/0,J365/23",
    b"EST5EDT,0/0,J365/25",
    b"NZST-12NZDT,M9.5.0,M4.1.0/3",
    b"EST5EDT4,M3.2.0/2:30:15,M11.1.0/2:30:15",
    b"EST+5EDT+4,J60,J300",
    b"EST5EDT,59,300",
    b"EST5EDT,M1.1.0,M12.5.6",
    b"<+13>-13<+14>,M1.1.0/0,M6.1.0",
    b"CET-1CEST,M3.5.0,M10.5.0/3",
    b"WGT3WGST,M3.5.0/-2,M10.5.0/-1",
    b"EST5EDT,M3.2.0/167,M11.1.0/-167",
    b"ABCDEFGHIJKLMNOPQRSTUVWXYZabcd5",
    b"<ABC+-123>5",
    b"EST5EDT5,M3.2.0,M11.1.0",
    b"EST5EDT6,M3.2.0,M11.1.0",
    b"EST5EDT,M3.2.0/24,M11.1.0/0:00:00",
    b"EST5EDT,J1/0,365/24",
];

const S_TSPAN: &[&[u8]] = &[
    b"P1Y",
    b"P1M",
    b"P1W",
    b"P1D",
    b"PT1H",
    b"PT1M",
    b"PT1S",
    b"PT0S",
    b"-PT0S",
    b"P1Y2M3W4DT5H6M7S",
    b"P1Y2M3W4DT5H6M7.123456789S",
    b"-P1Y2M3W4DT5H6M7.123456789S",
    b"+P1D",
    b"p1dt1h",
    b"PT1.5H",
    b"PT1.5M",
    b"PT0.000000001S",
    b"PT1,5S",
    b"P19998Y",
    b"-P19998Y",
    b"P239976M",
    b"P1043497W",
    b"P7304484D",
    b"PT175307616H",
    b"PT10518456960M",
    b"PT631107417600S",
    b"-PT631107417600S",
    b"PT631107417599.999999999S",
    b"PT2562047H",
    b"P0D",
    b"P0Y0M0W0DT0H0M0S",
    b"PT1H30M",
    b"P1DT0.5S",
    b"PT24H",
    b"p1y2m3w4dt5h6m7s",
    b"PT0,5H",
    b"-P1W",
    b"+PT1.123456789H",
    b"P1Y1D",
    b"PT1M1S",
    b"PT1H1.5M",
    b"PT175307617H",
    b"PT10518456961M",
    b"PT631107417601S",
    b"PT175307616H10518456960M631107417600.999999999S",
    b"PT175307616.999999999H",
    b"P19998Y239976M1043497W7304484DT175307616H10518456960M631107417600S",
];

const S_TDUR: &[&[u8]] = &[
    b"PT1H",
    b"PT1M",
    b"PT1S",
    b"PT0S",
    b"-PT0S",
    b"PT5H6M7S",
    b"PT5H6M7.123456789S",
    b"-PT5H6M7.123456789S",
    b"+PT1S",
    b"pt1h",
    b"PT1.5H",
    b"PT1.5M",
    b"PT0.000000001S",
    b"PT1,5S",
    b"PT2562047788015215H",
    b"-PT2562047788015215H30M8S",
    b"PT2562047788015215H30M7.999999999S",
    b"PT153722867280912930M",
    b"PT9223372036854775807S",
    b"-PT9223372036854775807S",
    b"PT9223372036854775807.999999999S",
    b"PT24H",
    b"PT0.5S",
    b"PT1H30M",
    b"PT0,5H",
    b"-PT1.123456789H",
    b"PT1M1S",
    b"PT1H1.5M",
    b"pt1h1m1,5s",
    b"PT2562047788015215H30M7S",
    b"PT2562047788015214.999999999H",
    b"PT153722867280912929.999999999M",
];

const S_FSPAN: &[&[u8]] = &[
    b"1y",
    b"1 year",
    b"2 years",
    b"1mo",
    b"1 month",
    b"1w",
    b"1 week",
    b"1d",
    b"1 day",
    b"1h",
    b"1 hr",
    b"1 hour",
    b"1m",
    b"1 min",
    b"1s",
    b"1 sec",
    b"1ms",
    b"1us",
    b"1\xC2\xB5s",
    b"1ns",
    b"0s",
    b"1y 2mo 3w 4d 5h 6m 7s",
    b"1y, 2mo, 3w, 4d, 5h, 6m, 7s",
    b"1 year, 2 months, 3 weeks, 4 days, 5 hours, 6 minutes, 7 seconds",
    b"-1y 2mo",
    b"+1d",
    b"1y 2mo ago",
    b"1d ago",
    b"1.5h",
    b"1.5 hours",
    b"1,5s",
    b"2h 30m",
    b"2d 05:06:07",
    b"05:06:07",
    b"05:06:07.123456789",
    b"-05:06:07",
    b"1d 05:06:07 ago",
    b"19998y",
    b"175307616h",
    b"631107417600s",
    b"9223372036854775807ns",
    b"1s 2ms 3us 4ns",
    b"2years",
    b"2year",
    b"2yrs",
    b"2yr",
    b"2y",
    b"2months",
    b"2month",
    b"2mos",
    b"2mo",
    b"2weeks",
    b"2week",
    b"2wks",
    b"2wk",
    b"2w",
    b"2days",
    b"2day",
    b"2d",
    b"2hours",
    b"2hour",
    b"2hrs",
    b"2hr",
    b"2h",
    b"2minutes",
    b"2minute",
    b"2mins",
    b"2min",
    b"2m",
    b"2seconds",
    b"2second",
    b"2secs",
    b"2sec",
    b"2s",
    b"2milliseconds",
    b"2millisecond",
    b"2millis",
    b"2milli",
    b"2msecs",
    b"2msec",
    b"2ms",
    b"2microseconds",
    b"2microsecond",
    b"2micros",
    b"2micro",
    b"2usecs",
    b"2usec",
    b"2us",
    b"2nanoseconds",
    b"2nanosecond",
    b"2nanos",
    b"2nano",
    b"2nsecs",
    b"2nsec",
    b"2ns",
    b"2\xC2\xB5secs",
    b"2\xC2\xB5sec",
    b"2\xC2\xB5s",
    b"1 yr 2 mos 3 wks 4 days 5 hrs 6 mins 7 secs 8 msecs 9 usecs 10 nsecs",
    b"1y2mo3w4d5h6m7s8ms9us10ns",
    b"175307617h",
    b"10518456961m",
    b"631107417601s",
    b"631107417600001ms",
    b"631107417600000001us",
    b"175307616h 10518456960m 631107417600s 631107417600000ms 631107417600000000us 9223372036854775807ns",
    b"19998y 239976mo 1043497w 7304484d 175307616:10518456960:631107417600.999999999",
    b"175307616.999999999h",
    b"0.999999999us",
    b"1h\t2m\n3s\r4ms\x0C5us",
    b"1 day, 05:06:07,5",
    b"1s  ago",
    b"1,5 s",
];

const S_FDUR: &[&[u8]] = &[
    b"1h",
    b"1 hr",
    b"1 hour",
    b"1m",
    b"1s",
    b"1ms",
    b"1us",
    b"1ns",
    b"0s",
    b"5h 6m 7s",
    b"5h, 6m, 7s",
    b"5 hours, 6 minutes, 7 seconds",
    b"-5h 6m",
    b"+1h",
    b"5h 6m ago",
    b"1.5h",
    b"1,5s",
    b"05:06:07",
    b"05:06:07.123456789",
    b"-05:06:07",
    b"2562047788015215h",
    b"2562047788015215h 30m 7s 999ms 999us 999ns",
    b"9223372036854775807s",
    b"-9223372036854775807s",
    b"1s 2ms 3us 4ns",
    b"2562047788015215:30:07.999999999",
    b"2hours",
    b"2hour",
    b"2hrs",
    b"2hr",
    b"2h",
    b"2minutes",
    b"2minute",
    b"2mins",
    b"2min",
    b"2m",
    b"2seconds",
    b"2second",
    b"2secs",
    b"2sec",
    b"2s",
    b"2milliseconds",
    b"2millisecond",
    b"2millis",
    b"2milli",
    b"2msecs",
    b"2msec",
    b"2ms",
    b"2microseconds",
    b"2microsecond",
    b"2micros",
    b"2micro",
    b"2usecs",
    b"2usec",
    b"2us",
    b"2nanoseconds",
    b"2nanosecond",
    b"2nanos",
    b"2nano",
    b"2nsecs",
    b"2nsec",
    b"2ns",
    b"2\xC2\xB5secs",
    b"2\xC2\xB5sec",
    b"2\xC2\xB5s",
    b"5 hrs 6 mins 7 secs 8 msecs 9 usecs 10 nsecs",
    b"5h6m7s8ms9us10ns",
    b"2562047788015215h 30m 7s 999ms 999us 999ns ago",
    b"2562047788015214.999999999h",
    b"9223372036854775807ms",
    b"9223372036854775807us",
    b"9223372036854775807ns",
    b"0.999999999us",
    b"1s  ago",
    b"1,5 s",
];

const S_2822: &[&[u8]] = &[
    b"Sat, 15 Jun 2024 07:00:00 -0400",
    b"15 Jun 2024 07:00:00 -0400",
    b"Sat, 15 Jun 2024 07:00 -0400",
    b"Sat, 15 Jun 2024 07:00:00 +0000",
    b"Sat, 15 Jun 2024 07:00:00 -0000",
    b"Sat, 15 Jun 2024 07:00:00 GMT",
    b"Sat, 15 Jun 2024 07:00:00 UT",
    b"Sat, 15 Jun 2024 07:00:00 EST",
    b"Sat, 15 Jun 2024 07:00:00 PDT",
    b"Sat, 15 Jun 2024 07:00:00 Z",
    b"Sat, 15 Jun 2024 07:00:00 A",
    b"Sat, 15 Jun 24 07:00:00 -0400",
    b"Thu, 1 Jan 1970 00:00:00 +0000",
    b"Thu, 01 Jan 1970 00:00:00 +0000 (UTC)",
    b"Sat, 15 Jun 2024 07:00:00 -0400 (EDT)",
    b"Sat, 15 Jun 2024 07:00:00 -0400 (a (nested) comment)",
    b"  Sat,  15  Jun  2024  07:00:00  -0400  ",
    b"Sat, 15 Jun 2024 07:00:60 -0400",
    b"Thu, 30 Dec 9999 22:00:00 +0000",
    b"Mon, 1 Jan 0001 00:00:00 +0000",
    b"Sat, 1 Jan 0000 00:00:00 +0000",
    b"Sat, 15 Jun 2024 07:00:00 -2559",
    b"Sat, 15 Jun 2024 07:00:00 +2559",
    b"sat, 15 jun 2024 07:00:00 gmt",
    b"Sat, 15 Jun 124 07:00:00 +0000",
    b"Wed, 31 Dec 1969 19:00:00 -0500",
    b"Mon, 1 Jan 2024 00:00 +0000",
    b"Thu, 1 Feb 2024 00:00 +0000",
    b"Fri, 1 Mar 2024 00:00 +0000",
    b"Mon, 1 Apr 2024 00:00 +0000",
    b"Wed, 1 May 2024 00:00 +0000",
    b"Sat, 1 Jun 2024 00:00 +0000",
    b"Mon, 1 Jul 2024 00:00 +0000",
    b"Thu, 1 Aug 2024 00:00 +0000",
    b"Sun, 1 Sep 2024 00:00 +0000",
    b"Tue, 1 Oct 2024 00:00 +0000",
    b"Fri, 1 Nov 2024 00:00 +0000",
    b"Sun, 1 Dec 2024 00:00 +0000",
    b"15 Jun 2024 07:00:00 EDT",
    b"15 Jun 2024 07:00:00 CST",
    b"15 Jun 2024 07:00:00 CDT",
    b"15 Jun 2024 07:00:00 MST",
    b"15 Jun 2024 07:00:00 MDT",
    b"15 Jun 2024 07:00:00 PST",
    b"15 Jun 2024 07:00:00 UTC",
    b"15 Jun 2024 07:00:00 ABCDE",
    b"15 Jun 2024 07:00:00 N",
    b"15 Jun 2024 07:00:00 Y",
    b"15 Jun 2024 07:00:00 I",
    b"15 Jun 2024 07:00:00 K",
    b"15 Jun 2024 07:00:00 M",
    b"15 Jun 2024 07:00:00 b",
    b"1 Jan 49 00:00:00 +0000",
    b"1 Jan 50 00:00:00 +0000",
    b"1 Jan 99 00:00:00 +0000",
    b"1 Jan 00 00:00:00 +0000",
    b"1 Jan 100 00:00:00 +0000",
    b"1 Jan 999 00:00:00 +0000",
    b"31 Dec 9999 23:59:00 +2559",
    b"Sat,\t15 Jun 2024 07:00:00 -0400",
    b"Sat,\r\n 15 Jun 2024\r\n 07:00:00 -0400\r\n",
    b"Sat, 15 Jun 2024 07:00:00 -0400(EDT)",
    b"Sat, 15 Jun 2024 07:00:00 -0400 (\\()  ",
    b"Sat, 15 Jun 2024 07:00:00 -0400 (a\\)b(c)\\\\)",
    b"Sat, 15 Jun 2024 07:00:00 GMT (()(()))",
    b"SAT, 15 JUN 2024 07:00:00 edt",
];

// second alphabets (rows of level Light): the bytes of each grammar that the
// first alphabet leaves out
const A_DT2: &[u8] = b"05-:tz+,[]/=!u_a";
const A_ISO2: &[u8] = b"05ptymdhsw.,-+ \x00";
const A_FRI2: &[u8] = b"15wnuecriklt\xC2\xB5+\t";
const A_2822B: &[u8] = b"05()\\\t \r\naZEDT+-\xFF";

const S_2822X: &[&[u8]] = &[
    b"Mon, 15 Jun 2024 07:00:00 -0400",
    b"Sun, 1 Jan 1970 00:00:00 +0000",
    b"fri, 31 Dec 9999 23:59:00 +2559 (x)",
    b"Tue, 1 Jan 0000 00:00 Z",
    b"Sat, 15 Jun 2024 07:00:00 -0400",
    b"15 Jun 2024 07:00:00 -0400",
    b"Wed, 15 Jun 24 07:00 EDT",
    b"Thu, 29 Feb 2024 07:00:00 GMT (a (nested) comment)",
];

// anchored tails --------------------------------------------------------------
// Tail lengths are (quick, thorough). Rows that share a lexer with a row
// already enumerated at the longer length take the shorter one.
const T_OFF: &[u8] = b"0159+-:.,Zz[]!/A\xFF";
const T_OFF8: &[u8] = b"+-0145:Z";
const T_NUM: &[u8] = b"0123569:.,+-Z[ \xFF";
const T_ANN: &[u8] = b"UTC+-019:!/=u_.\xFF";
const T_YEAR: &[u8] = b"0129+- \xFF";
const L4: (usize, usize) = (4, 5);
const L3: (usize, usize) = (3, 5);
const L5: (usize, usize) = (5, 7);
macro_rules! anchors {
    ($($p:expr, $a:expr, $s:expr, $l:expr);* $(;)?) => { &[$(Anchor { prefix: $p, alpha: $a, suffix: $s, len: $l }),*] };
}
const AN_PIECES: &[Anchor] = anchors![
    b"2024-06-15T07:00:00", T_OFF, b"", L4;
    b"2024-06-15T07:00:00+05", T_NUM, b"", L4;
    b"2024-06-15T07:00:00+05:30:", T_NUM, b"", L4;
    b"2024-06-15T", T_NUM, b"", L4;
    b"2024-06-15T07:00:", T_NUM, b"", L4;
    b"2024-06-15T07:00:00Z[", T_ANN, b"]", L4;
    b"2024-06-15T07:00:00Z[UTC][", T_ANN, b"]", L4;
    b"2024-06-15T07:00:00Z[u-ca=", T_ANN, b"]", L4;
    b"2024-", T_NUM, b"-15", L3;
    b"", T_YEAR, b"-06-15", L5;
    b"+00", T_YEAR, b"-06-15T07:00:00Z", L5;
    b"-00", T_YEAR, b"0615", L5;
];
const AN_ZONED: &[Anchor] = anchors![
    b"2024-06-15T07:00:00", T_OFF, b"[UTC]", L4;
    b"2024-11-03T01:30:00", T_OFF, b"[America/New_York]", L4;
    b"2024-06-15T07:00:00+00:00[", T_ANN, b"]", L4;
    b"2024-06-15T07:00:00+00:00[UTC][", T_ANN, b"]", L4;
    b"1919-03-01T00:00:00-00:44", T_NUM, b"[Africa/Monrovia]", L4;
    b"-009999-01-02T01:59:59", T_OFF, b"[UTC]", L4;
];
const AN_ZONED_OPTIONS: &[Anchor] = anchors![
    b"2024-11-03T01:30:00", T_OFF8, b"[America/New_York]", L4;
    b"2024-03-10T02:30:00", T_OFF8, b"[America/New_York]", L4;
];
const AN_TIMESTAMP: &[Anchor] = anchors![
    b"2024-06-15T07:00:00", T_OFF, b"", L3;
    b"2024-06-15T07:00:00-25:59:", T_NUM, b"", L4;
    b"-009999-01-02T01:59:59", T_OFF, b"", L4;
    b"9999-12-30T22:00:00", T_OFF, b"", L4;
    b"1969-12-31T23:59:59", T_OFF, b"", L4;
];
const AN_DATETIME: &[Anchor] = anchors![
    b"2024-06-15T07:00:00", T_OFF, b"", L3;
    b"2024-02-", T_NUM, b"", L3;
];
const AN_TIME: &[Anchor] = anchors![
    b"07:00:00", T_OFF, b"", L4;
    b"T07:00:", T_NUM, b"", L4;
    b"07", T_NUM, b"", L4;
    b"12", T_NUM, b"", L4;
    b"T12", T_NUM, b"", L3;
];
const T_TZ: &[u8] = b"0123567+-:/.,MJ\xFF";
const AN_POSIX: &[Anchor] = anchors![
    b"EST", T_TZ, b"EDT,M3.2.0,M11.1.0", L4;
    b"EST5EDT", T_TZ, b",M3.2.0,M11.1.0", L4;
    b"EST5EDT,M3.2.0/", T_TZ, b",M11.1.0", L4;
    b"EST5EDT,M3.2.0,M11.", T_TZ, b"", L4;
    b"EST5EDT,J", T_TZ, b",J300/2", L4;
    b"EST5EDT,", T_TZ, b",300", L3;
    b"<", A_POSIX, b">5", L3;
    b"EST5<", A_POSIX, b">,M3.2.0,M11.1.0", L3;
];
const AN_TZ: &[Anchor] = anchors![
    b"EST", T_TZ, b"EDT,M3.2.0,M11.1.0", L3;
    b"EST5EDT,M3.2.0/", T_TZ, b",M11.1.0", L3;
    b"+05", T_NUM, b"", L4;
];
const AN_ISO: &[Anchor] = anchors![
    b"P1Y", A_ISO, b"", L4;
    b"PT1H", A_ISO, b"", L3;
    b"PT", A_ISO, b"S", L4;
    b"P", A_ISO, b"D", L3;
    b"PT1.", A_ISO, b"", L4;
    b"-P", A_ISO2, b"", L3;
    b"PT175307616H", A_ISO, b"", L3;
];
const AN_ISO_DUR: &[Anchor] = anchors![
    b"PT1H", A_ISO, b"", L4;
    b"PT", A_ISO, b"S", L4;
    b"PT1.", A_ISO, b"", L3;
    b"-PT", A_ISO2, b"", L3;
    b"PT2562047788015215H", A_ISO, b"", L3;
];
const AN_FRI: &[Anchor] = anchors![
    b"1 ", A_FRI, b"", L4;
    b"1y 2mo ", A_FRI, b"", L3;
    b"1:", A_FRI, b"", L4;
    b"1h", A_FRI, b" ago", L3;
    b"1", A_FRI2, b"", L3;
    b"1 m", A_FRI2, b"", L3;
    b"1.5", A_FRI, b"", L4;
    b"175307616h ", A_FRI, b"", L3;
];
const AN_FRI_DUR: &[Anchor] = anchors![
    b"1 ", A_FRI, b"", L4;
    b"1h 2m ", A_FRI, b"", L3;
    b"1:", A_FRI, b"", L4;
    b"1h", A_FRI, b" ago", L3;
    b"1 m", A_FRI2, b"", L3;
    b"1.5", A_FRI, b"", L3;
    b"2562047788015215h ", A_FRI, b"", L3;
];
const T_2822Z: &[u8] = b"+-0159GMTUZJa()\\ \xFF";
const T_CMT: &[u8] = b"()\\a \t\xFF0";
const T_2822N: &[u8] = b"0123569: ,+-\tJn";
const AN_2822: &[Anchor] = anchors![
    b"Sat, 15 Jun 2024 07:00:00 ", T_2822Z, b"", L4;
    b"Sat, 15 Jun 2024 07:00:00 -0400 (", T_CMT, b")", L5;
    b"Sat, 15 Jun 2024 07:00:00 -0400 ", T_CMT, b"", L5;
    b"15 Jun ", T_2822N, b" 07:00:00 -0400", L4;
    b"15 Jun 2024 07:", T_2822N, b" -0400", L4;
    b"15 Jun 2024 ", T_2822N, b":00 -0400", L3;
    b"", T_2822N, b" Jun 2024 07:00:00 -0400", L4;
    b"Sat, 15 Jun 2024 07:00:00 -", T_2822N, b"", L4;
];
const AN_2822_TS: &[Anchor] = anchors![
    b"Sat, 15 Jun 2024 07:00:00 ", T_2822Z, b"", L3;
    b"30 Dec 9999 22:00:00 ", T_2822Z, b"", L3;
    b"1 Jan 0000 00:00 ", T_2822Z, b"", L3;
];
const AN_2822X: &[Anchor] = anchors![
    b"Mon, 15 Jun ", T_2822N, b" 07:00:00 -0400", L3;
    b"Mon, ", T_2822N, b" Jun 2024 07:00:00 -0400", L3;
];

macro_rules! units {
    ($($p:expr, $u:expr, $s:expr);* $(;)?) => { &[$(($p, $u, $s)),*] };
}

const U_DT: &[(&[u8], &[u8], &[u8])] = units![
    b"", b"2024-06-15T07:00:00Z", b"";
    b"2024-06-15T07:00:00Z", b"[u-ca=iso8601]", b"";
    b"2024-06-15T07:00:00Z[", b"a", b"]";
    b"2024-06-15T07:00:00Z[", b"a/", b"b]";
    b"2024-06-15T07:00:00Z", b"[", b"";
    b"2024-06-15T07:00:00.", b"0", b"Z";
    b"2024-06-15T07:00:00+", b"0", b"";
    b"", b"-", b"";
    b"", b" ", b"";
    b"", b"\xFF", b"";
    b"2024-06-15T07:00:00Z[UTC]", b"[a=b]", b"";
    b"2024-06-15T07:00:00Z[a=", b"b-", b"c]";
    b"2024-06-15T07:00:00Z[", b"a-", b"a=b]";
    b"2024-06-15T07:00:00.", b"9", b"Z";
    b"2024-06-15T07:00:00+00:00:00.", b"0", b"";
    b"", b"0", b"2024-06-15T07:00:00Z";
    b"+", b"0", b"2024-06-15T07:00:00Z";
    b"2024-06-15T", b"0", b"7:00:00Z";
];
const U_TZ: &[(&[u8], &[u8], &[u8])] = units![
    b"", b"A", b"";
    b"", b"A/", b"B";
    b"<", b"A", b">5";
    b"EST5EDT,", b"M3.2.0,", b"";
    b"EST5EDT,M3.2.0/", b"1", b",M11.1.0";
    b"+", b"0", b"";
    b"", b"\xFF", b"";
    b"AAAAAAAAAAAAAAAAAAAAAAAAAAAAAA5", b"B", b"";
    b"AAAAAAAAAAAAAAAAAAAAAAAAAAAAAA5", b"B", b",M3.2.0,M11.1.0";
    b"AAAAAAAAAAAAAAAAAAAAAAAAAAAAAA5<", b"B", b">,M3.2.0,M11.1.0";
    b"<AAAAAAAAAAAAAAAAAAAAAAAAAAAAAA>5<", b"B", b">,M3.2.0,M11.1.0";
    b"AAA5", b"B", b",M3.2.0,M11.1.0";
    b"AAA", b"0", b"5";
    b"AAA5BBB,M3.2.0/", b"0", b"1,M11.1.0";
    b"AAA5BBB,J", b"0", b"1,J300";
    b"AAA5BBB,M", b"0", b"3.2.0,M11.1.0";
    b"AAA5:", b"0", b"";
    b"AAA5:00:", b"0", b"";
];
const U_ISO: &[(&[u8], &[u8], &[u8])] = units![
    b"P", b"1Y", b"";
    b"PT", b"1S", b"";
    b"PT", b"0", b"S";
    b"PT0.", b"0", b"S";
    b"P", b"T", b"";
    b"", b"P", b"";
    b"", b"-", b"";
    b"", b"\xFF", b"";
    b"P", b"0", b"1Y";
    b"P", b"0", b"1D";
    b"PT", b"0", b"1H";
    b"PT1.", b"0", b"1S";
    b"PT1.", b"9", b"S";
    b"PT0", b"0", b".5H";
];
const U_FRI: &[(&[u8], &[u8], &[u8])] = units![
    b"", b"1h ", b"";
    b"", b"1s, ", b"1s";
    b"1", b" ", b"h";
    b"1h", b" ", b"ago";
    b"", b"0", b"h";
    b"0.", b"0", b"h";
    b"", b"1:", b"1";
    b"", b"-", b"";
    b"", b"\xFF", b"";
    b"", b"0", b"1y";
    b"", b"0", b"1ns";
    b"1.", b"9", b"h";
    b"1.", b"0", b"1s";
    b"1:", b"0", b"1:1";
    b"1:1:", b"0", b"1";
    b"1:1:1.", b"0", b"1";
    b"1h", b" ", b"1m";
    b"1h,", b" ", b"1m";
    b"1h", b"\t", b"ago";
];
const U_2822: &[(&[u8], &[u8], &[u8])] = units![
    b"", b" ", b"Sat, 15 Jun 2024 07:00:00 -0400";
    b"Sat, 15 Jun 2024 07:00:00 -0400 ", b"(", b"";
    b"Sat, 15 Jun 2024 07:00:00 -0400 (", b"a", b")";
    b"Sat, 15 Jun 2024 07:00:00 -0400 ", b"()", b"";
    b"Sat, 15 Jun 2024 07:00:00 -0400 ", b"(", b")";
    b"Sat, 15 Jun 2024 07:00:00 -0400 (", b"\\", b")";
    b"Sat, 15 Jun ", b"0", b" 07:00:00 -0400";
    b"", b"\xFF", b"";
    b"Sat, 15 Jun 2024 07:00:00 -0400 (", b"(", b"";
    b"Sat, 15 Jun 2024 07:00:00 -0400 (", b"\\(", b")";
    b"Sat, 15 Jun 2024 07:00:00 -0400 (", b"()", b")";
    b"Sat, 15 Jun 2024 07:00:00 ", b"A", b"";
    b"Sat, 15 Jun 2024 07:00:00 -0400", b" ", b"";
    b"Sat,", b" ", b"15 Jun 2024 07:00:00 -0400";
    b"Sat, 15 Jun 2024", b"\r\n ", b"07:00:00 -0400";
    b"", b"0", b"5 Jun 2024 07:00:00 -0400";
];

const NONE: &[Anchor] = &[];

fn full(name: &'static str, alpha: &'static [u8], seeds: &'static [&'static [u8]], units: &'static [(&'static [u8], &'static [u8], &'static [u8])], f: fn(&[u8]) -> Res, short_len: (usize, usize), anchors: &'static [Anchor]) -> Parser {
    Parser { name, alpha, seeds, units, f, level: Level::Full, short_len, anchors, calls: 2 }
}
fn light(name: &'static str, alpha: &'static [u8], seeds: &'static [&'static [u8]], units: &'static [(&'static [u8], &'static [u8], &'static [u8])], f: fn(&[u8]) -> Res, anchors: &'static [Anchor]) -> Parser {
    let calls = if name.contains("{offset_conflict,disambiguation}") { 16 } else { 3 };
    Parser { name, alpha, seeds, units, f, level: Level::Light, short_len: (0, 0), anchors, calls }
}

pub fn parsers() -> Vec<Parser> {
    let mut v = all_parsers();
    // development hook (never set by the driver): keep only the rows whose
    // name contains the given text
    if let Ok(f) = std::env::var("C17_ROWS") {
        v.retain(|p| p.name.contains(&f));
    }
    v
}

fn all_parsers() -> Vec<Parser> {
    // plain short strings: rows whose grammar needs >= 8 bytes before anything
    // can be accepted (no string of length <= 6 is) get one byte less in the
    // quick tier; what lies behind a valid prefix is enumerated by the
    // anchored tails instead
    const LONG: (usize, usize) = (4, 6);
    const SHORT: (usize, usize) = (5, 6);
    vec![
        full("temporal::DateTimeParser::parse_zoned", A_DT, S_ZONED, U_DT, p_zoned, LONG, AN_ZONED),
        full("temporal::DateTimeParser::parse_timestamp", A_DT, S_TIMESTAMP, U_DT, p_timestamp, LONG, AN_TIMESTAMP),
        full("temporal::DateTimeParser::parse_datetime", A_DT, S_DATETIME, U_DT, p_datetime, LONG, AN_DATETIME),
        full("temporal::DateTimeParser::parse_date", A_DT, S_DATE, U_DT, p_date, LONG, AN_DATETIME),
        full("temporal::DateTimeParser::parse_time", A_DT, S_TIME, U_DT, p_time, SHORT, AN_TIME),
        full("temporal::DateTimeParser::parse_pieces", A_DT, S_PIECES, U_DT, p_pieces, LONG, AN_PIECES),
        full("temporal::DateTimeParser::parse_time_zone", A_TZ, S_TZ, U_TZ, p_time_zone, SHORT, AN_TZ),
        full("TimeZone::posix", A_POSIX, S_POSIX, U_TZ, p_posix, SHORT, AN_POSIX),
        full("temporal::SpanParser::parse_span", A_ISO, S_TSPAN, U_ISO, p_tspan, SHORT, AN_ISO),
        full("temporal::SpanParser::parse_duration", A_ISO, S_TDUR, U_ISO, p_tdur, SHORT, AN_ISO_DUR),
        full("friendly::SpanParser::parse_span", A_FRI, S_FSPAN, U_FRI, p_fspan, SHORT, AN_FRI),
        full("friendly::SpanParser::parse_duration", A_FRI, S_FDUR, U_FRI, p_fdur, SHORT, AN_FRI_DUR),
        full("Span::from_str", A_ISO, S_TSPAN, U_ISO, p_span_fromstr, SHORT, NONE),
        full("Span::from_str(friendly)", A_FRI, S_FSPAN, U_FRI, p_span_fromstr, SHORT, NONE),
        full("SignedDuration::from_str", A_ISO, S_TDUR, U_ISO, p_sdur_fromstr, SHORT, NONE),
        full("SignedDuration::from_str(friendly)", A_FRI, S_FDUR, U_FRI, p_sdur_fromstr, SHORT, NONE),
        full("rfc2822::DateTimeParser::parse_zoned", A_2822, S_2822, U_2822, p_rfc2822_zoned, LONG, AN_2822),
        full("rfc2822::DateTimeParser::parse_timestamp", A_2822, S_2822, U_2822, p_rfc2822_timestamp, LONG, AN_2822_TS),
        // FromStr of the datetime types (thin wrappers: compared with the default parser)
        light("Zoned::from_str", A_DT, S_ZONED, U_DT, p_zoned_fromstr, NONE),
        light("Timestamp::from_str", A_DT, S_TIMESTAMP, U_DT, p_timestamp_fromstr, NONE),
        light("civil::DateTime::from_str", A_DT, S_DATETIME, U_DT, p_datetime_fromstr, NONE),
        light("civil::Date::from_str", A_DT, S_DATE, U_DT, p_date_fromstr, NONE),
        light("civil::Time::from_str", A_DT, S_TIME, U_DT, p_time_fromstr, NONE),
        // parser options and explicit databases
        light("temporal::DateTimeParser::{offset_conflict,disambiguation}::parse_zoned", A_DT, S_ZONED, U_DT, p_zoned_options, AN_ZONED_OPTIONS),
        light("temporal::DateTimeParser::parse_zoned_with", A_DT, S_ZONED, U_DT, p_zoned_with, NONE),
        light("temporal::DateTimeParser::parse_time_zone_with", A_TZ, S_TZ, U_TZ, p_time_zone_with, NONE),
        light("rfc2822::parse", A_2822, S_2822, U_2822, p_rfc2822_parse, NONE),
        light("rfc2822::DateTimeParser::relaxed_weekday::parse_zoned", A_2822, S_2822X, U_2822, p_rfc2822_relaxed_zoned, AN_2822X),
        light("rfc2822::DateTimeParser::relaxed_weekday::parse_timestamp", A_2822B, S_2822X, U_2822, p_rfc2822_relaxed_timestamp, AN_2822X),
        // second alphabets
        light("temporal::DateTimeParser::parse_pieces(alphabet 2)", A_DT2, S_PIECES, U_DT, p_pieces, NONE),
        light("temporal::DateTimeParser::parse_zoned(alphabet 2)", A_DT2, S_ZONED, U_DT, p_zoned, NONE),
        light("temporal::DateTimeParser::parse_time(alphabet 2)", A_DT2, S_TIME, U_DT, p_time, NONE),
        light("temporal::SpanParser::parse_span(alphabet 2)", A_ISO2, S_TSPAN, U_ISO, p_tspan, NONE),
        light("temporal::SpanParser::parse_duration(alphabet 2)", A_ISO2, S_TDUR, U_ISO, p_tdur, NONE),
        light("friendly::SpanParser::parse_span(alphabet 2)", A_FRI2, S_FSPAN, U_FRI, p_fspan, NONE),
        light("friendly::SpanParser::parse_duration(alphabet 2)", A_FRI2, S_FDUR, U_FRI, p_fdur, NONE),
        light("rfc2822::DateTimeParser::parse_zoned(alphabet 2)", A_2822B, S_2822, U_2822, p_rfc2822_zoned, NONE),
    ]
}

/// Input class attached to a panic signature. Uses jiff's own lexer and zone
/// lookup only to *name* the class of the input (never as an oracle):
/// N2 = the text denotes, in its zone / offset, an instant with a non-zero
/// fraction inside the second before Timestamp::MIN.
pub fn panic_class(input: &[u8]) -> &'static str {
    if input.is_empty() {
        return "[empty-input]";
    }
    let c = posix_abbrev_class(input);
    if !c.is_empty() {
        return c;
    }
    let r = vf::guard(|| -> bool {
        let Ok(p) = temporal::Pieces::parse(input) else { return false };
        let dt = DateTime::from_parts(p.date(), p.time().unwrap_or(Time::midnight()));
        let below = |t: Timestamp| t.as_second() == Timestamp::MIN.as_second() && t.subsec_nanosecond() < 0;
        if let Ok(Some(tz)) = p.to_time_zone() {
            if let Ok(t) = tz.to_ambiguous_timestamp(dt).compatible() {
                if below(t) {
                    return true;
                }
            }
        }
        if let Some(o) = p.to_numeric_offset() {
            if let Ok(t) = o.to_timestamp(dt) {
                return below(t);
            }
        }
        false
    });
    match r {
        Ok(true) => "[fraction!=0,instant-in-the-second-before-Timestamp::MIN]",
        _ => "",
    }
}

/// Input class of the POSIX abbreviation-length defect: the text holds an
/// abbreviation-like run (ASCII letters, or `<` followed by letters, digits
/// and signs) of more than 30 bytes that starts after byte 30.
pub fn posix_abbrev_class(input: &[u8]) -> &'static str {
    let mut i = 0;
    while i < input.len() {
        let quoted = input[i] == b'<';
        let start = if quoted { i + 1 } else { i };
        let mut j = start;
        while j < input.len() && (input[j].is_ascii_alphabetic() || (quoted && (input[j].is_ascii_digit() || input[j] == b'+' || input[j] == b'-'))) {
            j += 1;
        }
        if j - start > 30 && start > 30 {
            return "[abbreviation>30-bytes-starting-after-byte-30]";
        }
        i = j.max(i + 1);
    }
    ""
}

pub fn escape(b: &[u8]) -> String {
    let mut s = String::with_capacity(b.len() + 2);
    for &c in b {
        match c {
            b'\\' => s.push_str("\\\\"),
            b'"' => s.push_str("\\\""),
            0x20..=0x7E => s.push(c as char),
            _ => s.push_str(&format!("\\x{:02X}", c)),
        }
    }
    s
}
