//! C16: strftime / strptime and RFC 2822 agree with the calendar and invert
//! each other.
//!
//! E1. Oracle = R-fmt (`c16/rfmt.rs`): the POSIX field definitions on R-cal
//! facts with jiff's *documented* padding / flag conventions. R-fmt itself is
//! validated against glibc `strftime` (FFI, TZ=UTC, `gmtime_r`) in the same
//! run, but only inside the domains where C's and jiff's documented
//! conventions coincide; a difference of convention from glibc can therefore
//! never raise an alarm against jiff (it would raise `model-vs-glibc[..]`,
//! an engine-side signature).

#[path = "c16/common.rs"]
mod common;
#[path = "c16/glibc.rs"]
mod glibc;
#[path = "c16/rfmt.rs"]
mod rfmt;
#[path = "c16/sec_format.rs"]
mod sec_format;
#[path = "c16/sec_parse.rs"]
mod sec_parse;
#[path = "c16/sec_rfc2822.rs"]
mod sec_rfc2822;
#[path = "c16/sec_roundtrip.rs"]
mod sec_roundtrip;
#[path = "c16/sec_table.rs"]
mod sec_table;
#[path = "c16/sec_zoned.rs"]
mod sec_zoned;

use vf::Report;

fn main() {
    // before any thread exists
    glibc::init_utc();
    let r = Report::from_args("C16");
    // An engine-side panic (a bug in R-fmt) must not die silently: echo the
    // first few panic messages, then defer to the harness hook.
    {
        static SHOWN: std::sync::atomic::AtomicU64 = std::sync::atomic::AtomicU64::new(0);
        let prev = std::panic::take_hook();
        std::panic::set_hook(Box::new(move |info| {
            if SHOWN.fetch_add(1, std::sync::atomic::Ordering::Relaxed) < 5 {
                eprintln!("[C16] panic: {}", info);
            }
            prev(info)
        }));
    }
    sec_format::run(&r);
    sec_table::run(&r);
    sec_roundtrip::run(&r);
    sec_parse::run(&r);
    sec_zoned::run(&r);
    sec_rfc2822::run(&r);
    r.finish();
}
