//! Formatting sections: every specifier prints the calendar fact it names.

use crate::common::*;
use crate::glibc;
use crate::rfmt::V;
use jiff::civil::Time;
use jiff::fmt::strtime;
use jiff::fmt::strtime::BrokenDownTime;
use rayon::prelude::*;
use std::sync::atomic::{AtomicU64, Ordering::Relaxed};
use vf::{guard, panic_sig, Report};

/// Compare jiff with R-fmt (always) and R-fmt with glibc (when `tm` is
/// given, i.e. inside the comparison domain).
pub fn triple<B: Into<BrokenDownTime>>(r: &Report, section: &str, f: &Fmt, v: &V, value: B, tm: Option<&libc::tm>, case: &str, n_glibc: &AtomicU64) {
    let mut want = String::new();
    let model = f.model(v, &mut want);
    let got = guard(|| strtime::format(&f.text, value));
    match (got, &model) {
        (Err(p), _) => r.viol(section, &format!("strftime[{}]/{}", f.text, panic_sig(&p)), format!("{} {}", f.text, case), p),
        (Ok(Ok(g)), Ok(())) => {
            if g != want {
                blame(r, section, "strftime", "", &f.text, case, &g, &want, "jiff vs R-fmt");
            }
        }
        (Ok(Err(e)), Ok(())) => r.viol(section, &format!("strftime[{}]/unexpected-error", f.text), format!("{} {}", f.text, case), format!("jiff error {}; R-fmt {:?}", e, want)),
        (Ok(Ok(g)), Err(spec)) => r.viol(
            section,
            &format!("strftime[{}]/documented-error-missing", spec),
            format!("{} {}", f.text, case),
            format!("jiff printed {:?}; the documentation says {} cannot be formatted here", g, spec),
        ),
        (Ok(Err(_)), Err(_)) => {}
    }
    if let (Some(tm), Ok(())) = (tm, &model) {
        let mut buf = [0u8; 512];
        let c = f.c.format(tm, &mut buf);
        n_glibc.fetch_add(1, Relaxed);
        if c != want {
            blame(r, section, "model-vs-glibc", "", &f.text, case, &want, c, "R-fmt vs glibc");
        }
    }
}

const DATE_A: &str = "%C|%m|%B|%b|%h|%d|%e|%j|%U|%W|%V|%u|%w|%A|%a|%n|%t|%%";
const DATE_B: &str = "%Y|%G|%F";
const DATE_Y2: &str = "%y|%g|%D";

pub fn run(r: &Report) {
    let n_glibc = AtomicU64::new(0);
    // the FFI side is live and really is a different convention: year 5
    {
        let f = Fmt::new("%Y|%C|%j");
        let tm = glibc::gmtime(refmodel::cal::days_from_civil(5, 3, 1) * 86_400);
        let mut buf = [0u8; 512];
        let c = f.c.format(&tm, &mut buf).to_string();
        let mut m = String::new();
        f.model(&V::date(5, 3, 1), &mut m).unwrap();
        r.sample(serde_json::json!({"date": "0005-03-01", "format": "%Y|%C|%j", "glibc": c, "R-fmt (jiff's documented padding)": m}));
        r.require(c == "5|0|060" && m == "0005|0|060", "glibc FFI live; year-width conventions differ below year 1000 as documented");
    }

    r.section("strftime_dates", || {
        let (fa, fb, fy2) = (Fmt::new(DATE_A), Fmt::new(DATE_B), Fmt::new(DATE_Y2));
        let (fy, fg, fd) = (Fmt::new("%y"), Fmt::new("%g"), Fmt::new("%D"));
        // the first days of year 0 belong to ISO year -1: no padding rule is
        // documented for negative numbers, so %G/%g are left out there
        let fb_nog = Fmt::new("%Y|%F");
        let (w0, w53, y2_err, below1000) = (AtomicU64::new(0), AtomicU64::new(0), AtomicU64::new(0), AtomicU64::new(0));
        let n = for_each_day(0, 9999, |s| {
            let v = v_of(s);
            let d = jdate(s);
            let case = ymd(s);
            let tm = glibc::gmtime(s.epoch_day * 86400);
            // glibc's own calendar must agree with R-cal (third implementation)
            if (tm.tm_year as i64 + 1900, tm.tm_mon as i64 + 1, tm.tm_mday as i64, tm.tm_wday as i64, tm.tm_yday as i64 + 1) != (s.y, s.m, s.d, s.wd as i64, s.doy) {
                r.viol("strftime_dates", "model-vs-glibc[gmtime_r]/calendar", case.clone(), format!("R-cal {:?}", s));
            }
            triple(r, "strftime_dates", &fa, &v, d, Some(&tm), &case, &n_glibc);
            let wide = s.y >= 1000 && s.iso_y >= 1000;
            if !wide {
                below1000.fetch_add(1, Relaxed);
            }
            triple(r, "strftime_dates", if s.iso_y >= 0 { &fb } else { &fb_nog }, &v, d, if wide { Some(&tm) } else { None }, &case, &n_glibc);
            let in2 = |y: i64| (1969..=2068).contains(&y);
            if in2(s.y) && in2(s.iso_y) {
                triple(r, "strftime_dates", &fy2, &v, d, Some(&tm), &case, &n_glibc);
            } else {
                y2_err.fetch_add(1, Relaxed);
                triple(r, "strftime_dates", &fy, &v, d, None, &case, &n_glibc);
                if s.iso_y >= 0 {
                    triple(r, "strftime_dates", &fg, &v, d, None, &case, &n_glibc);
                }
                triple(r, "strftime_dates", &fd, &v, d, None, &case, &n_glibc);
            }
            if (s.doy - 1 + 7 - s.wd as i64) / 7 == 0 {
                w0.fetch_add(1, Relaxed);
            }
            if s.iso_w == 53 {
                w53.fetch_add(1, Relaxed);
            }
        });
        r.add_states(n);
        r.add_transitions(n * 24);
        r.add_validated(n * 24);
        r.count("strftime_dates.days", n);
        r.outcome("strftime_dates.days_in_%U_week_0", w0.load(Relaxed));
        r.outcome("strftime_dates.days_in_iso_week_53", w53.load(Relaxed));
        r.outcome("strftime_dates.two_digit_year_must_error", y2_err.load(Relaxed));
        r.outcome("strftime_dates.year_below_1000_not_compared_with_glibc", below1000.load(Relaxed));
        r.require(n == 3_652_425, "all dates of years 0..=9999 visited");
        r.require(w0.load(Relaxed) > 0 && w53.load(Relaxed) > 0 && y2_err.load(Relaxed) > 0, "week 0, week 53 and out-of-range two-digit years seen");
    });

    r.section("strftime_dates_negative", || {
        // calendar-valued specifiers whose output does not involve the year's width
        let fa = Fmt::new(&DATE_A.replace("%C|", ""));
        let ranges: Vec<(i64, i64)> = if r.quick() { vec![(-9999, -9990), (-410, -1)] } else { vec![(-9999, -1)] };
        let mut n = 0;
        for (a, b) in ranges {
            n += for_each_day(a, b, |s| {
                triple(r, "strftime_dates_negative", &fa, &v_of(s), jdate(s), None, &ymd(s), &n_glibc);
            });
        }
        r.add_states(n);
        r.add_transitions(n * 17);
        r.add_validated(n * 17);
        r.count("strftime_dates_negative.days", n);
    });

    r.section("strftime_date_flags", || {
        let (y0, y1) = if r.quick() { (1890, 2110) } else { (0, 9999) };
        let sets: Vec<(char, Fmt, Fmt)> = ['-', '_', '0', '^']
            .iter()
            .map(|&c| {
                let a = ["C", "m", "B", "b", "h", "d", "e", "j", "U", "W", "V", "u", "w", "A", "a"].iter().map(|s| format!("%{}{}", c, s)).collect::<Vec<_>>().join("|");
                let b = ["Y", "G"].iter().map(|s| format!("%{}{}", c, s)).collect::<Vec<_>>().join("|");
                (c, Fmt::new(&a), Fmt::new(&b))
            })
            .collect();
        // `#`: documented for the all-uppercase strings; numbers have no case
        let hash = Fmt::new(&["m", "d", "e", "j", "U", "W", "V", "u", "w", "Y", "C", "G"].iter().map(|s| format!("%#{}", s)).collect::<Vec<_>>().join("|"));
        let n = for_each_day(y0, y1, |s| {
            let v = v_of(s);
            let d = jdate(s);
            let case = ymd(s);
            let tm = glibc::gmtime(s.epoch_day * 86400);
            let wide = s.y >= 1000 && s.iso_y >= 1000;
            for (_, a, b) in &sets {
                triple(r, "strftime_date_flags", a, &v, d, Some(&tm), &case, &n_glibc);
                if s.iso_y >= 0 {
                    triple(r, "strftime_date_flags", b, &v, d, if wide { Some(&tm) } else { None }, &case, &n_glibc);
                }
            }
            if s.iso_y >= 0 {
                triple(r, "strftime_date_flags", &hash, &v, d, None, &case, &n_glibc);
            }
        });
        r.add_states(n);
        r.add_transitions(n * 80);
        r.add_validated(n * 80);
        r.count("strftime_date_flags.days", n);
    });

    r.section("strftime_times", || {
        let base = Fmt::new("%H|%k|%I|%l|%M|%S|%p|%P|%T|%R");
        let flagged: Vec<Fmt> = ['-', '_', '0', '^']
            .iter()
            .map(|&c| Fmt::new(&["H", "k", "I", "l", "M", "S", "p", "P"].iter().map(|s| format!("%{}{}", c, s)).collect::<Vec<_>>().join("|")))
            .collect();
        // `^` on `%P`: jiff documents "uppercase for all relevant strings";
        // glibc keeps `%P` lower case. Compared with the documentation only.
        let flagged_p_upper = Fmt::new("%^P");
        let f2 = Fmt::new("%^H|%^k|%^I|%^l|%^M|%^S|%^p");
        let hash = Fmt::new("%#H|%#M|%#S|%#p|%#I");
        let frac = Fmt::new("%H:%M:%S%.f|%f|%.f|%1f|%3f|%6f|%9f|%.1f|%.3f|%.6f|%.9f|%2f|%.8f");
        let nanos: [i64; 14] = [0, 1, 10, 100, 1_000, 999, 100_000_000, 120_000_000, 123_000_000, 123_456_000, 123_456_789, 500_000_000, 999_999_000, 999_999_999];
        let secs: Vec<i64> = (0..86_400).collect();
        secs.par_iter().for_each(|&sod| {
            let (h, mi, s) = (sod / 3600, (sod / 60) % 60, sod % 60);
            let tm = glibc::tm_time(h, mi, s);
            let v = V::time(h, mi, s, 0);
            let t = Time::new(h as i8, mi as i8, s as i8, 0).unwrap();
            let case = format!("{:02}:{:02}:{:02}", h, mi, s);
            triple(r, "strftime_times", &base, &v, t, Some(&tm), &case, &n_glibc);
            for (i, f) in flagged.iter().enumerate() {
                if i == 3 {
                    // `^`: leave %P out of the glibc comparison
                    triple(r, "strftime_times", &f2, &v, t, Some(&tm), &case, &n_glibc);
                    triple(r, "strftime_times", &flagged_p_upper, &v, t, None, &case, &n_glibc);
                } else {
                    triple(r, "strftime_times", f, &v, t, Some(&tm), &case, &n_glibc);
                }
            }
            triple(r, "strftime_times", &hash, &v, t, None, &case, &n_glibc);
            for &ns in &nanos {
                let v = V::time(h, mi, s, ns);
                let t = Time::new(h as i8, mi as i8, s as i8, ns as i32).unwrap();
                let case = format!("{:02}:{:02}:{:02}.{:09}", h, mi, s, ns);
                triple(r, "strftime_times", &frac, &v, t, None, &case, &n_glibc);
            }
        });
        let n = 86_400u64;
        r.add_states(n * 15);
        r.add_transitions(n * (10 + 32 + 5 + 14 * 13));
        r.add_validated(n * (10 + 32 + 5 + 14 * 13));
        r.count("strftime_times.seconds_of_day", n);
    });

    r.section("strftime_flags_widths", || {
        // flags x widths on every numeric specifier over the pools (values
        // >= 0 only: padding of negative numbers is not documented); strings
        // with `^` / `#` / widths compared leniently where undocumented.
        let flags: [&str; 6] = ["", "-", "_", "0", "^", "#"];
        let widths: [&str; 5] = ["", "1", "2", "5", "10"];
        let numeric = ["Y", "C", "y", "G", "g", "m", "d", "e", "j", "U", "W", "V", "u", "w", "H", "k", "I", "l", "M", "S"];
        let strings = ["A", "a", "B", "b", "h", "p", "P"];
        let mut n = 0u64;
        let mut n_err = 0u64;
        for d in vf::pools::dates() {
            if d.year() < 0 {
                continue;
            }
            for t in vf::pools::times() {
                let dt = d.at(t.hour(), t.minute(), t.second(), t.subsec_nanosecond());
                let v = V::date(d.year() as i64, d.month() as i64, d.day() as i64).with_time(t.hour() as i64, t.minute() as i64, t.second() as i64, t.subsec_nanosecond() as i64);
                if v.iso_y < 0 {
                    continue;
                }
                let case = format!("{}", dt);
                for fl in flags {
                    for w in widths {
                        for c in numeric {
                            let f = Fmt::new(&format!("%{}{}{}", fl, w, c));
                            let mut want = String::new();
                            if f.model(&v, &mut want).is_err() {
                                n_err += 1;
                            }
                            n += 1;
                            triple(r, "strftime_flags_widths", &f, &v, dt, None, &case, &n_glibc);
                        }
                        for c in strings {
                            n += 1;
                            let text = format!("%{}{}{}", fl, w, c);
                            let f = Fmt::new(&text);
                            let documented = w.is_empty() && (fl != "#" || c == "p");
                            if documented {
                                triple(r, "strftime_flags_widths", &f, &v, dt, None, &case, &n_glibc);
                            } else {
                                // a width on a string / `#` on a mixed-case
                                // string: only the letters are checked
                                let base = Fmt::new(&format!("%{}", c));
                                let mut want = String::new();
                                base.model(&v, &mut want).unwrap();
                                match guard(|| strtime::format(&text, dt)) {
                                    Err(p) => r.viol("strftime_flags_widths", &format!("strftime[{}]/{}", text, panic_sig(&p)), format!("{} {}", text, case), p),
                                    Ok(Err(e)) => r.viol("strftime_flags_widths", &format!("strftime[{}]/unexpected-error", text), format!("{} {}", text, case), e.to_string()),
                                    Ok(Ok(g)) => {
                                        if !g.trim_start().eq_ignore_ascii_case(&want) {
                                            r.viol("strftime_flags_widths", &format!("strftime[{}]/letters", text), format!("{} {}", text, case), format!("jiff {:?} name {:?}", g, want));
                                        }
                                    }
                                }
                            }
                        }
                    }
                }
            }
        }
        r.add_states(n);
        r.add_transitions(n);
        r.add_validated(n);
        r.count("strftime_flags_widths.cases", n);
        r.outcome("strftime_flags_widths.documented_errors(two-digit year)", n_err);
    });

    r.count("model_vs_glibc_comparisons", n_glibc.load(Relaxed));
    r.require(n_glibc.load(Relaxed) > 0 || r.only_section.is_some(), "R-fmt validated against glibc in this run");
}
