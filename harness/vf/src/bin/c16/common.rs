//! Shared helpers of the C16 sections.

use crate::glibc::CFmt;
use crate::rfmt::{self, Item, V};
use jiff::civil::Date;
use rayon::prelude::*;
use refmodel::cal::{self, Succ};
use vf::Report;

pub fn succ_at(n: i64) -> Succ {
    let (y, m, d) = cal::civil_from_days(n);
    let (iy, iw, _) = cal::iso_week_date(y, m, d);
    Succ { y, m, d, wd: cal::weekday_from_days(n), doy: cal::day_of_year(y, m, d), epoch_day: n, iso_y: iy, iso_w: iw }
}

pub fn v_of(s: &Succ) -> V {
    V { has_date: true, y: s.y, m: s.m, d: s.d, wd: s.wd as i64, doy: s.doy, iso_y: s.iso_y, iso_w: s.iso_w, ..V::default() }
}

pub fn jdate(s: &Succ) -> Date {
    Date::new(s.y as i16, s.m as i8, s.d as i8).expect("R-cal date is a jiff date")
}

pub fn ymd(s: &Succ) -> String {
    if s.y < 0 {
        format!("-{:04}-{:02}-{:02}", -s.y, s.m, s.d)
    } else {
        format!("{:04}-{:02}-{:02}", s.y, s.m, s.d)
    }
}

/// Run `f` on every day of years `y0..=y1` (successor machine, in parallel
/// chunks); returns the number of days visited.
pub fn for_each_day<F: Fn(&Succ) + Sync>(y0: i64, y1: i64, f: F) -> u64 {
    let lo = cal::days_from_civil(y0, 1, 1);
    let hi = cal::days_from_civil(y1, 12, 31);
    let total = hi - lo + 1;
    let n = 512.min(total);
    let bounds: Vec<(i64, i64)> = (0..n).map(|c| (lo + total * c / n, lo + total * (c + 1) / n - 1)).collect();
    bounds
        .par_iter()
        .map(|&(a, b)| {
            let mut s = succ_at(a);
            let mut k = 0u64;
            loop {
                f(&s);
                k += 1;
                if s.epoch_day == b {
                    break;
                }
                s = s.next();
            }
            k
        })
        .sum()
}

/// A format string prepared for all three sides.
pub struct Fmt {
    pub text: String,
    pub items: Vec<Item>,
    pub c: CFmt,
}

impl Fmt {
    pub fn new(text: &str) -> Fmt {
        Fmt { text: text.to_string(), items: rfmt::parse_fmt(text), c: CFmt::new(text) }
    }
    pub fn model(&self, v: &V, out: &mut String) -> Result<(), String> {
        rfmt::format(&self.items, v, out)
    }
}

/// Report a difference between two renderings of a `|`-separated composite
/// format, one signature per differing conversion.
pub fn blame(r: &Report, section: &str, op: &str, class: &str, fmt: &str, case: &str, got: &str, want: &str, sides: &str) {
    let fs: Vec<&str> = fmt.split('|').collect();
    let gs: Vec<&str> = got.split('|').collect();
    let ws: Vec<&str> = want.split('|').collect();
    if fs.len() == gs.len() && fs.len() == ws.len() {
        for i in 0..fs.len() {
            if gs[i] != ws[i] {
                r.viol(section, &format!("{}[{}]/value{}", op, fs[i], class), format!("{} {}", fs[i], case), format!("{}: {:?} vs {:?}", sides, gs[i], ws[i]));
            }
        }
    } else {
        r.viol(section, &format!("{}[{}]/value{}", op, fmt, class), format!("{} {}", fmt, case), format!("{}: {:?} vs {:?}", sides, got, want));
    }
}

/// Per-chunk violation aggregation: known defects fire millions of times
/// (every Tuesday, every date) and `Report::viol` takes a global lock, so the
/// violations of one chunk are grouped locally and flushed once. Counts and
/// the minimal case are preserved exactly. In replay mode (`--only-case`) the
/// aggregation is bypassed so that the requested case is never shadowed.
pub struct Local<'r> {
    r: &'r Report,
    section: &'static str,
    agg: std::collections::HashMap<String, (u64, String, String)>,
}

impl<'r> Local<'r> {
    pub fn new(r: &'r Report, section: &'static str) -> Local<'r> {
        Local { r, section, agg: std::collections::HashMap::new() }
    }
    pub fn viol(&mut self, sig: &str, case: String, detail: impl FnOnce() -> String) {
        if self.r.only_case.is_some() {
            self.r.viol(self.section, sig, case, detail());
            return;
        }
        match self.agg.get_mut(sig) {
            None => {
                self.agg.insert(sig.to_string(), (1, case, detail()));
            }
            Some(e) => {
                e.0 += 1;
                if (case.len(), &case) < (e.1.len(), &e.1) {
                    e.1 = case;
                    e.2 = detail();
                }
            }
        }
    }
    pub fn flush(&mut self) {
        for (sig, (n, case, detail)) in self.agg.drain() {
            self.r.viol(self.section, &sig, case.clone(), detail);
            for _ in 1..n {
                self.r.viol(self.section, &sig, case.clone(), "");
            }
        }
    }
}

/// Like `for_each_day`, with a per-chunk `Local`.
pub fn for_each_day_local<F: Fn(&Succ, &mut Local) + Sync>(r: &Report, section: &'static str, y0: i64, y1: i64, f: F) -> u64 {
    let lo = cal::days_from_civil(y0, 1, 1);
    let hi = cal::days_from_civil(y1, 12, 31);
    let total = hi - lo + 1;
    let n = 512.min(total);
    let bounds: Vec<(i64, i64)> = (0..n).map(|c| (lo + total * c / n, lo + total * (c + 1) / n - 1)).collect();
    bounds
        .par_iter()
        .map(|&(a, b)| {
            let mut l = Local::new(r, section);
            let mut s = succ_at(a);
            let mut k = 0u64;
            loop {
                f(&s, &mut l);
                k += 1;
                if s.epoch_day == b {
                    break;
                }
                s = s.next();
            }
            l.flush();
            k
        })
        .sum()
}
