//! R-fmt: an independent strftime interpreter written from jiff's documented
//! specifier table (src/fmt/strtime/mod.rs, "Conversion specifications") on
//! top of R-cal facts. It knows nothing of jiff's implementation.
//!
//! Documented conventions encoded here (and nowhere taken from glibc):
//! * `%Y` / `%G` zero padded to 4 digits, `%C` no padding, `%y`/`%g` only for
//!   1969..=2068 (an error otherwise), `%j` 3 digits, `%e %k %l` space padded;
//! * flags: `_` pad with spaces, `0` pad with zeros, `-` no padding at all,
//!   `^` uppercase strings, `#` swaps the case of the all-uppercase strings
//!   (`%p`, `%Z`); a width is the minimum amount of padding and replaces the
//!   default width; `%z`/`%:z` are unaffected by flags;
//! * `%f`: at least one digit, trailing zeros trimmed, width = precision
//!   (truncation); `%.f`: empty when zero, otherwise with the dot.
//! Values are required to be non-negative wherever padding matters; the
//! callers keep negative years out of the formatting comparisons.

pub const WD_FULL: [&str; 7] = ["Sunday", "Monday", "Tuesday", "Wednesday", "Thursday", "Friday", "Saturday"];
pub const WD_ABBR: [&str; 7] = ["Sun", "Mon", "Tue", "Wed", "Thu", "Fri", "Sat"];
pub const MON_FULL: [&str; 12] =
    ["January", "February", "March", "April", "May", "June", "July", "August", "September", "October", "November", "December"];
pub const MON_ABBR: [&str; 12] = ["Jan", "Feb", "Mar", "Apr", "May", "Jun", "Jul", "Aug", "Sep", "Oct", "Nov", "Dec"];

/// The value being formatted, as plain facts.
#[derive(Clone, Debug, Default)]
pub struct V {
    pub has_date: bool,
    pub y: i64,
    pub m: i64,
    pub d: i64,
    /// 0 = Sunday
    pub wd: i64,
    /// 1-based
    pub doy: i64,
    pub iso_y: i64,
    pub iso_w: i64,
    pub has_time: bool,
    pub h: i64,
    pub mi: i64,
    pub s: i64,
    pub ns: i64,
    /// UTC offset in seconds
    pub off: Option<i64>,
    pub abbr: Option<String>,
    pub iana: Option<String>,
    /// Unix time in seconds, floor (C's time_t)
    pub unix: Option<i64>,
}

impl V {
    pub fn date(y: i64, m: i64, d: i64) -> V {
        use refmodel::cal;
        let n = cal::days_from_civil(y, m, d);
        let (iy, iw, _) = cal::iso_week_date(y, m, d);
        V { has_date: true, y, m, d, wd: cal::weekday_from_days(n) as i64, doy: cal::day_of_year(y, m, d), iso_y: iy, iso_w: iw, ..V::default() }
    }
    pub fn with_time(mut self, h: i64, mi: i64, s: i64, ns: i64) -> V {
        self.has_time = true;
        self.h = h;
        self.mi = mi;
        self.s = s;
        self.ns = ns;
        self
    }
    pub fn time(h: i64, mi: i64, s: i64, ns: i64) -> V {
        V::default().with_time(h, mi, s, ns)
    }
}

#[derive(Clone, Debug, PartialEq, Eq)]
pub enum Item {
    Lit(char),
    Spec { flag: Option<char>, width: Option<usize>, conv: String, text: String },
}

/// Split a format string into literals and conversion specifications.
pub fn parse_fmt(fmt: &str) -> Vec<Item> {
    let cs: Vec<char> = fmt.chars().collect();
    let mut out = vec![];
    let mut i = 0;
    while i < cs.len() {
        if cs[i] != '%' {
            out.push(Item::Lit(cs[i]));
            i += 1;
            continue;
        }
        let start = i;
        i += 1;
        let mut flag = None;
        if i < cs.len() && matches!(cs[i], '_' | '0' | '-' | '^' | '#') {
            flag = Some(cs[i]);
            i += 1;
        }
        let mut width: Option<usize> = None;
        while i < cs.len() && cs[i].is_ascii_digit() {
            width = Some(width.unwrap_or(0) * 10 + cs[i].to_digit(10).unwrap() as usize);
            i += 1;
        }
        let mut conv = String::new();
        if i < cs.len() && cs[i] == ':' {
            conv.push(':');
            i += 1;
        } else if i < cs.len() && cs[i] == '.' {
            conv.push('.');
            i += 1;
            // a precision after the dot overrides digits before it
            let mut w2: Option<usize> = None;
            while i < cs.len() && cs[i].is_ascii_digit() {
                w2 = Some(w2.unwrap_or(0) * 10 + cs[i].to_digit(10).unwrap() as usize);
                i += 1;
            }
            width = w2;
        }
        conv.push(cs[i]);
        i += 1;
        out.push(Item::Spec { flag, width, conv, text: cs[start..i].iter().collect() });
    }
    out
}

fn num(out: &mut String, v: i64, pad: char, width: Option<usize>, flag: Option<char>, user_width: Option<usize>) {
    assert!(v >= 0, "R-fmt pads non-negative values only");
    let pad = match flag {
        Some('0') => '0',
        Some('_') => ' ',
        _ => pad,
    };
    let width = if flag == Some('-') { None } else { user_width.or(width) };
    let digits = v.to_string();
    if let Some(w) = width {
        for _ in digits.len()..w {
            out.push(pad);
        }
    }
    out.push_str(&digits);
}

/// `upper_default`: the string is all upper case by default (`%p`, `%Z`).
fn string(out: &mut String, s: &str, flag: Option<char>, upper_default: bool) {
    match flag {
        Some('^') => out.push_str(&s.to_uppercase()),
        Some('#') if upper_default => out.push_str(&s.to_lowercase()),
        _ => out.push_str(s),
    }
}

fn offset(out: &mut String, off: i64, colon: bool) {
    out.push(if off < 0 { '-' } else { '+' });
    let a = off.abs();
    let (h, m, s) = (a / 3600, (a / 60) % 60, a % 60);
    out.push_str(&format!("{:02}", h));
    if colon {
        out.push(':');
    }
    out.push_str(&format!("{:02}", m));
    if s != 0 {
        if colon {
            out.push(':');
        }
        out.push_str(&format!("{:02}", s));
    }
}

fn fraction(out: &mut String, ns: i64, precision: Option<usize>) {
    let nine = format!("{:09}", ns);
    match precision {
        Some(p) => out.push_str(&nine[..p.min(9)]),
        None => out.push_str(nine.trim_end_matches('0')),
    }
}

/// Format one conversion. `Err(())` = the documentation says this cannot be
/// formatted (missing fields, two-digit year out of 1969..=2068).
pub fn one(out: &mut String, flag: Option<char>, width: Option<usize>, conv: &str, v: &V) -> Result<(), ()> {
    let need_date = || if v.has_date { Ok(()) } else { Err(()) };
    let need_time = || if v.has_time { Ok(()) } else { Err(()) };
    let h12 = if v.h % 12 == 0 { 12 } else { v.h % 12 };
    match conv {
        "%" => out.push('%'),
        "n" => out.push('\n'),
        "t" => out.push('\t'),
        "A" => {
            need_date()?;
            string(out, WD_FULL[v.wd as usize], flag, false)
        }
        "a" => {
            need_date()?;
            string(out, WD_ABBR[v.wd as usize], flag, false)
        }
        "B" => {
            need_date()?;
            string(out, MON_FULL[(v.m - 1) as usize], flag, false)
        }
        "b" | "h" => {
            need_date()?;
            string(out, MON_ABBR[(v.m - 1) as usize], flag, false)
        }
        "C" => {
            need_date()?;
            num(out, v.y / 100, ' ', None, flag, width)
        }
        "Y" => {
            need_date()?;
            num(out, v.y, '0', Some(4), flag, width)
        }
        "y" => {
            need_date()?;
            if !(1969..=2068).contains(&v.y) {
                return Err(());
            }
            num(out, v.y % 100, '0', Some(2), flag, width)
        }
        "G" => {
            need_date()?;
            num(out, v.iso_y, '0', Some(4), flag, width)
        }
        "g" => {
            need_date()?;
            if !(1969..=2068).contains(&v.iso_y) {
                return Err(());
            }
            num(out, v.iso_y % 100, '0', Some(2), flag, width)
        }
        "m" => {
            need_date()?;
            num(out, v.m, '0', Some(2), flag, width)
        }
        "d" => {
            need_date()?;
            num(out, v.d, '0', Some(2), flag, width)
        }
        "e" => {
            need_date()?;
            num(out, v.d, ' ', Some(2), flag, width)
        }
        "j" => {
            need_date()?;
            num(out, v.doy, '0', Some(3), flag, width)
        }
        // POSIX: week 1 starts with the first Sunday (resp. Monday)
        "U" => {
            need_date()?;
            num(out, (v.doy - 1 + 7 - v.wd) / 7, '0', Some(2), flag, width)
        }
        "W" => {
            need_date()?;
            num(out, (v.doy - 1 + 7 - (v.wd + 6) % 7) / 7, '0', Some(2), flag, width)
        }
        "V" => {
            need_date()?;
            num(out, v.iso_w, '0', Some(2), flag, width)
        }
        "u" => {
            need_date()?;
            num(out, if v.wd == 0 { 7 } else { v.wd }, ' ', None, flag, width)
        }
        "w" => {
            need_date()?;
            num(out, v.wd, ' ', None, flag, width)
        }
        "F" => {
            one(out, flag, width, "Y", v)?;
            out.push('-');
            one(out, flag, width, "m", v)?;
            out.push('-');
            one(out, flag, width, "d", v)?;
        }
        "D" => {
            one(out, flag, width, "m", v)?;
            out.push('/');
            one(out, flag, width, "d", v)?;
            out.push('/');
            one(out, flag, width, "y", v)?;
        }
        "H" => {
            need_time()?;
            num(out, v.h, '0', Some(2), flag, width)
        }
        "k" => {
            need_time()?;
            num(out, v.h, ' ', Some(2), flag, width)
        }
        "I" => {
            need_time()?;
            num(out, h12, '0', Some(2), flag, width)
        }
        "l" => {
            need_time()?;
            num(out, h12, ' ', Some(2), flag, width)
        }
        "M" => {
            need_time()?;
            num(out, v.mi, '0', Some(2), flag, width)
        }
        "S" => {
            need_time()?;
            num(out, v.s, '0', Some(2), flag, width)
        }
        "p" => {
            need_time()?;
            string(out, if v.h < 12 { "AM" } else { "PM" }, flag, true)
        }
        "P" => {
            need_time()?;
            string(out, if v.h < 12 { "am" } else { "pm" }, flag, false)
        }
        "T" => {
            one(out, flag, width, "H", v)?;
            out.push(':');
            one(out, flag, width, "M", v)?;
            out.push(':');
            one(out, flag, width, "S", v)?;
        }
        "R" => {
            one(out, flag, width, "H", v)?;
            out.push(':');
            one(out, flag, width, "M", v)?;
        }
        "f" => {
            need_time()?;
            if width == Some(0) {
                return Err(());
            }
            if v.ns == 0 && width.is_none() {
                out.push('0');
            } else {
                fraction(out, v.ns, width)
            }
        }
        ".f" => {
            if !v.has_time {
                return Ok(());
            }
            if (v.ns == 0 && width.is_none()) || width == Some(0) {
                return Ok(());
            }
            out.push('.');
            fraction(out, v.ns, width)
        }
        "z" => offset(out, v.off.ok_or(())?, false),
        ":z" => offset(out, v.off.ok_or(())?, true),
        "Z" => string(out, v.abbr.as_deref().ok_or(())?, flag, true),
        "Q" => match &v.iana {
            Some(n) => out.push_str(n),
            None => offset(out, v.off.ok_or(())?, false),
        },
        ":Q" => match &v.iana {
            Some(n) => out.push_str(n),
            None => offset(out, v.off.ok_or(())?, true),
        },
        "s" => {
            let u = v.unix.ok_or(())?;
            if u < 0 {
                // sign, then the magnitude; padding of negative numbers is
                // not documented and not exercised
                assert!(flag.is_none() && width.is_none());
                out.push('-');
                out.push_str(&(-(u as i128)).to_string());
            } else {
                num(out, u, ' ', None, flag, width)
            }
        }
        other => panic!("R-fmt: unknown conversion %{}", other),
    }
    Ok(())
}

/// Format a whole format string. `Err(text of the failing conversion)`.
pub fn format(items: &[Item], v: &V, out: &mut String) -> Result<(), String> {
    out.clear();
    for it in items {
        match it {
            Item::Lit(c) => out.push(*c),
            Item::Spec { flag, width, conv, text } => one(out, *flag, *width, conv, v).map_err(|_| text.clone())?,
        }
    }
    Ok(())
}
