//! Round trips of determinate formats and rejection of contradictory text
//! (civil types).

use crate::common::*;
use crate::rfmt::{V, WD_ABBR, WD_FULL};
use jiff::civil::{Date, DateTime, Time};
use jiff::fmt::strtime;
use rayon::prelude::*;
use refmodel::cal::{self, Succ};
use std::sync::atomic::{AtomicU64, Ordering::Relaxed};
use vf::{guard, panic_sig, Report};

/// Input-derived failure class of a date round trip: the F21 class is
/// "format contains %A and the date is a Tuesday".
fn date_class(fmt: &str, s: &Succ) -> &'static str {
    if fmt.contains("%A") && s.wd == 2 {
        ":%A,weekday=Tuesday"
    } else {
        ""
    }
}

/// format with jiff, compare the text with R-fmt, parse it back with the same
/// format, compare with the original date.
fn date_roundtrip(l: &mut Local, f: &Fmt, s: &Succ, check_text: bool) {
    let d = jdate(s);
    let case = || format!("{} {}", f.text, ymd(s));
    let text = match guard(|| strtime::format(&f.text, d)) {
        Err(p) => return l.viol(&format!("strftime[{}]/{}", f.text, panic_sig(&p)), case(), || p.clone()),
        Ok(Err(e)) => return l.viol(&format!("strftime[{}]/unexpected-error", f.text), case(), || e.to_string()),
        Ok(Ok(t)) => t,
    };
    if check_text {
        let mut want = String::new();
        if f.model(&v_of(s), &mut want).is_ok() && want != text {
            l.viol(&format!("strftime[{}]/value", f.text), case(), || format!("jiff {:?} R-fmt {:?}", text, want));
        }
    }
    match guard(|| Date::strptime(&f.text, &text)) {
        Err(p) => l.viol(&format!("Date::strptime[{}]/{}", f.text, panic_sig(&p)), case(), || format!("text {:?}: {}", text, p)),
        Ok(Err(e)) => {
            let class = date_class(&f.text, s);
            // a known input class maps to one signature whatever the format
            let sig = if class.is_empty() { format!("Date::strptime[{}]/rejects-formatted-text", f.text) } else { format!("Date::strptime/rejects-formatted-text{}", class) };
            l.viol(&sig, case(), || format!("text {:?}: {}", text, e))
        }
        Ok(Ok(back)) => {
            if back != d {
                l.viol(&format!("Date::strptime[{}]/roundtrip-value", f.text), case(), || format!("text {:?} parsed {} original {}", text, back, d));
            }
        }
    }
}

const DATE_FORMATS: [&str; 14] = [
    "%Y-%m-%d",
    "%Y-%j",
    "%G-W%V-%u",
    "%Y %U %w",
    "%Y %W %u",
    "%A %Y-%m-%d",
    "%a, %d %b %Y",
    "%F",
    "%B %e, %Y",
    "%Y%m%d",
    "%d/%m/%Y",
    "%G-W%V-%a",
    "%Y %W %a",
    "%Y week %U day %A",
];
/// Formats with a two-digit year: determinate only inside the documented
/// pivot window 1969..=2068.
const DATE_FORMATS_Y2: [&str; 5] = ["%y-%m-%d", "%D", "%g-W%V-%u", "%C%y-%m-%d", "%-m/%-d/%y"];
/// Determinate formats under flags and widths: what a flag or width prints,
/// the same flag or width reads back (no padding, space padding, wider zero
/// padding, upper-cased names). Run over one whole 400-year cycle and the
/// years around every digit-count step (quick) / all years (thorough).
const DATE_FORMATS_FLAGGED: [&str; 8] = ["%-d.%-m.%-Y", "%_d %_m %_Y", "%^a %e %^b %5Y", "%05Y%03m%03d", "%-j/%-Y", "%_j %Y", "%-G-W%-V-%u", "%Y %-U %w %^B"];
/// Formats that stay determinate for negative years (sign + 4 digits).
const DATE_FORMATS_NEG: [&str; 7] = ["%Y-%m-%d", "%Y-%j", "%G-W%V-%u", "%A %Y-%m-%d", "%F", "%Y%m%d", "%Y %U %w"];

pub fn run(r: &Report) {
    r.section("roundtrip_dates", || {
        // quick: the seven determinate formats of the design; thorough: all
        let nf = if r.quick() { 7 } else { DATE_FORMATS.len() };
        let fs: Vec<Fmt> = DATE_FORMATS[..nf].iter().map(|t| Fmt::new(t)).collect();
        let fy2: Vec<Fmt> = DATE_FORMATS_Y2.iter().map(|t| Fmt::new(t)).collect();
        let tuesdays = AtomicU64::new(0);
        let n = for_each_day_local(r, "roundtrip_dates", 0, 9999, |s, l| {
            if s.wd == 2 {
                tuesdays.fetch_add(1, Relaxed);
            }
            for f in &fs {
                // ISO year -1 (first days of year 0): text compared by round trip only
                date_roundtrip(l, f, s, s.iso_y >= 0);
            }
            if (1969..=2068).contains(&s.y) && (1969..=2068).contains(&s.iso_y) {
                for f in &fy2 {
                    date_roundtrip(l, f, s, true);
                }
            }
        });
        r.add_states(n);
        r.add_transitions(n * fs.len() as u64 * 2);
        r.add_validated(n * fs.len() as u64 * 2);
        r.count("roundtrip_dates.days", n);
        r.outcome("roundtrip_dates.tuesdays", tuesdays.load(Relaxed));
        r.require(n == 3_652_425, "all dates of years 0..=9999 round-tripped");
    });

    r.section("roundtrip_dates_flagged", || {
        let fs: Vec<Fmt> = DATE_FORMATS_FLAGGED.iter().map(|t| Fmt::new(t)).collect();
        let ranges: Vec<(i64, i64)> = if r.quick() { vec![(0, 1), (9, 10), (99, 100), (999, 1000), (1800, 2199), (9998, 9999)] } else { vec![(0, 9999)] };
        let mut n = 0;
        for (a, b) in ranges {
            n += for_each_day_local(r, "roundtrip_dates_flagged", a, b, |s, l| {
                for f in &fs {
                    date_roundtrip(l, f, s, s.iso_y >= 0);
                }
            });
        }
        r.add_states(n);
        r.add_transitions(n * fs.len() as u64 * 2);
        r.add_validated(n * fs.len() as u64 * 2);
        r.count("roundtrip_dates_flagged.days", n);
        r.require(n >= 146_097, "a whole 400-year cycle round-tripped under flags and widths");
    });

    r.section("roundtrip_dates_negative", || {
        let fs: Vec<Fmt> = DATE_FORMATS_NEG.iter().map(|t| Fmt::new(t)).collect();
        let ranges: Vec<(i64, i64)> = if r.quick() { vec![(-9999, -9990), (-410, -1)] } else { vec![(-9999, -1)] };
        let mut n = 0;
        for (a, b) in ranges {
            n += for_each_day_local(r, "roundtrip_dates_negative", a, b, |s, l| {
                for f in &fs {
                    date_roundtrip(l, f, s, false);
                }
            });
        }
        r.add_states(n);
        r.add_transitions(n * fs.len() as u64 * 2);
        r.add_validated(n * fs.len() as u64);
        r.count("roundtrip_dates_negative.days", n);
    });

    r.section("contradictions_dates", || {
        // text whose fields contradict each other must be rejected
        let all = r.thorough();
        let (accepted_j, rejected_wd) = (AtomicU64::new(0), AtomicU64::new(0));
        let n = for_each_day_local(r, "contradictions_dates", 0, 9999, |s, l| {
            let base = ymd(s);
            let mut reject = |fmt: &str, text: String, what: &str| {
                match guard(|| Date::strptime(fmt, &text)) {
                    Err(p) => l.viol(&format!("Date::strptime[{}]/{}", fmt, panic_sig(&p)), format!("{} {:?}", fmt, text), || p.clone()),
                    Ok(Err(_)) => {
                        rejected_wd.fetch_add(1, Relaxed);
                    }
                    Ok(Ok(d)) => {
                        if what == "%j" {
                            accepted_j.fetch_add(1, Relaxed);
                        }
                        l.viol(&format!("Date::strptime[{}]/contradiction-accepted:{}", fmt, what), format!("{} {:?}", fmt, text), || format!("accepted as {}", d))
                    }
                }
            };
            for k in 1..=6usize {
                let w = (s.wd as usize + k) % 7;
                reject("%A %Y-%m-%d", format!("{} {}", WD_FULL[w], base), "wrong-weekday");
                if all || k == 1 {
                    reject("%u %Y-%m-%d", format!("{} {}", if w == 0 { 7 } else { w }, base), "wrong-weekday");
                }
                // every way of fixing the date (month/day, ordinal day) is paired
                // with every weekday specifier: quick with one wrong weekday per
                // date, thorough with all six
                if all || k == 1 {
                    reject("%a %Y-%m-%d", format!("{} {}", WD_ABBR[w], base), "wrong-weekday");
                    reject("%w %Y-%m-%d", format!("{} {}", w, base), "wrong-weekday");
                    reject("%Y-%j %a", format!("{:04}-{:03} {}", s.y, s.doy, WD_ABBR[w]), "wrong-weekday");
                    reject("%A %Y-%j", format!("{} {:04}-{:03}", WD_FULL[w], s.y, s.doy), "wrong-weekday");
                    reject("%Y-%j %u", format!("{:04}-{:03} {}", s.y, s.doy, if w == 0 { 7 } else { w }), "wrong-weekday");
                }
            }
            // a day of year that names another day of the same year
            let other = s.doy % cal::days_in_year(s.y) + 1;
            reject("%Y-%m-%d %j", format!("{} {:03}", base, other), "%j");
        });
        r.add_states(n);
        r.add_transitions(n * if all { 43 } else { 13 });
        r.add_validated(n * if all { 43 } else { 13 });
        r.count("contradictions_dates.days", n);
        r.outcome("contradictions_dates.rejected", rejected_wd.load(Relaxed));
        r.outcome("contradictions_dates.wrong_%j_accepted", accepted_j.load(Relaxed));
        r.require(rejected_wd.load(Relaxed) > 0, "contradictory texts were rejected");
    });

    r.section("roundtrip_times", || {
        // (format, granularity in ns of what the format can carry)
        let fs: Vec<(Fmt, i64)> = [
            ("%H:%M:%S%.f", 1i64),
            ("%H:%M:%S.%f", 1),
            ("%H:%M:%S.%9f", 1),
            ("%H:%M:%S", 1_000_000_000),
            ("%T", 1_000_000_000),
            ("%I:%M:%S %p", 1_000_000_000),
            ("%l:%M:%S%P", 1_000_000_000),
            ("%k:%M:%S", 1_000_000_000),
            ("%I:%M:%S%.f %p", 1),
            ("%H:%M:%S%.3f", 1_000_000),
            ("%H:%M:%S.%6f", 1_000),
            ("%R", 60_000_000_000),
            ("%H:%M", 60_000_000_000),
            ("%I:%M %p", 60_000_000_000),
            ("%H", 3_600_000_000_000),
            ("%I%P", 3_600_000_000_000),
            ("%-H:%-M:%-S%.f", 1),
            ("%_I:%_M:%_S.%9f %#p", 1),
            ("%3H:%3M:%3S.%f", 1),
            ("%p %l.%M.%S", 1_000_000_000),
        ]
        .iter()
        .map(|(t, g)| (Fmt::new(t), *g))
        .collect();
        let nanos: [i64; 8] = [0, 1, 1_000, 123_456_789, 500_000_000, 999_000_000, 999_999_000, 999_999_999];
        let secs: Vec<i64> = (0..86_400).collect();
        secs.par_iter().for_each(|&sod| {
            let (h, mi, s) = (sod / 3600, (sod / 60) % 60, sod % 60);
            for &ns in &nanos {
                let t = Time::new(h as i8, mi as i8, s as i8, ns as i32).unwrap();
                let v = V::time(h, mi, s, ns);
                let total = sod as i128 * 1_000_000_000 + ns as i128;
                for (f, gran) in &fs {
                    if ns != 0 && *gran >= 1_000_000_000 && ns != 123_456_789 {
                        continue; // one fractional representative is enough for coarse formats
                    }
                    let case = || format!("{} {:02}:{:02}:{:02}.{:09}", f.text, h, mi, s, ns);
                    let text = match guard(|| strtime::format(&f.text, t)) {
                        Err(p) => {
                            r.viol("roundtrip_times", &format!("strftime[{}]/{}", f.text, panic_sig(&p)), case(), p);
                            continue;
                        }
                        Ok(Err(e)) => {
                            r.viol("roundtrip_times", &format!("strftime[{}]/unexpected-error", f.text), case(), e.to_string());
                            continue;
                        }
                        Ok(Ok(x)) => x,
                    };
                    let mut want = String::new();
                    if f.model(&v, &mut want).is_ok() && want != text {
                        r.viol("roundtrip_times", &format!("strftime[{}]/value", f.text), case(), format!("jiff {:?} R-fmt {:?}", text, want));
                    }
                    let expect = total - total % (*gran as i128);
                    match guard(|| Time::strptime(&f.text, &text)) {
                        Err(p) => r.viol("roundtrip_times", &format!("Time::strptime[{}]/{}", f.text, panic_sig(&p)), case(), format!("text {:?}: {}", text, p)),
                        Ok(Err(e)) => r.viol("roundtrip_times", &format!("Time::strptime[{}]/rejects-formatted-text", f.text), case(), format!("text {:?}: {}", text, e)),
                        Ok(Ok(back)) => {
                            if vf::conv::time_ns(back) != expect {
                                r.viol("roundtrip_times", &format!("Time::strptime[{}]/roundtrip-value", f.text), case(), format!("text {:?} parsed {} expected {} ns of day", text, back, expect));
                            }
                        }
                    }
                }
            }
        });
        let n = 86_400u64 * 8;
        r.add_states(n);
        r.add_transitions(n * 8 * 2);
        r.add_validated(n * 8);
        r.count("roundtrip_times.times", n);
    });

    r.section("roundtrip_datetimes", || {
        let fs: Vec<Fmt> = ["%Y-%m-%dT%H:%M:%S%.f", "%F %T%.f", "%Y-%j %I:%M:%S%.f %p", "%a %b %e %H:%M:%S.%f %Y", "%G-W%V-%u %k:%M:%S.%9f", "%Y%m%d%H%M%S%.f"].iter().map(|t| Fmt::new(t)).collect();
        let mut n = 0u64;
        for d in vf::pools::dates() {
            for t in vf::pools::times() {
                let dt = DateTime::from_parts(d, t);
                let v = V::date(d.year() as i64, d.month() as i64, d.day() as i64).with_time(t.hour() as i64, t.minute() as i64, t.second() as i64, t.subsec_nanosecond() as i64);
                for f in &fs {
                    n += 1;
                    let case = format!("{} {}", f.text, dt);
                    let text = match guard(|| strtime::format(&f.text, dt)) {
                        Err(p) => {
                            r.viol("roundtrip_datetimes", &format!("strftime[{}]/{}", f.text, panic_sig(&p)), case, p);
                            continue;
                        }
                        Ok(Err(e)) => {
                            r.viol("roundtrip_datetimes", &format!("strftime[{}]/unexpected-error", f.text), case, e.to_string());
                            continue;
                        }
                        Ok(Ok(x)) => x,
                    };
                    if v.y >= 0 && v.iso_y >= 0 {
                        let mut want = String::new();
                        if f.model(&v, &mut want).is_ok() && want != text {
                            r.viol("roundtrip_datetimes", &format!("strftime[{}]/value", f.text), case.clone(), format!("jiff {:?} R-fmt {:?}", text, want));
                        }
                    }
                    // entry points must agree: DateTime::strftime (Display) and BrokenDownTime
                    match guard(|| dt.strftime(&f.text).to_string()) {
                        Err(p) => r.viol("roundtrip_datetimes", &format!("DateTime::strftime[{}]/{}", f.text, panic_sig(&p)), case.clone(), p),
                        Ok(t2) => {
                            if t2 != text {
                                r.viol("roundtrip_datetimes", &format!("DateTime::strftime[{}]/differs-from-strtime::format", f.text), case.clone(), format!("{:?} vs {:?}", t2, text));
                            }
                        }
                    }
                    match guard(|| (DateTime::strptime(&f.text, &text), strtime::parse(&f.text, &text).and_then(|tm| tm.to_datetime()))) {
                        Err(p) => r.viol("roundtrip_datetimes", &format!("DateTime::strptime[{}]/{}", f.text, panic_sig(&p)), case, format!("text {:?}: {}", text, p)),
                        Ok((a, b)) => {
                            match &a {
                                Err(e) => r.viol("roundtrip_datetimes", &format!("DateTime::strptime[{}]/rejects-formatted-text", f.text), case.clone(), format!("text {:?}: {}", text, e)),
                                Ok(back) => {
                                    if *back != dt {
                                        r.viol("roundtrip_datetimes", &format!("DateTime::strptime[{}]/roundtrip-value", f.text), case.clone(), format!("text {:?} parsed {} original {}", text, back, dt));
                                    }
                                }
                            }
                            if a.as_ref().ok() != b.as_ref().ok() {
                                r.viol("roundtrip_datetimes", &format!("strtime::parse[{}]/differs-from-DateTime::strptime", f.text), case, format!("{:?} vs {:?}", a.ok(), b.ok()));
                            }
                        }
                    }
                }
            }
        }
        r.add_states(n);
        r.add_transitions(n * 4);
        r.add_validated(n * 2);
        r.count("roundtrip_datetimes.cases", n);
    });
}
