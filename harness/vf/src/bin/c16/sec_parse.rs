//! strptime, directive by directive: the accepted input forms (padding,
//! optional leading zeros, case of names, signs, whitespace rules, `%f` vs
//! `%.f`, the `%z` / `%:z` / `%Q` / `%:Q` shapes, pivots, 12-hour clock), the
//! documented errors (out-of-range values, `%Z`, missing fields) and the
//! reconciliation of redundant fields in `BrokenDownTime::to_*`.
//!
//! Oracle: the value the text names, computed here from the generator's own
//! integers (never from jiff), and the documentation's rules.

use crate::common::*;
use crate::rfmt::{MON_ABBR, MON_FULL, WD_ABBR, WD_FULL};
use jiff::civil::{Date, DateTime, Time, Weekday};
use jiff::fmt::strtime::{self, BrokenDownTime, Meridiem};
use jiff::tz::Offset;
use jiff::{Timestamp, Zoned};
use refmodel::cal;
use std::sync::atomic::{AtomicU64, Ordering::Relaxed};
use vf::{guard, panic_sig, Report};

const SEC: &str = "strptime_forms";

struct Ctx<'r> {
    r: &'r Report,
    n_ok: AtomicU64,
    n_err: AtomicU64,
}

impl<'r> Ctx<'r> {
    /// `fmt` on `text` must parse and `get` must return `want`.
    fn accept<T: PartialEq + std::fmt::Debug>(&self, fmt: &str, text: &str, class: &str, want: T, get: impl Fn(&BrokenDownTime) -> T) {
        let case = format!("{} {:?}", fmt, text);
        match guard(|| strtime::parse(fmt, text).map(|tm| get(&tm))) {
            Err(p) => self.r.viol(SEC, &format!("strtime::parse[{}]/{}", fmt, panic_sig(&p)), case, p),
            Ok(Err(e)) => {
                // F21's input class keeps the one signature it is recorded under
                let sig = if class == ":%A,weekday=Tuesday" { "Date::strptime/rejects-formatted-text:%A,weekday=Tuesday".to_string() } else { format!("strtime::parse[{}]/rejects-documented-form{}", fmt, class) };
                self.r.viol(SEC, &sig, case, e.to_string())
            }
            Ok(Ok(g)) => {
                if g == want {
                    self.n_ok.fetch_add(1, Relaxed);
                } else {
                    self.r.viol(SEC, &format!("strtime::parse[{}]/value{}", fmt, class), case, format!("jiff {:?} expected {:?}", g, want));
                }
            }
        }
    }
    /// `fmt` on `text` must be refused (by the parse itself).
    fn refuse(&self, fmt: &str, text: &str, class: &str) {
        let case = format!("{} {:?}", fmt, text);
        match guard(|| strtime::parse(fmt, text).map(|tm| format!("{:?}", tm))) {
            Err(p) => self.r.viol(SEC, &format!("strtime::parse[{}]/{}", fmt, panic_sig(&p)), case, p),
            Ok(Err(_)) => {
                self.n_err.fetch_add(1, Relaxed);
            }
            Ok(Ok(tm)) => self.r.viol(SEC, &format!("strtime::parse[{}]/accepts-invalid{}", fmt, class), case, tm),
        }
    }
}

fn case_variants(s: &str) -> Vec<String> {
    let swap: String = s.chars().map(|c| if c.is_ascii_uppercase() { c.to_ascii_lowercase() } else { c.to_ascii_uppercase() }).collect();
    vec![s.to_string(), s.to_lowercase(), s.to_uppercase(), swap]
}

fn wd_of(i: usize) -> Weekday {
    [Weekday::Sunday, Weekday::Monday, Weekday::Tuesday, Weekday::Wednesday, Weekday::Thursday, Weekday::Friday, Weekday::Saturday][i]
}

pub fn run(r: &Report) {
    r.section(SEC, || forms(r));
    r.section("strptime_missing_fields", || missing(r));
    r.section("strptime_redundant_fields", || redundant(r));
    r.section("strptime_entry_points", || entry_points(r));
}

fn forms(r: &Report) {
    let c = Ctx { r, n_ok: AtomicU64::new(0), n_err: AtomicU64::new(0) };
    // numeric fields: zero padded to the default width, unpadded ("leading
    // zeros are optional for numbers in all cases"), space padded (what %e %k
    // %l and the `_` flag print), and with leading zeros beyond the default
    // width under an explicit width ("%03d parses 003").
    macro_rules! num {
        ($conv:literal, $width:expr, $lo:expr, $hi:expr, $bad:expr, $get:ident) => {{
            let fmt = concat!("%", $conv);
            for val in $lo..=$hi {
                let val: i64 = val;
                let w: usize = $width;
                c.accept(fmt, &format!("{}", val), "", Some(val), |tm| tm.$get().map(|x| x as i64));
                c.accept(fmt, &format!("{:0w$}", val, w = w), ":zero-padded", Some(val), |tm| tm.$get().map(|x| x as i64));
                c.accept(fmt, &format!("{:w$}", val, w = w), ":space-padded", Some(val), |tm| tm.$get().map(|x| x as i64));
                c.accept(concat!("%-", $conv), &format!("{}", val), "", Some(val), |tm| tm.$get().map(|x| x as i64));
                c.accept(concat!("%_", $conv), &format!("{:w$}", val, w = w), "", Some(val), |tm| tm.$get().map(|x| x as i64));
                c.accept(concat!("%0", $conv), &format!("{:0w$}", val, w = w), "", Some(val), |tm| tm.$get().map(|x| x as i64));
                c.accept(concat!("%06", $conv), &format!("{:06}", val), ":explicit-width", Some(val), |tm| tm.$get().map(|x| x as i64));
                // the default width bounds what is consumed: a following digit is the next field's
                c.accept(concat!("%", $conv, "|%", $conv), &format!("{:0w$}|{}", val, val, w = w), ":two-fields", Some(val), |tm| tm.$get().map(|x| x as i64));
            }
            for bad in $bad {
                let bad: i64 = bad;
                c.refuse(fmt, &format!("{}", bad), ":out-of-range");
            }
            c.refuse(fmt, "", ":empty");
            c.refuse(fmt, "x", ":no-digits");
            c.refuse(fmt, "-1", ":sign");
        }};
    }
    num!("m", 2, 1, 12, [0, 13, 99], month);
    num!("d", 2, 1, 31, [0, 32, 99], day);
    num!("e", 2, 1, 31, [0, 32], day);
    num!("j", 3, 1, 366, [0, 367, 999], day_of_year);
    num!("U", 2, 0, 53, [54, 99], sunday_based_week);
    num!("W", 2, 0, 53, [54, 99], monday_based_week);
    num!("V", 2, 1, 53, [0, 54, 99], iso_week);
    num!("H", 2, 0, 23, [24, 99], hour);
    num!("k", 2, 0, 23, [24], hour);
    num!("I", 2, 1, 12, [0, 13], hour);
    num!("l", 2, 1, 12, [0, 13], hour);
    num!("M", 2, 0, 59, [60, 99], minute);
    num!("S", 2, 0, 59, [61, 99], second);
    // "a parsed value of 60 is automatically constrained to 59"
    c.accept("%S", "60", ":leap-second-constrained", Some(59i64), |tm| tm.second().map(|x| x as i64));
    // years: optional sign, 1..=4 digits
    for y in [0i64, 1, 9, 10, 99, 100, 999, 1000, 1969, 2024, 9999] {
        for (conv, iso) in [("%Y", false), ("%G", true)] {
            let get = move |tm: &BrokenDownTime| if iso { tm.iso_week_year() } else { tm.year() }.map(|x| x as i64);
            c.accept(conv, &format!("{}", y), "", Some(y), get);
            c.accept(conv, &format!("{:04}", y), ":zero-padded", Some(y), get);
            c.accept(conv, &format!("+{:04}", y), ":plus-sign", Some(y), get);
            c.accept(conv, &format!("-{:04}", y), ":minus-sign", Some(-y), get);
            c.accept(conv, &format!("-{}", y), ":minus-sign", Some(-y), get);
            c.accept(conv, &format!("{:4}", y), ":space-padded", Some(y), get);
            c.accept(&format!("%5{}", &conv[1..]), &format!("{:05}", y), ":explicit-width", Some(y), get);
        }
    }
    c.refuse("%Y", "10000", ":five-digits");
    c.refuse("%Y", "-", ":sign-only");
    c.refuse("%5Y", "10000", ":out-of-range");
    c.refuse("%5Y", "-10000", ":out-of-range");
    // two-digit years: 69..=99 -> 19xx, 00..=68 -> 20xx (documented)
    for yy in 0..=99i64 {
        let want = if yy <= 68 { 2000 + yy } else { 1900 + yy };
        for text in [format!("{:02}", yy), format!("{}", yy)] {
            c.accept("%y", &text, ":pivot", Some(want), |tm| tm.year().map(|x| x as i64));
            c.accept("%g", &text, ":pivot", Some(want), |tm| tm.iso_week_year().map(|x| x as i64));
        }
        // %C then %y: the two-digit year decides inside its window
        c.accept("%C%y", &format!("{:02}{:02}", want / 100, yy), ":century+year", Some(want), |tm| tm.year().map(|x| x as i64));
    }
    c.refuse("%y", "100", ":three-digits");
    c.refuse("%y", "2024", ":four-digits");
    // century: the parsed year lies in the named century
    for cc in 0..=99i64 {
        for text in [format!("{}", cc), format!("{:02}", cc)] {
            c.accept("%C", &text, "", Some(cc), |tm| tm.year().map(|y| (y as i64).div_euclid(100)));
        }
        c.accept("%C", &format!("-{}", cc), ":minus-sign", Some(-cc), |tm| tm.year().map(|y| y as i64 / 100));
    }
    c.refuse("%C", "100", ":three-digits");
    // weekday numbers
    for wd in 0..7usize {
        let iso = if wd == 0 { 7 } else { wd };
        c.accept("%u", &format!("{}", iso), "", Some(wd_of(wd)), |tm| tm.weekday());
        c.accept("%w", &format!("{}", wd), "", Some(wd_of(wd)), |tm| tm.weekday());
        c.accept("%u", &format!(" {}", iso), ":space-padded", Some(wd_of(wd)), |tm| tm.weekday());
    }
    c.refuse("%u", "0", ":out-of-range");
    c.refuse("%u", "8", ":out-of-range");
    c.refuse("%w", "7", ":out-of-range");
    c.refuse("%w", "x", ":no-digits");
    // names: matched without regard to ASCII case
    for wd in 0..7usize {
        for text in case_variants(WD_ABBR[wd]) {
            c.accept("%a", &text, "", Some(wd_of(wd)), |tm| tm.weekday());
        }
        for text in case_variants(WD_FULL[wd]) {
            // F21's input class: the full name of Tuesday
            c.accept("%A", &text, if wd == 2 { ":%A,weekday=Tuesday" } else { "" }, Some(wd_of(wd)), |tm| tm.weekday());
        }
    }
    for m in 0..12usize {
        for text in case_variants(MON_ABBR[m]) {
            c.accept("%b", &text, "", Some(m as i64 + 1), |tm| tm.month().map(|x| x as i64));
            c.accept("%h", &text, "", Some(m as i64 + 1), |tm| tm.month().map(|x| x as i64));
        }
        for text in case_variants(MON_FULL[m]) {
            c.accept("%B", &text, "", Some(m as i64 + 1), |tm| tm.month().map(|x| x as i64));
        }
    }
    for (text, want) in [("AM", Meridiem::AM), ("PM", Meridiem::PM)] {
        for t in case_variants(text).into_iter().chain([format!("{}{}", &text[..1].to_lowercase(), &text[1..])]) {
            c.accept("%p", &t, "", Some(want), |tm| tm.meridiem());
            c.accept("%P", &t, "", Some(want), |tm| tm.meridiem());
        }
    }
    for (fmt, bad) in [("%a", "Xyz"), ("%a", "Su"), ("%A", "Sun"), ("%A", "Someday"), ("%b", "Jax"), ("%B", "Janu"), ("%h", "J"), ("%p", "A"), ("%p", "XM"), ("%P", "a.m.")] {
        c.refuse(fmt, bad, ":not-a-name");
    }
    // 12-hour clock with the meridiem, in both orders; and the documented
    // rule for a 24-hour value with a meridiem (AM: h mod 12, PM: h mod 12 + 12)
    for h12 in 1..=12i64 {
        for (mer, pm) in [("AM", false), ("pm", true)] {
            let want = h12 % 12 + if pm { 12 } else { 0 };
            c.accept("%I %p", &format!("{:02} {}", h12, mer), ":12-hour", Some(want), |tm| tm.hour().map(|x| x as i64));
            c.accept("%p %I", &format!("{} {}", mer, h12), ":12-hour", Some(want), |tm| tm.hour().map(|x| x as i64));
            c.accept("%l%P", &format!("{:2}{}", h12, mer), ":12-hour", Some(want), |tm| tm.hour().map(|x| x as i64));
        }
        c.accept("%I", &format!("{}", h12), ":12-hour-without-meridiem", Some(h12), |tm| tm.hour().map(|x| x as i64));
    }
    for h in 0..=23i64 {
        for (mer, pm) in [("am", false), ("PM", true)] {
            let want = h % 12 + if pm { 12 } else { 0 };
            c.accept("%H%P", &format!("{:02}{}", h, mer), ":24-hour-with-meridiem(documented)", Some(want), |tm| tm.hour().map(|x| x as i64));
        }
    }
    // whitespace: a whitespace byte of the format, %n and %t each match any
    // amount (including none) of whitespace; other literals match themselves
    for sep in ["", " ", "  ", "\t", "\n", " \t\r\n "] {
        for fmt in ["%Y %m", "%Y%n%m", "%Y%t%m", "%Y\t%m", "%Y\n%m", "%Y %n%t %m"] {
            c.accept(fmt, &format!("2024{}07", sep), ":whitespace", (Some(2024i16), Some(7i8)), |tm| (tm.year(), tm.month()));
        }
        c.accept("%Y-%m", &format!("2024-{}7", sep), ":whitespace-before-number", (Some(2024i16), Some(7i8)), |tm| (tm.year(), tm.month()));
        c.accept(" %Y", &format!("{}2024", sep), ":leading-whitespace", Some(2024i16), |tm| tm.year());
        c.accept("%Y ", &format!("2024{}", sep), ":trailing-whitespace", Some(2024i16), |tm| tm.year());
    }
    c.accept("%Y%%%m", "2024%07", ":percent", (Some(2024i16), Some(7i8)), |tm| (tm.year(), tm.month()));
    c.accept("%Yé%m", "2024é07", ":non-ascii-literal", (Some(2024i16), Some(7i8)), |tm| (tm.year(), tm.month()));
    for (fmt, text, class) in [("%Y-%m", "2024/07", ":literal-mismatch"), ("%Y-%m", "2024", ":input-too-short"), ("%Y", "2024-", ":input-too-long"), ("%Y%%", "2024x", ":percent-mismatch"), ("%Y-%m", "2024 -07", ":whitespace-not-in-format"), ("%", "x", ":trailing-percent"), ("%-", "x", ":flag-without-directive"), ("%5", "x", ":width-without-directive"), ("%:", "x", ":colon-without-directive"), ("%:Y", "2024", ":colon-unknown"), ("%.Y", "2024", ":dot-unknown"), ("%L", "x", ":unknown-directive"), ("%256d", "1", ":width-256"), ("%c", "x", ":unsupported-locale-directive"), ("%r", "x", ":unsupported-locale-directive")] {
        c.refuse(fmt, text, class);
    }
    // composite directives read what they print
    c.accept("%F", "2024-07-09", "", (Some(2024i16), Some(7i8), Some(9i8)), |tm| (tm.year(), tm.month(), tm.day()));
    c.accept("%F", "-0044-3-5", ":unpadded", (Some(-44i16), Some(3i8), Some(5i8)), |tm| (tm.year(), tm.month(), tm.day()));
    c.accept("%D", "07/09/24", "", (Some(2024i16), Some(7i8), Some(9i8)), |tm| (tm.year(), tm.month(), tm.day()));
    c.accept("%D", "7/9/69", ":unpadded", (Some(1969i16), Some(7i8), Some(9i8)), |tm| (tm.year(), tm.month(), tm.day()));
    c.accept("%T", "23:59:58", "", (Some(23i8), Some(59i8), Some(58i8)), |tm| (tm.hour(), tm.minute(), tm.second()));
    c.accept("%T", "3:4:5", ":unpadded", (Some(3i8), Some(4i8), Some(5i8)), |tm| (tm.hour(), tm.minute(), tm.second()));
    c.accept("%R", "23:59", "", (Some(23i8), Some(59i8), None), |tm| (tm.hour(), tm.minute(), tm.second()));
    // fractional seconds: %f needs 1..=9 digits, no dot; %.f needs the dot or
    // nothing; a precision in the format is a no-op when parsing
    let digits = "123456789";
    for k in 1..=9usize {
        let want = digits[..k].parse::<i64>().unwrap() * 10i64.pow(9 - k as u32);
        for fmt in ["%f", "%3f", "%9f", "%-f", "%_6f"] {
            c.accept(fmt, &digits[..k], ":digits", Some(want), |tm| tm.subsec_nanosecond().map(|x| x as i64));
        }
        for fmt in ["%.f", "%.3f", "%.9f", "%5.3f"] {
            c.accept(fmt, &format!(".{}", &digits[..k]), ":digits", Some(want), |tm| tm.subsec_nanosecond().map(|x| x as i64));
        }
        c.accept("%S%.f", &format!("07.{}", &digits[..k]), ":digits", (Some(7i8), Some(want)), |tm| (tm.second(), tm.subsec_nanosecond().map(|x| x as i64)));
        c.accept("%S.%f", &format!("07.{}", &digits[..k]), ":digits", (Some(7i8), Some(want)), |tm| (tm.second(), tm.subsec_nanosecond().map(|x| x as i64)));
    }
    c.accept("%f", "000000000", ":zero", Some(0i64), |tm| tm.subsec_nanosecond().map(|x| x as i64));
    c.accept("%f", "000000001", ":one", Some(1i64), |tm| tm.subsec_nanosecond().map(|x| x as i64));
    c.accept("%S%.f", "07", ":absent-fraction", (Some(7i8), None), |tm| (tm.second(), tm.subsec_nanosecond()));
    c.accept("%.f", "", ":absent-fraction", None, |tm| tm.subsec_nanosecond());
    for (fmt, text, class) in [("%f", "1234567891", ":ten-digits"), ("%f", "", ":empty"), ("%f", ".5", ":dot-given-to-%f"), ("%f", "x", ":no-digits"), ("%.f", ".", ":dot-without-digits"), ("%.f", "5", ":digits-without-dot"), ("%S%.f", "07.x", ":dot-without-digits"), ("%.f", ".1234567891", ":ten-digits"), ("%f", "-5", ":sign")] {
        c.refuse(fmt, text, class);
    }
    // offsets
    let offs: [i64; 20] = [0, 60, -60, 3540, -3540, 3600, -3600, 19_800, -16_200, 34_200, 45_900, 50_400, -43_200, 86_400, -86_400, 93_540, -93_540, 1, -3599, 93_599];
    for &o in &offs {
        let off = Some(Offset::from_seconds(o as i32).unwrap());
        let (sg, a) = (if o < 0 { '-' } else { '+' }, o.abs());
        let (h, m, s) = (a / 3600, (a / 60) % 60, a % 60);
        // -0000 names the zero offset
        let signs: Vec<char> = if o == 0 { vec!['+', '-'] } else { vec![sg] };
        for sg in signs {
            let g = |tm: &BrokenDownTime| tm.offset();
            if s == 0 {
                c.accept("%z", &format!("{}{:02}{:02}", sg, h, m), ":HHMM", off, g);
                c.accept("%:z", &format!("{}{:02}:{:02}", sg, h, m), ":HH:MM", off, g);
                c.accept("%Q", &format!("{}{:02}{:02}", sg, h, m), ":offset-fallback", (off, None), |tm| (tm.offset(), tm.iana_time_zone().map(|s| s.to_string())));
                c.accept("%:Q", &format!("{}{:02}:{:02}", sg, h, m), ":offset-fallback", (off, None), |tm| (tm.offset(), tm.iana_time_zone().map(|s| s.to_string())));
                // a literal after the offset is not mistaken for seconds
                c.accept("%z|", &format!("{}{:02}{:02}|", sg, h, m), ":HHMM", off, g);
                c.accept("%:z:", &format!("{}{:02}:{:02}:", sg, h, m), ":HH:MM", off, g);
            }
            c.accept("%z", &format!("{}{:02}{:02}{:02}", sg, h, m, s), ":HHMMSS", off, g);
            c.accept("%:z", &format!("{}{:02}:{:02}:{:02}", sg, h, m, s), ":HH:MM:SS", off, g);
            c.accept("%_z", &format!("{}{:02}{:02}{:02}", sg, h, m, s), ":flag-ignored", off, g);
            c.accept("%10:z", &format!("{}{:02}:{:02}:{:02}", sg, h, m, s), ":width-ignored", off, g);
            c.refuse("%z", &format!("{}{:02}:{:02}", sg, h, m), ":colon-form-given-to-%z");
            c.refuse("%:z", &format!("{}{:02}{:02}", sg, h, m), ":plain-form-given-to-%:z");
            c.refuse("%Q", &format!("{}{:02}:{:02}", sg, h, m), ":colon-form-given-to-%Q");
            c.refuse("%z", &format!("{:02}{:02}", h, m), ":unsigned");
            c.refuse("%:z", &format!("{:02}:{:02}", h, m), ":unsigned");
        }
    }
    for (fmt, text, class) in [
        ("%z", "+2600", ":hours>25"),
        ("%z", "-9900", ":hours>25"),
        ("%z", "+0060", ":minutes>59"),
        ("%z", "+000060", ":seconds>59"),
        ("%:z", "+26:00", ":hours>25"),
        ("%:z", "+00:60", ":minutes>59"),
        ("%:z", "+00:00:60", ":seconds>59"),
        ("%z", "+053015.5", ":fractional-seconds(documented unsupported)"),
        ("%:z", "+05:30:15.5", ":fractional-seconds(documented unsupported)"),
        ("%z", "+05", ":too-short"),
        ("%z", "+053", ":too-short"),
        ("%:z", "+05:3", ":too-short"),
        ("%z", "+", ":sign-only"),
        ("%z", "Z", ":zulu"),
        ("%z", "+05x0", ":not-digits"),
        ("%Z", "EDT", ":%Z(documented: formatting only)"),
        ("%Z", "UTC", ":%Z(documented: formatting only)"),
        ("%Q", "", ":empty"),
        ("%Q", "1America", ":identifier-start"),
        ("%Q", "America/", ":empty-component"),
        ("%Q", "/America", ":empty-component"),
    ] {
        c.refuse(fmt, text, class);
    }
    for name in ["UTC", "America/New_York", "Etc/GMT+5", "America/Argentina/ComodRivadavia", "America/Port-au-Prince", "Not/AZone", "x"] {
        let want = (None, Some(name.to_string()));
        c.accept("%Q", name, ":identifier", want.clone(), |tm| (tm.offset(), tm.iana_time_zone().map(|s| s.to_string())));
        c.accept("%:Q", name, ":identifier", want.clone(), |tm| (tm.offset(), tm.iana_time_zone().map(|s| s.to_string())));
        c.accept("[%Q]", &format!("[{}]", name), ":identifier-delimited", want.clone(), |tm| (tm.offset(), tm.iana_time_zone().map(|s| s.to_string())));
        c.accept("%Q %Y", &format!("{} 2024", name), ":identifier-delimited", want, |tm| (tm.offset(), tm.iana_time_zone().map(|s| s.to_string())));
    }
    // Unix seconds: optional sign; the civil fields and the UTC offset follow
    for u in [0i64, 1, -1, 59, -60, 86_399, -86_400, -86_401, 1_700_000_000, -1_700_000_000, 253_402_207_200, -377_705_023_201] {
        let want = (Some(Offset::UTC), u);
        let get = |tm: &BrokenDownTime| (tm.offset(), tm.to_timestamp().map(|t| t.as_second()).unwrap_or(i64::MIN));
        c.accept("%s", &format!("{}", u), ":unix-seconds", want, get);
        if u >= 0 {
            c.accept("%s", &format!("+{}", u), ":plus-sign", want, get);
            c.accept("%s", &format!("{:019}", u), ":zero-padded", want, get);
            c.accept("%s", &format!("{:12}", u), ":space-padded", want, get);
        }
        // the civil fields are those of the instant in UTC
        let (day, sod) = (u.div_euclid(86_400), u.rem_euclid(86_400));
        let (y, m, d) = cal::civil_from_days(day);
        c.accept("%s", &format!("{}", u), ":civil-fields", (Some(y as i16), Some(m as i8), Some(d as i8), Some((sod / 3600) as i8), Some(((sod / 60) % 60) as i8), Some((sod % 60) as i8), Some(0)), |tm| (tm.year(), tm.month(), tm.day(), tm.hour(), tm.minute(), tm.second(), tm.subsec_nanosecond()));
    }
    c.refuse("%s", "253402207201", ":above-Timestamp::MAX");
    c.refuse("%s", "-377705023202", ":below-Timestamp::MIN");
    c.refuse("%s", "99999999999999999999", ":overflow");
    c.refuse("%s", "-", ":sign-only");

    let (ok, err) = (c.n_ok.load(Relaxed), c.n_err.load(Relaxed));
    r.add_states(ok + err);
    r.add_transitions(ok + err);
    r.add_validated(ok + err);
    r.count("strptime_forms.cases", ok + err);
    r.outcome("strptime_forms.accepted_with_the_named_value", ok);
    r.outcome("strptime_forms.refused_as_documented", err);
    r.require(ok > 5_000 && err > 200, "strptime forms: documented forms accepted and invalid ones refused");
}

/// `to_date` needs a year and a way to pick the day; `to_time` refuses a
/// smaller unit without the bigger ones and defaults to midnight; instants
/// need an offset (or a zone for `Zoned`).
fn missing(r: &Report) {
    let sec = "strptime_missing_fields";
    let mut n = 0u64;
    let mut want_err = |what: &str, fmt: &str, text: &str, got: Result<Result<String, jiff::Error>, String>| {
        n += 1;
        match got {
            Err(p) => r.viol(sec, &format!("{}[{}]/{}", what, fmt, panic_sig(&p)), format!("{} {:?}", fmt, text), p),
            Ok(Err(_)) => {}
            Ok(Ok(v)) => r.viol(sec, &format!("{}[{}]/documented-error-missing", what, fmt), format!("{} {:?}", fmt, text), format!("returned {}", v)),
        }
    };
    for (fmt, text) in [
        ("%m-%d", "07-09"),
        ("%j", "191"),
        ("%Y", "2024"),
        ("%Y-%m", "2024-07"),
        ("%Y %d", "2024 09"),
        ("%Y %U", "2024 27"),
        ("%Y %W", "2024 27"),
        ("%Y %u", "2024 2"),
        ("%Y %A", "2024 Monday"),
        ("%G-W%V", "2024-W28"),
        ("%G %u", "2024 2"),
        ("%V %u", "28 2"),
        ("%U %w", "27 2"),
        ("%C", "20"),
        ("%y", "24"),
        ("%g-W%V", "24-W28"),
        ("%H:%M", "01:02"),
        ("", ""),
        ("%s", ""),
    ] {
        want_err("Date::strptime", fmt, text, guard(|| Date::strptime(fmt, text).map(|d| d.to_string())));
        want_err("DateTime::strptime", fmt, text, guard(|| DateTime::strptime(fmt, text).map(|d| d.to_string())));
    }
    for (fmt, text) in [("%M:%S", "15:36"), ("%M", "15"), ("%S", "36"), ("%f", "5"), ("%H:%S", "15:36"), ("%H%.f", "15.5"), ("%H.%f", "15.5"), ("%H:%M%.f", "15:10.5"), ("%H:%M.%f", "15:10.5"), ("%I:%S %p", "3:36 PM"), ("%p %S", "AM 36")] {
        want_err("Time::strptime", fmt, text, guard(|| Time::strptime(fmt, text).map(|d| d.to_string())));
        let (f2, t2) = (format!("%F {}", fmt), format!("2024-07-09 {}", text));
        want_err("DateTime::strptime", &f2, &t2, guard(|| DateTime::strptime(&f2, &t2).map(|d| d.to_string())));
    }
    for (fmt, text) in [("%F %T", "2024-07-09 01:02:03"), ("%F", "2024-07-09"), ("%T %z", "01:02:03 +0000"), ("%z", "+0000"), ("%Q", "UTC"), ("%F %T %Q", "2024-07-09 01:02:03 Not/AZone")] {
        want_err("Zoned::strptime", fmt, text, guard(|| Zoned::strptime(fmt, text).map(|d| d.to_string())));
        if !fmt.contains("%Q") || text.ends_with("UTC") {
            want_err("Timestamp::strptime", fmt, text, guard(|| Timestamp::strptime(fmt, text).map(|d| d.to_string())));
        }
    }
    // an identifier alone does not make a Timestamp (the documentation asks for an offset)
    want_err("Timestamp::strptime", "%F %T %Q", "2024-07-09 01:02:03 America/New_York", guard(|| Timestamp::strptime("%F %T %Q", "2024-07-09 01:02:03 America/New_York").map(|d| d.to_string())));
    // calendar validity is checked when the date is asked for
    for (fmt, text) in [("%Y-%m-%d", "2023-02-29"), ("%Y-%m-%d", "2024-02-30"), ("%Y-%m-%d", "2024-04-31"), ("%Y-%m-%d", "1900-02-29"), ("%Y-%j", "2023-366"), ("%Y-%j", "1900-366"), ("%G-W%V-%u", "2023-W53-1"), ("%G-W%V-%u", "2021-W53-7"), ("%Y %U %w", "2024 00 0"), ("%Y %U %w", "2024 53 6"), ("%Y %W %u", "2024 53 7"), ("%Y %W %u", "2024 00 7"), ("%Y %U %w", "2023 53 1"), ("%G-W%V-%u", "9999-W52-6")] {
        want_err("Date::strptime", fmt, text, guard(|| Date::strptime(fmt, text).map(|d| d.to_string())));
    }
    // documented defaults
    let mut want_ok = |what: &str, fmt: &str, text: &str, got: Result<Result<String, jiff::Error>, String>, want: &str| {
        n += 1;
        match got {
            Err(p) => r.viol(sec, &format!("{}[{}]/{}", what, fmt, panic_sig(&p)), format!("{} {:?}", fmt, text), p),
            Ok(Err(e)) => r.viol(sec, &format!("{}[{}]/rejects-documented-form", what, fmt), format!("{} {:?}", fmt, text), e.to_string()),
            Ok(Ok(v)) => {
                if v != want {
                    r.viol(sec, &format!("{}[{}]/value", what, fmt), format!("{} {:?}", fmt, text), format!("jiff {} expected {}", v, want))
                }
            }
        }
    };
    for (fmt, text, want) in [("", "", "00:00:00"), ("%H", "7", "07:00:00"), ("%H:%M", "7:08", "07:08:00"), ("%H:%M:%S", "7:08:09", "07:08:09"), ("%F", "2024-06-31", "00:00:00"), ("%I %p", "12 AM", "00:00:00"), ("%I %p", "12 PM", "12:00:00"), ("%p", "PM", "00:00:00")] {
        want_ok("Time::strptime", fmt, text, guard(|| Time::strptime(fmt, text).map(|d| d.to_string())), want);
    }
    want_ok("DateTime::strptime", "%F", "2024-07-09", guard(|| DateTime::strptime("%F", "2024-07-09").map(|d| d.to_string())), "2024-07-09T00:00:00");
    want_ok("DateTime::strptime", "%F %H", "2024-07-09 13", guard(|| DateTime::strptime("%F %H", "2024-07-09 13").map(|d| d.to_string())), "2024-07-09T13:00:00");
    want_ok("Date::strptime", "%F %T %z", "2024-07-09 01:02:03 +0530", guard(|| Date::strptime("%F %T %z", "2024-07-09 01:02:03 +0530").map(|d| d.to_string())), "2024-07-09");
    want_ok("Zoned::strptime", "%F %z", "2024-07-09 +0530", guard(|| Zoned::strptime("%F %z", "2024-07-09 +0530").map(|d| d.to_string())), "2024-07-09T00:00:00+05:30[+05:30]");
    r.add_states(n);
    r.add_transitions(n);
    r.add_validated(n);
    r.count("strptime_missing_fields.cases", n);
    r.require(n > 90, "missing-field and default cases run");
}

/// Redundant fields: matching text must be accepted with the named value;
/// contradicting text must be refused. Runs over one whole 400-year cycle
/// (the Gregorian calendar repeats exactly, weekdays included) plus the years
/// at both ends of the supported range; thorough: all years.
fn redundant(r: &Report) {
    let sec = "strptime_redundant_fields";
    let ranges: Vec<(i64, i64)> = if r.quick() { vec![(0, 1), (1800, 2199), (9998, 9999)] } else { vec![(0, 9999)] };
    let (n_match, n_rej, n_acc) = (AtomicU64::new(0), AtomicU64::new(0), AtomicU64::new(0));
    let mut n = 0u64;
    for (a, b) in ranges {
        n += for_each_day_local(r, sec, a, b, |s, l| {
            let base = ymd(s);
            let iso_wd = if s.wd == 0 { 7 } else { s.wd as i64 };
            let wk_u = (s.doy - 1 + 7 - s.wd as i64) / 7;
            let wk_w = (s.doy - 1 + 7 - (s.wd as i64 + 6) % 7) / 7;
            let d = jdate(s);
            // matching text in every pairing of the ways to name a date
            let iso = if s.iso_y >= 0 { format!("{:04}-W{:02}-{}", s.iso_y, s.iso_w, iso_wd) } else { format!("-{:04}-W{:02}-{}", -s.iso_y, s.iso_w, iso_wd) };
            let matching: [(&str, String); 8] = [
                ("%Y-%m-%d %j", format!("{} {:03}", base, s.doy)),
                ("%Y-%m-%d %G-W%V-%u", format!("{} {}", base, iso)),
                ("%G-W%V-%u %Y-%j", format!("{} {:04}-{:03}", iso, s.y, s.doy)),
                ("%Y-%m-%d %U %w", format!("{} {:02} {}", base, wk_u, s.wd)),
                ("%Y-%m-%d %W %a", format!("{} {:02} {}", base, wk_w, WD_ABBR[s.wd as usize])),
                ("%Y-%j %U %W %u", format!("{:04}-{:03} {:02} {:02} {}", s.y, s.doy, wk_u, wk_w, iso_wd)),
                ("%a %b %e %Y (%j)", format!("{} {} {:2} {:04} ({})", WD_ABBR[s.wd as usize], MON_ABBR[(s.m - 1) as usize], s.d, s.y, s.doy)),
                ("%s %F", format!("{} {}", s.epoch_day * 86_400, base)),
            ];
            for (fmt, text) in &matching {
                if fmt.starts_with("%s") && (s.epoch_day * 86_400 < vf::zones::TS_MIN_SEC || s.epoch_day * 86_400 > vf::zones::TS_MAX_SEC) {
                    continue;
                }
                n_match.fetch_add(1, Relaxed);
                match guard(|| Date::strptime(fmt, text)) {
                    Err(p) => l.viol(&format!("Date::strptime[{}]/{}", fmt, panic_sig(&p)), format!("{} {:?}", fmt, text), || p.clone()),
                    Ok(Err(e)) => l.viol(&format!("Date::strptime[{}]/rejects-consistent-text", fmt), format!("{} {:?}", fmt, text), || e.to_string()),
                    Ok(Ok(g)) => {
                        if g != d {
                            l.viol(&format!("Date::strptime[{}]/value", fmt), format!("{} {:?}", fmt, text), || format!("parsed {} expected {}", g, d));
                        }
                    }
                }
            }
            // contradicting text: the redundant field names another day; the
            // weekday (where present) is kept right so that only the named pair
            // disagrees
            let other_iso_w = s.iso_w % 52 + 1;
            let other_u = (wk_u + 1) % 53;
            let other_w = (wk_w + 1) % 53;
            let other_doy = s.doy % cal::days_in_year(s.y) + 1;
            let iso_y_txt = if s.iso_y >= 0 { format!("{:04}", s.iso_y) } else { format!("-{:04}", -s.iso_y) };
            let contra: [(&str, String, &str); 5] = [
                ("%Y-%m-%d %G-W%V", format!("{} {}-W{:02}", base, iso_y_txt, other_iso_w), "iso-week-vs-month-day"),
                ("%Y-%m-%d %U", format!("{} {:02}", base, other_u), "%U-vs-month-day"),
                ("%Y-%m-%d %W", format!("{} {:02}", base, other_w), "%W-vs-month-day"),
                ("%G-W%V-%u %Y-%j", format!("{} {:04}-{:03}", iso, s.y, other_doy), "%j-vs-iso-week-date"),
                ("%Y-%j %U", format!("{:04}-{:03} {:02}", s.y, s.doy, other_u), "%U-vs-%j"),
            ];
            for (fmt, text, what) in &contra {
                match guard(|| Date::strptime(fmt, text)) {
                    Err(p) => l.viol(&format!("Date::strptime[{}]/{}", fmt, panic_sig(&p)), format!("{} {:?}", fmt, text), || p.clone()),
                    Ok(Err(_)) => {
                        n_rej.fetch_add(1, Relaxed);
                    }
                    Ok(Ok(g)) => {
                        n_acc.fetch_add(1, Relaxed);
                        l.viol(&format!("Date::strptime[{}]/contradiction-accepted:{}", fmt, what), format!("{} {:?}", fmt, text), || format!("accepted as {}", g))
                    }
                }
            }
        });
    }
    r.add_states(n);
    r.add_transitions(n * 13);
    r.add_validated(n * 13);
    r.count("strptime_redundant_fields.days", n);
    r.outcome("strptime_redundant_fields.consistent_texts", n_match.load(Relaxed));
    r.outcome("strptime_redundant_fields.contradictions_rejected", n_rej.load(Relaxed));
    r.outcome("strptime_redundant_fields.contradictions_accepted", n_acc.load(Relaxed));
    r.require(n >= 146_097 && n_match.load(Relaxed) > n, "a whole 400-year cycle of redundant-field texts parsed");
}

/// The typed `strptime` constructors, `strtime::parse(..).to_*()`,
/// `BrokenDownTime::parse` and `parse_prefix` agree.
fn entry_points(r: &Report) {
    let sec = "strptime_entry_points";
    let cases: Vec<(&str, String)> = {
        let mut v: Vec<(&str, String)> = vec![];
        for d in vf::pools::dates() {
            for t in vf::pools::times() {
                let dt = DateTime::from_parts(d, t);
                for fmt in ["%Y-%m-%dT%H:%M:%S%.f", "%A, %B %e, %Y %l:%M:%S %p", "%G-W%V-%u %T", "%Y-%m-%dT%H:%M:%S%.f%z", "%F %T%.f %:z", "%F %T %Q", "%s", "%F", "%T", "%Y-%m-%d %A", "%j"] {
                    for off in [0i32, 19_800, -16_215] {
                        let Ok(z) = dt.to_zoned(jiff::tz::TimeZone::fixed(Offset::from_seconds(off).unwrap())) else { continue };
                        if let Ok(text) = strtime::format(fmt, &z) {
                            v.push((fmt, text.clone()));
                            // and some that fail
                            v.push((fmt, format!("{}x", text)));
                            v.push((fmt, text[..text.len() - 1].to_string()));
                        }
                    }
                }
            }
        }
        v.sort();
        v.dedup();
        v
    };
    let (n_ok, n_err) = (AtomicU64::new(0), AtomicU64::new(0));
    let mut n = 0u64;
    for (fmt, text) in &cases {
        n += 1;
        let case = || format!("{} {:?}", fmt, text);
        let es = |e: jiff::Error| e.to_string();
        let res = guard(|| {
            let tm = strtime::parse(fmt, text);
            let tm2 = BrokenDownTime::parse(fmt, text);
            let pre = BrokenDownTime::parse_prefix(fmt, text);
            let pre_long = BrokenDownTime::parse_prefix(fmt, format!("{}\u{1}tail", text));
            (
                (Date::strptime(fmt, text).ok(), tm.as_ref().ok().and_then(|t| t.to_date().ok()), tm2.as_ref().ok().and_then(|t| t.to_date().ok())),
                (Time::strptime(fmt, text).ok(), tm.as_ref().ok().and_then(|t| t.to_time().ok())),
                (DateTime::strptime(fmt, text).ok(), tm.as_ref().ok().and_then(|t| t.to_datetime().ok())),
                (Timestamp::strptime(fmt, text).ok(), tm.as_ref().ok().and_then(|t| t.to_timestamp().ok())),
                (Zoned::strptime(fmt, text).ok(), tm.as_ref().ok().and_then(|t| t.to_zoned().ok()), tm.as_ref().ok().and_then(|t| t.to_zoned_with(jiff::tz::db()).ok())),
                (tm.is_ok(), pre.as_ref().map(|(_, n)| *n).map_err(|e| es(e.clone())), pre_long.as_ref().map(|(_, n)| *n).map_err(|e| es(e.clone()))),
                pre.ok().and_then(|(t, _)| t.to_datetime().ok()),
            )
        });
        match res {
            Err(p) => r.viol(sec, &format!("strptime-entry-points[{}]/{}", fmt, panic_sig(&p)), case(), p),
            Ok((d, t, dt, ts, z, (full_ok, pre, pre_long), pre_dt)) => {
                if d.0 != d.1 || d.0 != d.2 {
                    r.viol(sec, &format!("Date::strptime[{}]/differs-from-strtime::parse().to_date()", fmt), case(), format!("{:?}", d));
                }
                if t.0 != t.1 {
                    r.viol(sec, &format!("Time::strptime[{}]/differs-from-strtime::parse().to_time()", fmt), case(), format!("{:?}", t));
                }
                if dt.0 != dt.1 {
                    r.viol(sec, &format!("DateTime::strptime[{}]/differs-from-strtime::parse().to_datetime()", fmt), case(), format!("{:?}", dt));
                }
                if ts.0 != ts.1 {
                    r.viol(sec, &format!("Timestamp::strptime[{}]/differs-from-strtime::parse().to_timestamp()", fmt), case(), format!("{:?}", ts));
                }
                if z.0 != z.1 || z.0 != z.2 {
                    r.viol(sec, &format!("Zoned::strptime[{}]/differs-from-strtime::parse().to_zoned()", fmt), case(), format!("{:?}", z));
                }
                // parse_prefix: on a text the full parse accepts, the prefix is the whole text,
                // also when followed by a byte no directive consumes
                if full_ok {
                    n_ok.fetch_add(1, Relaxed);
                    if pre != Ok(text.len()) || pre_long != Ok(text.len()) {
                        r.viol(sec, &format!("BrokenDownTime::parse_prefix[{}]/length", fmt), case(), format!("{:?} / {:?}, text is {} bytes", pre, pre_long, text.len()));
                    }
                    if pre_dt != dt.1 {
                        r.viol(sec, &format!("BrokenDownTime::parse_prefix[{}]/value", fmt), case(), format!("{:?} vs {:?}", pre_dt, dt.1));
                    }
                } else {
                    n_err.fetch_add(1, Relaxed);
                }
            }
        }
    }
    r.add_states(n);
    r.add_transitions(n * 12);
    r.add_validated(n * 6);
    r.count("strptime_entry_points.cases", n);
    r.outcome("strptime_entry_points.parsed", n_ok.load(Relaxed));
    r.outcome("strptime_entry_points.refused", n_err.load(Relaxed));
    r.require(n_ok.load(Relaxed) > 1000 && n_err.load(Relaxed) > 1000, "entry points compared on accepted and refused texts");
}
