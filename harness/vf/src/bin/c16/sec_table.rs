//! The directive table, complete: every conversion specifier of the module
//! documentation x every flag x a width alphabet (incl. the documented
//! maximum 255 and the first refused value 256), on boundary values; `%f` /
//! `%.f` precisions; `%z %:z %Q %:Q %Z %s` under flags and widths; all
//! formatting entry points against each other; `BrokenDownTime` setters /
//! getters and `From<ISOWeekDate>`.
//!
//! Oracle: R-fmt (documented padding / flag rules on R-cal facts). One format
//! string per conversion, so every signature names exactly one conversion.

use crate::common::*;
use crate::rfmt::{self, Item, V};
use jiff::civil::{Date, DateTime, ISOWeekDate, Time, Weekday};
use jiff::fmt::strtime::{self, BrokenDownTime, Meridiem};
use jiff::tz::{Offset, TimeZone};
use jiff::{Timestamp, Zoned};
use rayon::prelude::*;
use refmodel::cal::{self, Succ};
use std::sync::atomic::{AtomicU64, Ordering::Relaxed};
use vf::{guard, panic_sig, Report};

pub const FLAGS: [&str; 6] = ["", "-", "_", "0", "^", "#"];
/// none, 1, 2, 3, 9, 10, the widest an i64 needs (19), one more, the maximum
const WIDTHS: [&str; 9] = ["", "1", "2", "3", "9", "10", "19", "20", "255"];
const NUMERIC_DATE: [&str; 14] = ["Y", "C", "y", "G", "g", "m", "d", "e", "j", "U", "W", "V", "u", "w"];
const COMPOSITE_DATE: [&str; 2] = ["F", "D"];
const STRING_DATE: [&str; 5] = ["A", "a", "B", "b", "h"];
const NUMERIC_TIME: [&str; 6] = ["H", "k", "I", "l", "M", "S"];
const COMPOSITE_TIME: [&str; 2] = ["T", "R"];
const STRING_TIME: [&str; 2] = ["p", "P"];

/// Years on both sides of every digit-count step, the two-digit-year window
/// and its neighbours, an ISO 53-week year and its successor.
pub const YEARS: [i64; 21] = [0, 1, 9, 10, 99, 100, 999, 1000, 1899, 1900, 1968, 1969, 1970, 1999, 2000, 2020, 2021, 2024, 2068, 2069, 9999];

/// First week, last week (all weekdays twice, ISO-year boundaries on both
/// sides), end of February, first/last day.
pub fn boundary_dates() -> Vec<Succ> {
    let mut out = vec![];
    for &y in &YEARS {
        for d in 1..=7 {
            out.push(succ_at(cal::days_from_civil(y, 1, d)));
        }
        out.push(succ_at(cal::days_from_civil(y, 2, 28)));
        out.push(succ_at(cal::days_from_civil(y, 2, 28) + 1));
        out.push(succ_at(cal::days_from_civil(y, 7, 4)));
        out.push(succ_at(cal::days_from_civil(y, 10, 10)));
        for d in 25..=31 {
            out.push(succ_at(cal::days_from_civil(y, 12, d)));
        }
    }
    out
}

fn is_numeric_conv(conv: &str) -> bool {
    NUMERIC_DATE.contains(&conv) || NUMERIC_TIME.contains(&conv) || COMPOSITE_DATE.contains(&conv) || COMPOSITE_TIME.contains(&conv) || conv == "s"
}

/// The same items with every numeric width above 19 replaced by 19.
fn clamp19(items: &[Item]) -> Option<Vec<Item>> {
    let mut any = false;
    let out = items
        .iter()
        .map(|it| match it {
            Item::Spec { flag, width: Some(w), conv, text } if *w > 19 && is_numeric_conv(conv) && *flag != Some('-') => {
                any = true;
                Item::Spec { flag: *flag, width: Some(19), conv: conv.clone(), text: text.clone() }
            }
            other => other.clone(),
        })
        .collect();
    any.then_some(out)
}

/// Outcome classes counted for non-vacuity.
#[derive(Default)]
pub struct Tally {
    pub ok: AtomicU64,
    pub documented_err: AtomicU64,
    pub clamp19: AtomicU64,
    pub lenient: AtomicU64,
}

/// Compare one single-conversion format on one value. `strict`: the
/// documentation fixes the whole output; otherwise (a width on a string, `#`
/// on a mixed-case string) only the letters are checked.
pub fn check_one(r: &Report, section: &str, f: &Fmt, v: &V, got: Result<Result<String, jiff::Error>, String>, case: &str, strict: bool, t: &Tally) {
    let mut want = String::new();
    let model = f.model(v, &mut want);
    let case = || format!("{} {}", f.text, case);
    match (got, model) {
        (Err(p), _) => r.viol(section, &format!("strftime[{}]/{}", f.text, panic_sig(&p)), case(), p),
        (Ok(Err(_)), Err(_)) => {
            t.documented_err.fetch_add(1, Relaxed);
        }
        (Ok(Err(e)), Ok(())) => r.viol(section, &format!("strftime[{}]/unexpected-error", f.text), case(), format!("jiff error {}; R-fmt {:?}", e, want)),
        (Ok(Ok(g)), Err(spec)) => {
            r.viol(section, &format!("strftime[{}]/documented-error-missing", spec), case(), format!("jiff printed {:?}; the documentation says {} cannot be formatted here", g, spec))
        }
        (Ok(Ok(g)), Ok(())) => {
            if strict {
                if g == want {
                    t.ok.fetch_add(1, Relaxed);
                    return;
                }
                // input class of the padding clamp: a requested width above 19
                // and the output is exactly what width 19 would give
                if let Some(items19) = clamp19(&f.items) {
                    let mut w19 = String::new();
                    if rfmt::format(&items19, v, &mut w19).is_ok() && w19 == g {
                        t.clamp19.fetch_add(1, Relaxed);
                        r.viol(section, "strftime/value:width>19(padding clamped to 19)", case(), format!("jiff {:?} ({} bytes); the requested minimum width gives {} bytes", g, g.len(), want.len()));
                        return;
                    }
                }
                r.viol(section, &format!("strftime[{}]/value", f.text), case(), format!("jiff {:?} R-fmt {:?}", g, want));
            } else {
                t.lenient.fetch_add(1, Relaxed);
                // `want` here is the flag-less, width-less rendering
                if !g.trim_start_matches([' ', '0']).eq_ignore_ascii_case(want.trim_start_matches([' ', '0'])) {
                    r.viol(section, &format!("strftime[{}]/letters", f.text), case(), format!("jiff {:?} name {:?}", g, want));
                }
            }
        }
    }
}

struct Spec {
    f: Fmt,
    /// flag-less, width-less form for the lenient comparison
    base: Option<Fmt>,
}

fn specs(numeric: &[&str], composite: &[&str], strings: &[&str]) -> Vec<Spec> {
    let mut out = vec![];
    for fl in FLAGS {
        for w in WIDTHS {
            for c in numeric.iter().chain(composite) {
                out.push(Spec { f: Fmt::new(&format!("%{}{}{}", fl, w, c)), base: None });
            }
            for c in strings {
                let documented = w.is_empty() && (fl != "#" || *c == "p");
                out.push(Spec { f: Fmt::new(&format!("%{}{}{}", fl, w, c)), base: if documented { None } else { Some(Fmt::new(&format!("%{}", c))) } });
            }
        }
    }
    out
}

fn run_spec<B: Into<BrokenDownTime>>(r: &Report, section: &str, s: &Spec, v: &V, value: B, case: &str, t: &Tally) {
    let got = guard(|| strtime::format(&s.f.text, value));
    match &s.base {
        None => check_one(r, section, &s.f, v, got, case, true, t),
        Some(b) => {
            // model = base rendering, signature = the flagged text
            let f = Fmt { text: s.f.text.clone(), items: b.items.clone(), c: crate::glibc::CFmt::new("") };
            check_one(r, section, &f, v, got, case, false, t)
        }
    }
}

/// `Display` of the lazy adaptor without going through `to_string` (which is
/// documented to panic on a formatting error).
fn disp(x: impl std::fmt::Display) -> Result<String, String> {
    use std::fmt::Write;
    let mut s = String::new();
    write!(s, "{}", x).map(|_| s).map_err(|e| e.to_string())
}

fn tally_out(r: &Report, section: &str, t: &Tally) {
    r.outcome(&format!("{}.equal_to_R-fmt", section), t.ok.load(Relaxed));
    r.outcome(&format!("{}.documented_errors", section), t.documented_err.load(Relaxed));
    r.outcome(&format!("{}.width>19_clamped", section), t.clamp19.load(Relaxed));
    r.outcome(&format!("{}.letters_only(undocumented width/# on names)", section), t.lenient.load(Relaxed));
}

pub fn run(r: &Report) {
    r.section("directive_table_dates", || {
        let specs = specs(&NUMERIC_DATE, &COMPOSITE_DATE, &STRING_DATE);
        // thorough: every day of the pool years
        let dates: Vec<Succ> = if r.quick() {
            boundary_dates()
        } else {
            YEARS.iter().flat_map(|&y| (0..cal::days_in_year(y)).map(move |k| succ_at(cal::days_from_civil(y, 1, 1) + k))).collect()
        };
        let t = Tally::default();
        let wds = AtomicU64::new(0);
        dates.par_iter().for_each(|s| {
            let v = v_of(s);
            let d = jdate(s);
            let case = ymd(s);
            wds.fetch_or(1 << s.wd, Relaxed);
            for sp in &specs {
                // no padding rule is documented for negative numbers (ISO year
                // -1 in the first days of year 0)
                if s.iso_y < 0 && matches!(sp.f.items.first(), Some(Item::Spec { conv, .. }) if conv == "G" || conv == "g") {
                    continue;
                }
                run_spec(r, "directive_table_dates", sp, &v, d, &case, &t);
            }
        });
        let n = (dates.len() * specs.len()) as u64;
        r.add_states(n);
        r.add_transitions(n);
        r.add_validated(n);
        r.count("directive_table_dates.cases", n);
        r.count("directive_table_dates.formats", specs.len() as u64);
        tally_out(r, "directive_table_dates", &t);
        r.require(wds.load(Relaxed) == 0x7f, "all seven weekdays in the boundary pool");
        r.require(t.ok.load(Relaxed) > n / 2 && t.documented_err.load(Relaxed) > 0 && t.lenient.load(Relaxed) > 0, "directive table (dates): equal / documented-error / letters-only classes all seen");
        // the width limit itself: 255 is accepted (above), 256 is refused
        for c in NUMERIC_DATE.iter().chain(&STRING_DATE) {
            let text = format!("%256{}", c);
            match guard(|| strtime::format(&text, Date::new(2024, 7, 9).unwrap())) {
                Err(p) => r.viol("directive_table_dates", &format!("strftime[{}]/{}", text, panic_sig(&p)), text.clone(), p),
                Ok(Ok(g)) => r.viol("directive_table_dates", "strftime/width-256-accepted", text.clone(), format!("printed {} bytes; the documentation requires the width to be less than 256", g.len())),
                Ok(Err(_)) => {}
            }
        }
    });

    r.section("directive_table_misc", || {
        let d = Date::new(2024, 7, 9).unwrap();
        let dt = d.at(13, 2, 3, 4);
        let mut n = 0u64;
        // literals (ASCII, multi-byte), %% %n %t
        let t = Tally::default();
        for text in ["%Y\u{e9}%m", "a%%b%nc%td", "100%% %Y", "\u{1F600}%d\u{1F600}", "%%%%", "", "no directives", "%Y%m%d%H%M%S", "%n%t%%"] {
            n += 1;
            let f = Fmt::new(text);
            let v = V::date(2024, 7, 9).with_time(13, 2, 3, 4);
            check_one(r, "directive_table_misc", &f, &v, guard(|| strtime::format(text, dt)), "2024-07-09T13:02:03.000000004", true, &t);
        }
        // what the documentation lists as unsupported, malformed directives,
        // and format strings that are not UTF-8: an error when formatting and
        // when parsing
        let bad: Vec<Vec<u8>> = ["%c", "%r", "%+", "%x", "%X", "%N", "%q", "%::z", "%:::z", "%E", "%Ey", "%O", "%Od", "%L", "%v", "%i", "%J", "%K", "%o", "%", "%-", "%5", "%_5", "%:", "%:Y", "%.", "%.3", "%.Y", "%256Y", "%1000Y", "%Y%", "%--Y", "%-_Y", "%5-Y"].iter().map(|s| s.as_bytes().to_vec()).chain([b"\xff".to_vec(), b"%Y\xc3".to_vec(), b"\xe9%Y".to_vec()]).collect();
        for b in &bad {
            n += 1;
            let case = format!("{:?}", String::from_utf8_lossy(b));
            match guard(|| (strtime::format(b, dt).map_err(|e| e.to_string()), BrokenDownTime::from(dt).to_string(b).map_err(|e| e.to_string()), strtime::parse(b, "2024").map(|_| ()).map_err(|e| e.to_string()), strtime::parse(b, "x").map(|_| ()).map_err(|e| e.to_string()))) {
                Err(p) => r.viol("directive_table_misc", &format!("strftime[{}]/{}", case, panic_sig(&p)), case.clone(), p),
                Ok((a, b2, c, d2)) => {
                    if a.is_ok() || b2.is_ok() {
                        r.viol("directive_table_misc", "strftime/accepts-unsupported-directive", case.clone(), format!("{:?} {:?}", a, b2));
                    }
                    if c.is_ok() || d2.is_ok() {
                        r.viol("directive_table_misc", "strptime/accepts-unsupported-directive", case.clone(), format!("{:?} {:?}", c, d2));
                    }
                }
            }
        }
        // negative years: no padding rule is documented, so each flag x width
        // is checked through the format's own inverse: the text parses back, with
        // the same format, to the same year (century for %C)
        let mut n_neg = 0u64;
        for y in [-9999i64, -1000, -999, -100, -99, -10, -9, -1] {
            let date = Date::new(y as i16, 6, 15).unwrap();
            let iso_y = cal::iso_week_date(y, 6, 15).0;
            for fl in ["", "-", "_", "0"] {
                for w in ["", "1", "4", "5", "6", "10", "19"] {
                    for c in ["Y", "G", "C"] {
                        n += 1;
                        n_neg += 1;
                        let fmt = format!("%{}{}{}", fl, w, c);
                        let case = format!("{} year {}", fmt, y);
                        match guard(|| strtime::format(&fmt, date).and_then(|t| strtime::parse(&fmt, &t).map(|tm| (t, tm.year().map(|x| x as i64), tm.iso_week_year().map(|x| x as i64))))) {
                            Err(p) => r.viol("directive_table_misc", &format!("strftime[{}]/{}", fmt, panic_sig(&p)), case, p),
                            Ok(Err(e)) => r.viol("directive_table_misc", &format!("strptime[%{}]/rejects-formatted-text:negative-year", c), case, e.to_string()),
                            Ok(Ok((text, py, pg))) => {
                                let good = match c {
                                    "Y" => py == Some(y),
                                    "G" => pg == Some(iso_y),
                                    _ => py.map(|p| p / 100) == Some(y / 100),
                                };
                                if !good {
                                    r.viol("directive_table_misc", &format!("strptime[%{}]/roundtrip-value:negative-year", c), case, format!("text {:?} parsed year {:?} iso year {:?}", text, py, pg));
                                }
                            }
                        }
                    }
                }
            }
        }
        r.add_states(n);
        r.add_transitions(n * 2);
        r.add_validated(n);
        r.count("directive_table_misc.cases", n);
        r.outcome("directive_table_misc.negative_year_roundtrips", n_neg);
        r.outcome("directive_table_misc.unsupported_or_malformed_formats", bad.len() as u64);
        r.require(t.ok.load(Relaxed) == 9 || r.n_viol_sigs() > 0, "literal formats compared");
    });

    r.section("directive_table_times", || {
        let specs = specs(&NUMERIC_TIME, &COMPOSITE_TIME, &STRING_TIME);
        let mut times = vec![];
        for h in 0..24i64 {
            if r.quick() {
                for (mi, s) in [(0i64, 0i64), (9, 9), (10, 10), (59, 59)] {
                    times.push((h, mi, s));
                }
            } else {
                for mi in 0..60i64 {
                    for s in [0i64, 9, 10, 59] {
                        times.push((h, mi, s));
                    }
                }
            }
        }
        let t = Tally::default();
        times.par_iter().for_each(|&(h, mi, s)| {
            let v = V::time(h, mi, s, 0);
            let tm = Time::new(h as i8, mi as i8, s as i8, 0).unwrap();
            let case = format!("{:02}:{:02}:{:02}", h, mi, s);
            for sp in &specs {
                run_spec(r, "directive_table_times", sp, &v, tm, &case, &t);
            }
        });
        let n = (times.len() * specs.len()) as u64;
        r.add_states(n);
        r.add_transitions(n);
        r.add_validated(n);
        r.count("directive_table_times.cases", n);
        tally_out(r, "directive_table_times", &t);
        r.require(t.ok.load(Relaxed) > n / 2, "directive table (times) compared");
    });

    r.section("directive_table_fraction", || {
        // %f / %.f: flags are no-ops, the width is a precision (truncating),
        // digits before the dot of `%N.Mf` are ignored, 0 is an error for %f and
        // the empty string for %.f, more than 9 is 9.
        let precisions: Vec<String> = std::iter::once(String::new()).chain((0..=12).map(|p| p.to_string())).chain(["19".to_string(), "255".to_string()]).collect();
        let mut fmts: Vec<Fmt> = vec![];
        for fl in FLAGS {
            for p in &precisions {
                fmts.push(Fmt::new(&format!("%{}{}f", fl, p)));
                fmts.push(Fmt::new(&format!("%{}.{}f", fl, p)));
                fmts.push(Fmt::new(&format!("%{}7.{}f", fl, p)));
            }
        }
        let nanos: [i64; 16] = [0, 1, 9, 10, 100, 999, 1_000, 100_000_000, 120_000_000, 123_000_000, 123_456_000, 123_456_789, 500_000_000, 900_000_000, 999_999_000, 999_999_999];
        let t = Tally::default();
        let empties = AtomicU64::new(0);
        fmts.par_iter().for_each(|f| {
            for &ns in &nanos {
                let v = V::time(13, 1, 1, ns);
                let tm = Time::new(13, 1, 1, ns as i32).unwrap();
                let got = guard(|| strtime::format(&f.text, tm));
                if matches!(&got, Ok(Ok(g)) if g.is_empty()) {
                    empties.fetch_add(1, Relaxed);
                }
                check_one(r, "directive_table_fraction", f, &v, got, &format!("13:01:01.{:09}", ns), true, &t);
            }
        });
        let n = (fmts.len() * nanos.len()) as u64;
        r.add_states(n);
        r.add_transitions(n);
        r.add_validated(n);
        r.count("directive_table_fraction.cases", n);
        tally_out(r, "directive_table_fraction", &t);
        r.outcome("directive_table_fraction.empty_outputs(%.f of zero / %.0f)", empties.load(Relaxed));
        r.require(t.documented_err.load(Relaxed) > 0 && empties.load(Relaxed) > 0, "%00f errors and %.f empties seen");
    });

    r.section("directive_table_offsets", || {
        // `%z` / `%:z` "are unaffected by any flags"; the same is taken for
        // %Q / %:Q (which print %z / %:z here: fixed offsets carry no name).
        let offs: [i64; 26] = [0, 1, -1, 29, 30, -30, 59, 60, -60, 61, -3599, 3599, -3540, 3600, -3600, 3601, 19_800, -16_215, 34_200, 45_900, 50_400, -43_200, 86_400, -86_399, 93_599, -93_599];
        let mut fmts: Vec<Fmt> = vec![];
        for fl in FLAGS {
            for w in ["", "1", "10", "255"] {
                for c in ["z", ":z", "Q", ":Q"] {
                    fmts.push(Fmt::new(&format!("%{}{}{}", fl, w, c)));
                }
            }
        }
        // %s: documented are the explicit flags and the width
        let mut sfmts: Vec<(Fmt, bool)> = vec![];
        for fl in FLAGS {
            for w in WIDTHS {
                // without a flag the padding byte of %s is not documented
                sfmts.push((Fmt::new(&format!("%{}{}s", fl, w)), !(matches!(fl, "" | "^" | "#") && !w.is_empty())));
            }
        }
        let unix: [i64; 10] = [0, 1, 9, 10, 59, 86_399, 999_999_999, 1_000_000_000, 1_700_000_000, 253_402_207_200 - 93_599];
        let t = Tally::default();
        let neg_under_hour = AtomicU64::new(0);
        offs.par_iter().for_each(|&o| {
            let off = Offset::from_seconds(o as i32).unwrap();
            let tz = TimeZone::fixed(off);
            for &u in &unix {
                let ts = Timestamp::from_second(u).unwrap();
                let zdt = ts.to_zoned(tz.clone());
                let civ = u + o;
                let (day, sod) = (civ.div_euclid(86_400), civ.rem_euclid(86_400));
                let (y, m, d) = cal::civil_from_days(day);
                let mut v = V::date(y, m, d).with_time(sod / 3600, (sod / 60) % 60, sod % 60, 0);
                v.off = Some(o);
                v.unix = Some(u);
                v.iana = zdt.time_zone().iana_name().map(|s| s.to_string());
                let case = format!("unix {} offset {}s", u, o);
                if u == 1_700_000_000 {
                    if o < 0 && o > -3600 {
                        neg_under_hour.fetch_add(1, Relaxed);
                    }
                    for f in &fmts {
                        let got = guard(|| strtime::format(&f.text, &zdt));
                        check_one(r, "directive_table_offsets", f, &v, got, &case, true, &t);
                    }
                }
                for (f, strict) in &sfmts {
                    let got = guard(|| strtime::format(&f.text, &zdt));
                    if *strict {
                        check_one(r, "directive_table_offsets", f, &v, got, &case, true, &t);
                    } else {
                        let b = Fmt { text: f.text.clone(), items: rfmt::parse_fmt("%s"), c: crate::glibc::CFmt::new("") };
                        check_one(r, "directive_table_offsets", &b, &v, got, &case, false, &t);
                    }
                }
            }
        });
        let n = (offs.len() * (fmts.len() + unix.len() * sfmts.len())) as u64;
        r.add_states(n);
        r.add_transitions(n);
        r.add_validated(n);
        r.count("directive_table_offsets.cases", n);
        tally_out(r, "directive_table_offsets", &t);
        r.require(neg_under_hour.load(Relaxed) >= 3, "negative offsets under an hour in the pool");
    });

    r.section("format_entry_points", || {
        // every way of formatting the same value gives the same text (or all fail)
        let fmts = ["%Y-%m-%dT%H:%M:%S%.f", "%A %B %e %l:%M %p", "%G-W%V-%u %j %U %W", "%F %T %z %:z %Q %Z %s", "%y %g %D", "%H:%M:%S.%3f", "%Q", "%"];
        let mut n = 0u64;
        let mut n_err = 0u64;
        let mut cmp = |what: &str, fmt: &str, case: &str, a: Result<Result<String, String>, String>, b: &Result<Result<String, String>, String>| {
            n += 1;
            let flat = |x: &Result<Result<String, String>, String>| match x {
                Ok(Ok(s)) => Some(s.clone()),
                _ => None,
            };
            if let Err(p) = &a {
                r.viol("format_entry_points", &format!("{}[{}]/{}", what, fmt, panic_sig(p)), format!("{} {}", fmt, case), p.clone());
                return;
            }
            if flat(&a) != flat(b) {
                r.viol("format_entry_points", &format!("{}[{}]/differs-from-strtime::format", what, fmt), format!("{} {}", fmt, case), format!("{:?} vs {:?}", a, b));
            }
            if flat(&a).is_none() {
                n_err += 1;
            }
        };
        let es = |x: Result<String, jiff::Error>| x.map_err(|e| e.to_string());
        for d in vf::pools::dates() {
            for (i, t) in vf::pools::times().into_iter().enumerate() {
                let dt = DateTime::from_parts(d, t);
                let case = dt.to_string();
                for fmt in fmts {
                    if i == 0 {
                        let base = guard(|| es(strtime::format(fmt, d)));
                        cmp("Date::strftime", fmt, &case, guard(|| disp(d.strftime(fmt))), &base);
                        cmp("BrokenDownTime::from(Date).to_string", fmt, &case, guard(|| es(BrokenDownTime::from(d).to_string(fmt))), &base);
                    }
                    if d.year() == 1970 {
                        let base = guard(|| es(strtime::format(fmt, t)));
                        cmp("Time::strftime", fmt, &case, guard(|| disp(t.strftime(fmt))), &base);
                        cmp("BrokenDownTime::from(Time).format", fmt, &case, guard(|| {
                            let mut s = String::new();
                            es(BrokenDownTime::from(t).format(fmt, &mut s).map(|_| s))
                        }), &base);
                    }
                    let base = guard(|| es(strtime::format(fmt, dt)));
                    cmp("DateTime::strftime", fmt, &case, guard(|| disp(dt.strftime(fmt))), &base);
                    cmp("BrokenDownTime::from(DateTime).format", fmt, &case, guard(|| {
                        let mut s = String::new();
                        es(BrokenDownTime::from(dt).format(fmt, &mut s).map(|_| s))
                    }), &base);
                    if d.year() > -9999 && d.year() < 9999 {
                        for tz in [TimeZone::UTC, TimeZone::fixed(Offset::from_seconds(-16_215).unwrap()), jiff::tz::db().get("America/New_York").unwrap()] {
                            let Ok(z) = dt.to_zoned(tz) else { continue };
                            let base = guard(|| es(strtime::format(fmt, &z)));
                            cmp("Zoned::strftime", fmt, &case, guard(|| disp(z.strftime(fmt))), &base);
                            cmp("BrokenDownTime::from(&Zoned).to_string", fmt, &case, guard(|| es(BrokenDownTime::from(&z).to_string(fmt))), &base);
                            let ts = z.timestamp();
                            let base = guard(|| es(strtime::format(fmt, ts)));
                            cmp("Timestamp::strftime", fmt, &case, guard(|| disp(ts.strftime(fmt))), &base);
                            // a Timestamp formats as the same instant in UTC
                            let zu = guard(|| es(strtime::format(fmt, &ts.to_zoned(TimeZone::UTC))));
                            if !fmt.contains("%Q") && !fmt.contains("%Z") {
                                cmp("strtime::format(Timestamp)~format(Zoned in UTC)", fmt, &case, zu, &base);
                            }
                        }
                    }
                }
            }
        }
        r.add_states(n);
        r.add_transitions(n * 2);
        r.add_validated(n);
        r.count("format_entry_points.comparisons", n);
        r.outcome("format_entry_points.both_sides_error", n_err);
        r.require(n_err > 0 && n > 10_000, "entry points compared on successes and on documented errors");
    });

    r.section("bdt_setters", || bdt_setters(r));
    r.section("bdt_from_iso_week_date", || bdt_iso(r));
}

/// Format a `BrokenDownTime` and compare with R-fmt on `v`.
fn bdt_fmt(r: &Report, tm: &BrokenDownTime, fmt: &str, v: &V, case: &str, t: &Tally) {
    let f = Fmt::new(fmt);
    let got = guard(|| tm.to_string(&f.text));
    check_one(r, "bdt_setters", &f, v, got, case, true, t);
}

fn bdt_setters(r: &Report) {
    let t = Tally::default();
    let (n_set, n_rej) = (AtomicU64::new(0), AtomicU64::new(0));
    // one field at a time: range check, getter, set(None), and the conversion
    // that prints exactly this field
    macro_rules! field {
        ($name:literal, $set:ident, $get:ident, $ty:ty, $lo:expr, $hi:expr, $vals:expr, $fmt:expr, $mkv:expr) => {{
            for val in $vals {
                let val: i64 = val;
                let in_ty = val >= <$ty>::MIN as i64 && val <= <$ty>::MAX as i64;
                if !in_ty {
                    continue;
                }
                let x = val as $ty;
                let mut tm = BrokenDownTime::default();
                let case = format!("{}({})", stringify!($set), val);
                let res = guard(|| {
                    let e = tm.$set(Some(x)).is_ok();
                    (e, tm.$get())
                });
                let valid = val >= $lo && val <= $hi;
                match res {
                    Err(p) => r.viol("bdt_setters", &format!("BrokenDownTime::{}/{}", stringify!($set), panic_sig(&p)), case.clone(), p),
                    Ok((ok, got)) => {
                        if ok != valid {
                            r.viol("bdt_setters", &format!("BrokenDownTime::{}/range", stringify!($set)), case.clone(), format!("accepted={} documented range {}..={}", ok, $lo, $hi));
                        }
                        if ok {
                            n_set.fetch_add(1, Relaxed);
                            if got.map(|g| g as i64) != Some(val) {
                                r.viol("bdt_setters", &format!("BrokenDownTime::{}/getter", stringify!($get)), case.clone(), format!("got {:?}", got));
                            }
                            #[allow(clippy::redundant_closure_call)]
                            if let Some(v) = ($mkv)(val) {
                                for f in $fmt {
                                    bdt_fmt(r, &tm, f, &v, &case, &t);
                                }
                            }
                            let _ = tm.$set(None);
                            if tm.$get().is_some() {
                                r.viol("bdt_setters", &format!("BrokenDownTime::{}/set-None", stringify!($set)), case.clone(), "getter still Some");
                            }
                        } else {
                            n_rej.fetch_add(1, Relaxed);
                        }
                    }
                }
            }
        }};
    }
    let dv = |f: fn(&mut V, i64)| {
        move |val: i64| {
            let mut v = V { has_date: true, ..V::default() };
            f(&mut v, val);
            Some(v)
        }
    };
    let years: Vec<i64> = vec![-32768, -10_000, -9999, -1, 0, 1, 9, 10, 99, 100, 999, 1000, 1969, 2024, 2068, 9999, 10_000, 32767];
    field!("year", set_year, year, i16, -9999, 9999, years.clone(), ["%Y", "%C", "%-Y", "%_6Y", "%06Y"], |val: i64| if val >= 0 { dv(|v, x| v.y = x)(val) } else { None });
    field!("month", set_month, month, i8, 1, 12, -1..=14, ["%m", "%B", "%b", "%h", "%-m", "%^b"], dv(|v, x| v.m = x));
    field!("day", set_day, day, i8, 1, 31, -1..=33, ["%d", "%e", "%-d", "%03d"], dv(|v, x| v.d = x));
    field!("day_of_year", set_day_of_year, day_of_year, i16, 1, 366, -1..=368, ["%j", "%-j", "%_j"], dv(|v, x| v.doy = x));
    field!("iso_week_year", set_iso_week_year, iso_week_year, i16, -9999, 9999, years.clone(), ["%G", "%-G"], |val: i64| if val >= 0 { dv(|v, x| v.iso_y = x)(val) } else { None });
    field!("iso_week", set_iso_week, iso_week, i8, 1, 53, -1..=55, ["%V", "%-V", "%_V"], dv(|v, x| v.iso_w = x));
    // %U / %W read an explicitly set week number (they are derived otherwise)
    {
        macro_rules! week {
            ($set:ident, $get:ident, $conv:literal) => {{
                for val in -1..=56i64 {
                    let mut tm = BrokenDownTime::default();
                    let case = format!("{}({})", stringify!($set), val);
                    let ok = tm.$set(Some(val as i8)).is_ok();
                    if ok != (0..=53).contains(&val) {
                        r.viol("bdt_setters", &format!("BrokenDownTime::{}/range", stringify!($set)), case.clone(), format!("accepted={} documented range 0..=53", ok));
                    }
                    if ok {
                        n_set.fetch_add(1, Relaxed);
                        if tm.$get().map(|g| g as i64) != Some(val) {
                            r.viol("bdt_setters", &format!("BrokenDownTime::{}/getter", stringify!($get)), case.clone(), format!("got {:?}", tm.$get()));
                        }
                        for (fmt, want) in [(format!("%{}", $conv), format!("{:02}", val)), (format!("%-{}", $conv), format!("{}", val)), (format!("%_3{}", $conv), format!("{:3}", val))] {
                            match guard(|| tm.to_string(&fmt)) {
                                Ok(Ok(g)) if g == want => {
                                    t.ok.fetch_add(1, Relaxed);
                                }
                                other => r.viol("bdt_setters", &format!("strftime[{}]/value:explicit-week-number", fmt), case.clone(), format!("jiff {:?} expected {:?}", other.map(|x| x.map_err(|e| e.to_string())), want)),
                            }
                        }
                    } else {
                        n_rej.fetch_add(1, Relaxed);
                    }
                }
            }};
        }
        week!(set_sunday_based_week, sunday_based_week, "U");
        week!(set_monday_based_week, monday_based_week, "W");
    }
    let tv = |f: fn(&mut V, i64)| {
        move |val: i64| {
            let mut v = V { has_time: true, ..V::default() };
            f(&mut v, val);
            Some(v)
        }
    };
    field!("hour", set_hour, hour, i8, 0, 23, -1..=25, ["%H", "%k", "%I", "%l", "%p", "%P", "%#p", "%^P", "%-I"], tv(|v, x| v.h = x));
    field!("minute", set_minute, minute, i8, 0, 59, -1..=61, ["%M", "%-M"], tv(|v, x| v.mi = x));
    field!("second", set_second, second, i8, 0, 59, -1..=61, ["%S", "%_S"], tv(|v, x| v.s = x));
    field!("subsec_nanosecond", set_subsec_nanosecond, subsec_nanosecond, i32, 0, 999_999_999, vec![-1i64, 0, 1, 10, 999, 500_000_000, 999_999_999, 1_000_000_000, i32::MAX as i64, i32::MIN as i64], ["%f", "%.f", "%3f", "%.9f"], tv(|v, x| v.ns = x));
    // weekday, offset, identifier
    let wds = [Weekday::Sunday, Weekday::Monday, Weekday::Tuesday, Weekday::Wednesday, Weekday::Thursday, Weekday::Friday, Weekday::Saturday];
    for (i, wd) in wds.iter().enumerate() {
        let mut tm = BrokenDownTime::default();
        tm.set_weekday(Some(*wd));
        n_set.fetch_add(1, Relaxed);
        let case = format!("set_weekday({:?})", wd);
        if tm.weekday() != Some(*wd) {
            r.viol("bdt_setters", "BrokenDownTime::weekday/getter", case.clone(), format!("{:?}", tm.weekday()));
        }
        let v = V { has_date: true, wd: i as i64, ..V::default() };
        for f in ["%A", "%a", "%u", "%w", "%^a", "%^A"] {
            bdt_fmt(r, &tm, f, &v, &case, &t);
        }
        tm.set_weekday(None);
        if tm.weekday().is_some() {
            r.viol("bdt_setters", "BrokenDownTime::set_weekday/set-None", case, "getter still Some");
        }
    }
    for o in [0i64, 1, -1, 3599, -3599, 19_800, -16_215, 93_599, -93_599] {
        let mut tm = BrokenDownTime::default();
        let off = Offset::from_seconds(o as i32).unwrap();
        tm.set_offset(Some(off));
        n_set.fetch_add(1, Relaxed);
        let case = format!("set_offset({}s)", o);
        if tm.offset() != Some(off) {
            r.viol("bdt_setters", "BrokenDownTime::offset/getter", case.clone(), format!("{:?}", tm.offset()));
        }
        let mut v = V { off: Some(o), ..V::default() };
        for f in ["%z", "%:z", "%Q", "%:Q"] {
            bdt_fmt(r, &tm, f, &v, &case, &t);
        }
        // "setting the identifier is not smart": it is printed as is, the offset stays
        tm.set_iana_time_zone(Some("Clearly/Invalid".to_string()));
        if tm.iana_time_zone() != Some("Clearly/Invalid") || tm.offset() != Some(off) {
            r.viol("bdt_setters", "BrokenDownTime::iana_time_zone/getter", case.clone(), format!("{:?} {:?}", tm.iana_time_zone(), tm.offset()));
        }
        v.iana = Some("Clearly/Invalid".to_string());
        for f in ["%z", "%:z", "%Q", "%:Q"] {
            bdt_fmt(r, &tm, f, &v, &case, &t);
        }
        tm.set_offset(None);
        tm.set_iana_time_zone(None);
        if tm.offset().is_some() || tm.iana_time_zone().is_some() {
            r.viol("bdt_setters", "BrokenDownTime::set_offset/set-None", case, "getter still Some");
        }
    }
    // a field that is not set cannot be printed (documented error), whatever else is
    {
        let mut tm = BrokenDownTime::default();
        tm.set_month(Some(7)).unwrap();
        tm.set_hour(Some(5)).unwrap();
        let v = V::default();
        for f in ["%Y", "%d", "%j", "%A", "%U", "%V", "%G", "%M", "%S", "%f", "%z", "%:z", "%Q", "%Z", "%s", "%F", "%T", "%D", "%R"] {
            bdt_fmt(r, &tm, f, &v, "only month and hour set", &t);
        }
    }

    // derived fields: what is not set is computed from what determines the date
    let mut n_derived = 0u64;
    let (mut n_valid, mut n_invalid) = (0u64, 0u64);
    let year_pool: Vec<i64> = (1990..=2030).chain([0, 1, 400, 1900, 9999]).collect();
    let derived_fmt = "%Y|%m|%d|%e|%b|%B|%j|%a|%A|%u|%w|%U|%W|%V|%G|%F";
    let fd = Fmt::new(derived_fmt);
    let mut check_derived = |what: &str, tm: &BrokenDownTime, day: Option<i64>, case: String| {
        n_derived += 1;
        let got_date = guard(|| tm.to_date());
        let want_date = day.map(|n| jdate(&succ_at(n)));
        match got_date {
            Err(p) => r.viol("bdt_setters", &format!("BrokenDownTime::to_date[{}]/{}", what, panic_sig(&p)), case.clone(), p),
            Ok(g) => {
                if g.as_ref().ok() != want_date.as_ref() {
                    r.viol("bdt_setters", &format!("BrokenDownTime::to_date[{}]/value", what), case.clone(), format!("jiff {:?} model {:?}", g.map_err(|e| e.to_string()), want_date));
                }
            }
        }
        match day {
            Some(n) => {
                n_valid += 1;
                let s = succ_at(n);
                if s.iso_y < 0 || s.y < 0 {
                    return;
                }
                let got = guard(|| tm.to_string(derived_fmt));
                let mut want = String::new();
                fd.model(&v_of(&s), &mut want).unwrap();
                match got {
                    Ok(Ok(g)) if g == want => {}
                    Ok(Ok(g)) => blame(r, "bdt_setters", &format!("strftime(derived from {})", what), "", derived_fmt, &case, &g, &want, "jiff vs R-fmt"),
                    other => r.viol("bdt_setters", &format!("strftime(derived from {})/unexpected-error", what), case.clone(), format!("{:?}", other.map(|x| x.map_err(|e| e.to_string())))),
                }
            }
            None => n_invalid += 1,
        }
    };
    for &y in &year_pool {
        let jan1 = cal::days_from_civil(y, 1, 1);
        let ylen = cal::days_in_year(y);
        // year + day of year
        for doy in 1..=366i64 {
            let mut tm = BrokenDownTime::default();
            tm.set_year(Some(y as i16)).unwrap();
            tm.set_day_of_year(Some(doy as i16)).unwrap();
            check_derived("year+day_of_year", &tm, (doy <= ylen).then_some(jan1 + doy - 1), format!("year {} day_of_year {}", y, doy));
        }
        // year + week number + weekday, both conventions; the model searches the year
        for week in 0..=53i64 {
            for wd in 0..7i64 {
                for sunday in [true, false] {
                    let find = (0..ylen).map(|k| succ_at(jan1 + k)).find(|s| {
                        let wk = if sunday { (s.doy - 1 + 7 - s.wd as i64) / 7 } else { (s.doy - 1 + 7 - (s.wd as i64 + 6) % 7) / 7 };
                        wk == week && s.wd as i64 == wd
                    });
                    let mut tm = BrokenDownTime::default();
                    tm.set_year(Some(y as i16)).unwrap();
                    if sunday {
                        tm.set_sunday_based_week(Some(week as i8)).unwrap();
                    } else {
                        tm.set_monday_based_week(Some(week as i8)).unwrap();
                    }
                    tm.set_weekday(Some(wds[wd as usize]));
                    check_derived(if sunday { "year+sunday_based_week+weekday" } else { "year+monday_based_week+weekday" }, &tm, find.map(|s| s.epoch_day), format!("year {} week {} weekday {} ({})", y, week, wd, if sunday { "%U" } else { "%W" }));
                }
            }
        }
        // ISO week date
        for week in 1..=53i64 {
            for iwd in 1..=7i64 {
                let day = cal::days_from_iso(y, week, iwd).filter(|&n| n >= cal::min_day() && n <= cal::max_day());
                let mut tm = BrokenDownTime::default();
                tm.set_iso_week_year(Some(y as i16)).unwrap();
                tm.set_iso_week(Some(week as i8)).unwrap();
                tm.set_weekday(Some(wds[(iwd % 7) as usize]));
                check_derived("iso_week_year+iso_week+weekday", &tm, day, format!("iso year {} week {} weekday {}", y, week, iwd));
            }
        }
    }
    let n = n_set.load(Relaxed) + n_rej.load(Relaxed) + n_derived;
    r.add_states(n);
    r.add_transitions(n * 3);
    r.add_validated(n * 2);
    r.count("bdt_setters.values_set", n_set.load(Relaxed));
    r.count("bdt_setters.derived_cases", n_derived);
    r.outcome("bdt_setters.out_of_range_rejected", n_rej.load(Relaxed));
    r.outcome("bdt_setters.derived_valid", n_valid);
    r.outcome("bdt_setters.derived_nonexistent(date must be refused)", n_invalid);
    tally_out(r, "bdt_setters", &t);
    r.require(n_rej.load(Relaxed) > 20 && n_valid > 10_000 && n_invalid > 1_000 && t.documented_err.load(Relaxed) >= 19, "setters: accepted, rejected, derived-valid, derived-nonexistent and unset-field classes all seen");
    // getters of the conversions from datetime types
    {
        let d = Date::new(2024, 7, 9).unwrap();
        let tm = BrokenDownTime::from(d.at(13, 2, 3, 4));
        let ok = tm.year() == Some(2024) && tm.month() == Some(7) && tm.day() == Some(9) && tm.hour() == Some(13) && tm.minute() == Some(2) && tm.second() == Some(3) && tm.subsec_nanosecond() == Some(4) && tm.meridiem() == Some(Meridiem::PM) && tm.weekday().is_none() && tm.offset().is_none() && tm.iana_time_zone().is_none() && tm.day_of_year().is_none() && tm.iso_week().is_none();
        if !ok {
            r.viol("bdt_setters", "BrokenDownTime::from(DateTime)/getters", "2024-07-09T13:02:03.000000004", format!("{:?}", tm));
        }
        let z: Zoned = d.at(13, 2, 3, 4).in_tz("America/New_York").unwrap();
        let tm = BrokenDownTime::from(&z);
        if tm.offset() != Some(Offset::from_seconds(-4 * 3600).unwrap()) || tm.iana_time_zone() != Some("America/New_York") || tm.hour() != Some(13) {
            r.viol("bdt_setters", "BrokenDownTime::from(&Zoned)/getters", "2024-07-09T13:02:03.000000004[America/New_York]", format!("{:?}", tm));
        }
        let tm = BrokenDownTime::from(z.timestamp());
        if tm.offset() != Some(Offset::UTC) || tm.hour() != Some(17) || tm.iana_time_zone().is_some() {
            r.viol("bdt_setters", "BrokenDownTime::from(Timestamp)/getters", "2024-07-09T17:02:03.000000004Z", format!("{:?}", tm));
        }
    }
}

/// `From<ISOWeekDate>`: the ISO fields are stored, everything Gregorian is
/// derived. All days of years 0..=9999.
fn bdt_iso(r: &Report) {
    let stored = Fmt::new("%G|%V|%u|%w|%a|%A");
    let derived = Fmt::new("%Y|%m|%d|%j|%U|%W|%F|%b");
    let bad = AtomicU64::new(0);
    let n = for_each_day_local(r, "bdt_from_iso_week_date", 0, 9999, |s, l| {
        if s.iso_y < 0 {
            return;
        }
        let case = || ymd(s);
        let wd = match guard(|| ISOWeekDate::new(s.iso_y as i16, s.iso_w as i8, [Weekday::Sunday, Weekday::Monday, Weekday::Tuesday, Weekday::Wednesday, Weekday::Thursday, Weekday::Friday, Weekday::Saturday][s.wd as usize])) {
            Ok(Ok(w)) => w,
            _ => {
                bad.fetch_add(1, Relaxed);
                return;
            }
        };
        let v = v_of(s);
        let mut want = String::new();
        for f in [&stored, &derived] {
            f.model(&v, &mut want).unwrap();
            match guard(|| strtime::format(&f.text, wd)) {
                Err(p) => l.viol(&format!("strftime(ISOWeekDate)[{}]/{}", f.text, panic_sig(&p)), case(), || p.clone()),
                Ok(Err(e)) => l.viol(&format!("strftime(ISOWeekDate)[{}]/unexpected-error", f.text), case(), || e.to_string()),
                Ok(Ok(g)) => {
                    if g != want {
                        let fs: Vec<&str> = f.text.split('|').collect();
                        let gs: Vec<&str> = g.split('|').collect();
                        let ws: Vec<&str> = want.split('|').collect();
                        for i in 0..fs.len().min(gs.len()).min(ws.len()) {
                            if gs[i] != ws[i] {
                                l.viol(&format!("strftime(ISOWeekDate)[{}]/value", fs[i]), format!("{} {}", fs[i], case()), || format!("jiff {:?} R-fmt {:?}", gs[i], ws[i]));
                            }
                        }
                    }
                }
            }
        }
    });
    r.add_states(n);
    r.add_transitions(n * 14);
    r.add_validated(n * 14);
    r.count("bdt_from_iso_week_date.days", n);
    r.outcome("bdt_from_iso_week_date.ISOWeekDate::new_refused(C01 domain)", bad.load(Relaxed));
    r.require(n == 3_652_425 && bad.load(Relaxed) == 0, "every date's ISO week date formatted");
}
