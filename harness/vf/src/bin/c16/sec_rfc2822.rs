//! RFC 2822: print -> parse identity to the second with offsets to the
//! minute, wrong weekdays rejected, obsolete forms per RFC 2822 section 4.3.

use crate::common::*;
use crate::rfmt::{MON_ABBR, WD_ABBR};
use jiff::fmt::rfc2822::{self, DateTimeParser, DateTimePrinter};
use jiff::tz::{Offset, TimeZone};
use jiff::Timestamp;
use refmodel::cal::Succ;
use std::sync::atomic::{AtomicU64, Ordering::Relaxed};
use vf::{guard, panic_sig, Report};

fn text_2822(s: &Succ, wd: usize, tod: i64, zone: &str, pad_day: bool) -> String {
    let day = if pad_day { format!("{:02}", s.d) } else { format!("{}", s.d) };
    format!("{}, {} {} {:04} {:02}:{:02}:{:02} {}", WD_ABBR[wd], day, MON_ABBR[(s.m - 1) as usize], s.y, tod / 3600, (tod / 60) % 60, tod % 60, zone)
}

fn off_text(off: i64) -> String {
    format!("{}{:02}{:02}", if off < 0 { '-' } else { '+' }, off.abs() / 3600, (off.abs() / 60) % 60)
}

pub fn run(r: &Report) {
    r.section("rfc2822_roundtrip", || {
        let tods: Vec<i64> = if r.quick() { vec![45_296] } else { vec![0, 45_296, 86_399] };
        let offs: Vec<i64> = if r.quick() { vec![0, 19_800, -86_340] } else { vec![-86_340, -18_000, 0, 19_800, 86_340] };
        let wrong: Vec<usize> = if r.quick() { vec![1, 6] } else { vec![1, 2, 3, 4, 5, 6] };
        let (n_rt, n_out, n_wrong) = (AtomicU64::new(0), AtomicU64::new(0), AtomicU64::new(0));
        let printer = DateTimePrinter::new();
        let parser = DateTimeParser::new();
        let relaxed = DateTimeParser::new().relaxed_weekday(true);
        let strict = DateTimeParser::new().relaxed_weekday(false);
        let n = for_each_day_local(r, "rfc2822_roundtrip", 0, 9999, |s, l| {
            let date = ymd(s);
            for &tod in &tods {
                for &off in &offs {
                    let unix = s.epoch_day * 86_400 + tod - off;
                    if unix < vf::zones::TS_MIN_SEC || unix > vf::zones::TS_MAX_SEC {
                        n_out.fetch_add(1, Relaxed);
                        continue;
                    }
                    n_rt.fetch_add(1, Relaxed);
                    let case = || format!("{}T{:02}:{:02}:{:02}{}", date, tod / 3600, (tod / 60) % 60, tod % 60, off_text(off));
                    let ts = Timestamp::from_second(unix).expect("in range");
                    let zdt = ts.to_zoned(TimeZone::fixed(Offset::from_seconds(off as i32).unwrap()));
                    let want = text_2822(s, s.wd as usize, tod, &off_text(off), false);
                    let text = match guard(|| rfc2822::to_string(&zdt)) {
                        Err(p) => {
                            l.viol(&format!("rfc2822::to_string/{}", panic_sig(&p)), case(), || p.clone());
                            continue;
                        }
                        Ok(Err(e)) => {
                            l.viol("rfc2822::to_string/unexpected-error", case(), || e.to_string());
                            continue;
                        }
                        Ok(Ok(t)) => t,
                    };
                    if text != want {
                        l.viol("rfc2822::to_string/text", case(), || format!("jiff {:?} expected {:?}", text, want));
                    }
                    match guard(|| rfc2822::parse(&text)) {
                        Err(p) => l.viol(&format!("rfc2822::parse/{}", panic_sig(&p)), case(), || format!("text {:?}: {}", text, p)),
                        Ok(Err(e)) => l.viol("rfc2822::parse/rejects-printed-text", case(), || format!("text {:?}: {}", text, e)),
                        Ok(Ok(z)) => {
                            if z.timestamp() != ts || z.offset().seconds() as i64 != off {
                                l.viol("rfc2822::parse/roundtrip-value", case(), || format!("text {:?} parsed {} original {}", text, z, zdt));
                            }
                        }
                    }
                }
            }
            // at 12:34:56 UTC: wrong weekdays, the Timestamp printer, RFC 9110
            let tod = 45_296;
            let unix = s.epoch_day * 86_400 + tod;
            if unix > vf::zones::TS_MAX_SEC {
                return;
            }
            let ts = Timestamp::from_second(unix).expect("in range");
            let case = || format!("{}T12:34:56Z", date);
            for &k in &wrong {
                let w = (s.wd as usize + k) % 7;
                let text = text_2822(s, w, tod, "+0000", false);
                n_wrong.fetch_add(1, Relaxed);
                match guard(|| rfc2822::parse(&text)) {
                    Err(p) => l.viol(&format!("rfc2822::parse/{}", panic_sig(&p)), format!("{:?}", text), || p.clone()),
                    Ok(Err(_)) => {}
                    Ok(Ok(z)) => l.viol("rfc2822::parse/wrong-weekday-accepted", format!("{:?}", text), || format!("accepted as {}", z)),
                }
                // relaxed_weekday(true) takes the same text and ignores the name;
                // relaxed_weekday(false) is the default again
                match guard(|| (relaxed.parse_timestamp(&text), relaxed.parse_zoned(&text), strict.parse_timestamp(&text))) {
                    Err(p) => l.viol(&format!("rfc2822::DateTimeParser::relaxed_weekday/{}", panic_sig(&p)), format!("{:?}", text), || p.clone()),
                    Ok((t, z, st)) => {
                        match (&t, &z) {
                            (Ok(t), Ok(z)) => {
                                if *t != ts || z.timestamp() != ts || z.offset().seconds() != 0 {
                                    l.viol("rfc2822::DateTimeParser::relaxed_weekday(true)/value", format!("{:?}", text), || format!("parsed {} / {}", t, z));
                                }
                            }
                            _ => l.viol("rfc2822::DateTimeParser::relaxed_weekday(true)/rejects-wrong-weekday", format!("{:?}", text), || format!("{:?} / {:?}", t.as_ref().map_err(|e| e.to_string()), z.as_ref().map(|z| z.to_string()).map_err(|e| e.to_string()))),
                        }
                        if st.is_ok() {
                            l.viol("rfc2822::DateTimeParser::relaxed_weekday(false)/wrong-weekday-accepted", format!("{:?}", text), || "accepted".to_string());
                        }
                    }
                }
            }
            for (what, want, got) in [
                ("timestamp_to_string", text_2822(s, s.wd as usize, tod, "-0000", false), guard(|| printer.timestamp_to_string(&ts).map_err(|e| e.to_string()))),
                ("timestamp_to_rfc9110_string", text_2822(s, s.wd as usize, tod, "GMT", true), guard(|| printer.timestamp_to_rfc9110_string(&ts).map_err(|e| e.to_string()))),
            ] {
                match got {
                    Err(p) => l.viol(&format!("rfc2822::DateTimePrinter::{}/{}", what, panic_sig(&p)), case(), || p.clone()),
                    Ok(Err(e)) => l.viol(&format!("rfc2822::DateTimePrinter::{}/unexpected-error", what), case(), || e.clone()),
                    Ok(Ok(text)) => {
                        if text != want {
                            l.viol(&format!("rfc2822::DateTimePrinter::{}/text", what), case(), || format!("jiff {:?} expected {:?}", text, want));
                        }
                        match guard(|| parser.parse_timestamp(&text)) {
                            Err(p) => l.viol(&format!("rfc2822::DateTimeParser::parse_timestamp/{}", panic_sig(&p)), case(), || format!("text {:?}: {}", text, p)),
                            Ok(Err(e)) => l.viol(&format!("rfc2822::DateTimeParser::parse_timestamp/rejects-{}-text", what), case(), || format!("text {:?}: {}", text, e)),
                            Ok(Ok(t)) => {
                                if t != ts {
                                    l.viol(&format!("rfc2822::DateTimeParser::parse_timestamp/roundtrip-value({})", what), case(), || format!("text {:?} parsed {} original {}", text, t, ts));
                                }
                            }
                        }
                    }
                }
            }
        });
        r.add_states(n_rt.load(Relaxed));
        r.add_transitions(n_rt.load(Relaxed) * 2 + n_wrong.load(Relaxed) + n * 4);
        r.add_validated(n_rt.load(Relaxed) * 2 + n_wrong.load(Relaxed) + n * 4);
        r.count("rfc2822_roundtrip.days", n);
        r.count("rfc2822_roundtrip.instants", n_rt.load(Relaxed));
        r.outcome("rfc2822_roundtrip.outside_timestamp_range_skipped", n_out.load(Relaxed));
        r.outcome("rfc2822_roundtrip.wrong_weekday_texts", n_wrong.load(Relaxed));
        r.require(n == 3_652_425 && n_rt.load(Relaxed) > n, "every day of years 0..=9999 printed and parsed");
    });

    r.section("rfc2822_obsolete", || {
        let parser = DateTimeParser::new();
        let mut n = 0u64;
        // RFC 2822 section 4.3 zone table; unknown alphabetic zones and the
        // military letters are to be taken as -0000
        let zones: [(&str, i64); 20] = [
            ("UT", 0),
            ("GMT", 0),
            ("EST", -5),
            ("EDT", -4),
            ("CST", -6),
            ("CDT", -5),
            ("MST", -7),
            ("MDT", -6),
            ("PST", -8),
            ("PDT", -7),
            ("Z", 0),
            ("A", 0),
            ("M", 0),
            ("N", 0),
            ("Y", 0),
            ("gmt", 0),
            ("est", -5),
            ("Pdt", -7),
            ("XYZ", 0),
            ("CEST", 0),
        ];
        for d in vf::pools::dates() {
            if d.year() < 0 {
                // documented: negative years cannot be printed
                n += 1;
                let ts = d.at(12, 0, 0, 0).to_zoned(TimeZone::UTC).map(|z| z.timestamp());
                if let Ok(ts) = ts {
                    match guard(|| DateTimePrinter::new().timestamp_to_string(&ts)) {
                        Err(p) => r.viol("rfc2822_obsolete", &format!("rfc2822::DateTimePrinter::timestamp_to_string/{}", panic_sig(&p)), format!("{}", d), p),
                        Ok(Ok(t)) => r.viol("rfc2822_obsolete", "rfc2822::DateTimePrinter::timestamp_to_string/negative-year-printed", format!("{}", d), t),
                        Ok(Err(_)) => {}
                    }
                }
                continue;
            }
            let s = succ_at(vf::conv::date_epoch_day(d));
            for (zone, hours) in zones {
                n += 1;
                let text = text_2822(&s, s.wd as usize, 45_296, zone, false);
                let want = s.epoch_day * 86_400 + 45_296 - hours * 3600;
                if want > vf::zones::TS_MAX_SEC || want < vf::zones::TS_MIN_SEC {
                    continue;
                }
                match guard(|| parser.parse_zoned(&text)) {
                    Err(p) => r.viol("rfc2822_obsolete", &format!("rfc2822::DateTimeParser::parse_zoned/{}", panic_sig(&p)), format!("{:?}", text), p),
                    Ok(Err(e)) => r.viol("rfc2822_obsolete", "rfc2822::DateTimeParser::parse_zoned/rejects-obsolete-zone", format!("{:?}", text), e.to_string()),
                    Ok(Ok(z)) => {
                        if z.timestamp().as_second() != want || z.offset().seconds() as i64 != hours * 3600 {
                            r.viol("rfc2822_obsolete", "rfc2822::DateTimeParser::parse_zoned/obsolete-zone-value", format!("{:?}", text), format!("parsed {} expected unix {} offset {}h", z, want, hours));
                        }
                    }
                }
            }
            // relaxed weekday accepts a wrong (but valid) weekday name
            n += 1;
            let wrong = text_2822(&s, (s.wd as usize + 3) % 7, 45_296, "+0000", false);
            let want = s.epoch_day * 86_400 + 45_296;
            if want <= vf::zones::TS_MAX_SEC {
                match guard(|| DateTimeParser::new().relaxed_weekday(true).parse_timestamp(&wrong)) {
                    Err(p) => r.viol("rfc2822_obsolete", &format!("rfc2822::DateTimeParser::parse_timestamp/{}", panic_sig(&p)), format!("{:?}", wrong), p),
                    Ok(Err(e)) => r.viol("rfc2822_obsolete", "rfc2822::DateTimeParser::parse_timestamp/relaxed_weekday-rejects", format!("{:?}", wrong), e.to_string()),
                    Ok(Ok(t)) => {
                        if t.as_second() != want {
                            r.viol("rfc2822_obsolete", "rfc2822::DateTimeParser::parse_timestamp/relaxed_weekday-value", format!("{:?}", wrong), format!("parsed {}", t));
                        }
                    }
                }
            }
        }
        // obsolete years (section 4.3): 2 digits 00..=49 -> 20xx, 50..=99 -> 19xx, 3 digits -> +1900
        for yy in 0..1000i64 {
            for digits in [2usize, 3] {
                if digits == 2 && yy > 99 {
                    continue;
                }
                n += 1;
                let year = if digits == 2 {
                    if yy <= 49 {
                        2000 + yy
                    } else {
                        1900 + yy
                    }
                } else {
                    1900 + yy
                };
                let text = format!("1 Jan {:0w$} 00:00:00 +0000", yy, w = digits);
                let want = refmodel::cal::days_from_civil(year, 1, 1) * 86_400;
                match guard(|| parser.parse_timestamp(&text)) {
                    Err(p) => r.viol("rfc2822_obsolete", &format!("rfc2822::DateTimeParser::parse_timestamp/{}", panic_sig(&p)), format!("{:?}", text), p),
                    Ok(Err(e)) => r.viol("rfc2822_obsolete", "rfc2822::DateTimeParser::parse_timestamp/rejects-obsolete-year", format!("{:?}", text), e.to_string()),
                    Ok(Ok(t)) => {
                        if t.as_second() != want {
                            r.viol("rfc2822_obsolete", "rfc2822::DateTimeParser::parse_timestamp/obsolete-year-value", format!("{:?}", text), format!("parsed {} expected year {}", t, year));
                        }
                    }
                }
            }
        }
        r.add_states(n);
        r.add_transitions(n);
        r.add_validated(n);
        r.count("rfc2822_obsolete.cases", n);
    });

    r.section("rfc2822_offsets", || offsets(r));
    r.section("rfc2822_forms", || forms(r));
}

/// Expected text of the printer for a civil reading and an offset: the offset
/// is printed to the minute, rounded half away from zero on its seconds
/// (src/fmt/rfc2822.rs documents the rounding) - except within 30 seconds of
/// the largest offset, where rounding up would give the hour 26, which is not
/// an offset the parser (or jiff's Offset type) admits: truncated to 25:59.
fn rounded_minutes(off: i64) -> i64 {
    let a = off.abs();
    let m = (a / 60 + if a % 60 >= 30 { 1 } else { 0 }).min(25 * 60 + 59);
    if off < 0 {
        -m
    } else {
        m
    }
}

/// Every offset jiff supports, and instants with fractions on both sides of
/// the epoch: the civil reading is that of the true offset, the fraction is
/// dropped ("as if truncating any fractional seconds"), the printed offset is
/// the rounded one, and the text parses back to the printed reading.
fn offsets(r: &Report) {
    use rayon::prelude::*;
    let sec = "rfc2822_offsets";
    let printer = DateTimePrinter::new();
    let offs: Vec<i64> = (-93_599..=93_599).collect();
    let instants: [i128; 8] = [1_700_000_000_000_000_000, 0, -1, -500_000_000, -999_999_999, 999_999_999, -1_000_000_001, 1_700_000_000_999_999_999];
    let (n_round, n_2600, n_frac) = (AtomicU64::new(0), AtomicU64::new(0), AtomicU64::new(0));
    let quick = r.quick();
    offs.par_iter().for_each(|&o| {
        let off = Offset::from_seconds(o as i32).unwrap();
        let tz = TimeZone::fixed(off);
        // all instants for the boundary offsets, one otherwise
        let boundary = o.abs() <= 61 || o.abs() % 3600 <= 61 || o.abs() % 3600 >= 3539 || o.abs() >= 93_500;
        for (k, &ns) in instants.iter().enumerate() {
            if k > 0 && !boundary && quick {
                break;
            }
            let ts = Timestamp::from_nanosecond(ns).unwrap();
            let zdt = ts.to_zoned(tz.clone());
            let sec_floor = ns.div_euclid(1_000_000_000) as i64;
            if ns.rem_euclid(1_000_000_000) != 0 {
                n_frac.fetch_add(1, Relaxed);
            }
            let civ = sec_floor + o;
            let s = succ_at(civ.div_euclid(86_400));
            let tod = civ.rem_euclid(86_400);
            let rm = rounded_minutes(o);
            if rm * 60 != o {
                n_round.fetch_add(1, Relaxed);
            }
            let zone = format!("{}{:02}{:02}", if o < 0 { '-' } else { '+' }, rm.abs() / 60, rm.abs() % 60);
            let want = text_2822(&s, s.wd as usize, tod, &zone, false);
            let case = format!("{} offset {}s", vf::conv::fmt_ns(ns), o);
            let got = guard(|| {
                let a = rfc2822::to_string(&zdt).map_err(|e| e.to_string());
                let b = printer.zoned_to_string(&zdt).map_err(|e| e.to_string());
                let mut c = String::new();
                let c = printer.print_zoned(&zdt, &mut c).map(|_| c).map_err(|e| e.to_string());
                (a, b, c)
            });
            let text = match got {
                Err(p) => {
                    r.viol(sec, &format!("rfc2822::to_string/{}", panic_sig(&p)), case, p);
                    continue;
                }
                Ok((a, b, c)) => {
                    if a != b || a != c {
                        r.viol(sec, "rfc2822::DateTimePrinter::print_zoned/differs-from-to_string", case.clone(), format!("{:?} {:?} {:?}", a, b, c));
                    }
                    match a {
                        Err(e) => {
                            r.viol(sec, "rfc2822::to_string/unexpected-error", case, e);
                            continue;
                        }
                        Ok(t) => t,
                    }
                }
            };
            if text != want {
                r.viol(sec, &format!("rfc2822::to_string/text{}", if rm * 60 != o { ":offset-with-seconds" } else { "" }), case.clone(), format!("jiff {:?} expected {:?}", text, want));
                continue;
            }
            // parse back: the reading and the printed offset
            let want_unix = civ - rm * 60;
            // the edge class: would have been printed as 2600 by plain rounding
            let unparsable = o.abs() >= 25 * 3600 + 59 * 60 + 30;
            if unparsable {
                n_2600.fetch_add(1, Relaxed);
            }
            match guard(|| rfc2822::parse(&text)) {
                Err(p) => r.viol(sec, &format!("rfc2822::parse/{}", panic_sig(&p)), case, format!("text {:?}: {}", text, p)),
                Ok(Err(e)) => r.viol(sec, if unparsable { "rfc2822::parse/rejects-printed-text:|offset|>=25:59:30(printed as 2600)" } else { "rfc2822::parse/rejects-printed-text" }, case, format!("text {:?}: {}", text, e)),
                Ok(Ok(z)) => {
                    if z.timestamp().as_second() != want_unix || z.timestamp().subsec_nanosecond() != 0 || z.offset().seconds() as i64 != rm * 60 {
                        r.viol(sec, "rfc2822::parse/roundtrip-value", case, format!("text {:?} parsed {} expected unix {} offset {}s", text, z, want_unix, rm * 60));
                    }
                }
            }
        }
    });
    // the Timestamp printers on fractional instants (always UTC), and negative years
    let mut n = 0u64;
    for t in vf::pools::timestamps().into_iter().chain(instants.iter().map(|&ns| Timestamp::from_nanosecond(ns).unwrap())) {
        n += 1;
        let ns = t.as_nanosecond();
        let sec_floor = ns.div_euclid(1_000_000_000) as i64;
        let s = succ_at(sec_floor.div_euclid(86_400));
        let tod = sec_floor.rem_euclid(86_400);
        let case = vf::conv::fmt_ns(ns);
        let got = guard(|| {
            let mut a = String::new();
            let mut b = String::new();
            (
                printer.timestamp_to_string(&t).map_err(|e| e.to_string()),
                printer.print_timestamp(&t, &mut a).map(|_| a).map_err(|e| e.to_string()),
                printer.timestamp_to_rfc9110_string(&t).map_err(|e| e.to_string()),
                printer.print_timestamp_rfc9110(&t, &mut b).map(|_| b).map_err(|e| e.to_string()),
                rfc2822::to_string(&t.to_zoned(TimeZone::UTC)).map_err(|e| e.to_string()),
            )
        });
        match got {
            Err(p) => r.viol(sec, &format!("rfc2822::DateTimePrinter::print_timestamp/{}", panic_sig(&p)), case, p),
            Ok((a, a2, b, b2, c)) => {
                if a != a2 {
                    r.viol(sec, "rfc2822::DateTimePrinter::print_timestamp/differs-from-timestamp_to_string", case.clone(), format!("{:?} {:?}", a, a2));
                }
                if b != b2 {
                    r.viol(sec, "rfc2822::DateTimePrinter::print_timestamp_rfc9110/differs-from-timestamp_to_rfc9110_string", case.clone(), format!("{:?} {:?}", b, b2));
                }
                if s.y < 0 {
                    // documented: a negative year cannot be represented
                    for (what, x) in [("timestamp_to_string", &a), ("timestamp_to_rfc9110_string", &b), ("to_string", &c)] {
                        if let Ok(t) = x {
                            r.viol(sec, &format!("rfc2822::{}/negative-year-printed", what), case.clone(), t.clone());
                        }
                    }
                } else {
                    for (what, x, want) in [("timestamp_to_string", &a, text_2822(&s, s.wd as usize, tod, "-0000", false)), ("timestamp_to_rfc9110_string", &b, text_2822(&s, s.wd as usize, tod, "GMT", true)), ("to_string", &c, text_2822(&s, s.wd as usize, tod, "+0000", false))] {
                        if x.as_deref() != Ok(want.as_str()) {
                            r.viol(sec, &format!("rfc2822::{}/text:fraction-or-boundary", what), case.clone(), format!("jiff {:?} expected {:?}", x, want));
                        }
                    }
                }
            }
        }
    }
    for d in vf::pools::dates() {
        if d.year() >= 0 {
            continue;
        }
        n += 1;
        if let Ok(z) = d.at(12, 0, 0, 0).to_zoned(TimeZone::UTC) {
            match guard(|| (rfc2822::to_string(&z), printer.timestamp_to_rfc9110_string(&z.timestamp()))) {
                Err(p) => r.viol(sec, &format!("rfc2822::to_string/{}", panic_sig(&p)), d.to_string(), p),
                Ok((a, b)) => {
                    if a.is_ok() || b.is_ok() {
                        r.viol(sec, "rfc2822::to_string/negative-year-printed", d.to_string(), format!("{:?} {:?}", a.ok(), b.ok()));
                    }
                }
            }
        }
    }
    let total = offs.len() as u64 + n;
    r.add_states(total);
    r.add_transitions(total * 4);
    r.add_validated(total * 2);
    r.count("rfc2822_offsets.offsets", offs.len() as u64);
    r.outcome("rfc2822_offsets.offset_rounded_to_the_minute", n_round.load(Relaxed));
    r.outcome("rfc2822_offsets.rounded_to_26:00", n_2600.load(Relaxed));
    r.outcome("rfc2822_offsets.fractional_instants", n_frac.load(Relaxed));
    r.require(n_round.load(Relaxed) > 100_000 && n_2600.load(Relaxed) > 0 && n_frac.load(Relaxed) > 100, "offsets with seconds, the 26:00 edge and fractional instants printed");
}

/// The input forms RFC 2822 section 3.3 / 4.3 and jiff's documentation allow.
fn forms(r: &Report) {
    let sec = "rfc2822_forms";
    let parser = DateTimeParser::new();
    let (n_ok, n_err) = (AtomicU64::new(0), AtomicU64::new(0));
    let accept = |text: &str, class: &str, unix: i64, off: i64| {
        match guard(|| (parser.parse_zoned(text), parser.parse_zoned(text.as_bytes()), parser.parse_timestamp(text), text.is_ascii().then(|| rfc2822::parse(text)))) {
            Err(p) => r.viol(sec, &format!("rfc2822::DateTimeParser::parse_zoned/{}", panic_sig(&p)), format!("{:?}", text), p),
            Ok((z, zb, t, zs)) => {
                let flat = |x: &Result<jiff::Zoned, jiff::Error>| x.as_ref().ok().map(|z| (z.timestamp().as_nanosecond(), z.offset().seconds() as i64));
                if flat(&z) != flat(&zb) || flat(&z).map(|x| x.0) != t.as_ref().ok().map(|t| t.as_nanosecond()) || zs.as_ref().map(|x| flat(x)).unwrap_or(flat(&z)) != flat(&z) {
                    r.viol(sec, "rfc2822::parse/entry-points-differ", format!("{:?}", text), format!("{:?} {:?} {:?}", flat(&z), flat(&zb), t.as_ref().ok()));
                }
                match z {
                    Err(e) => r.viol(sec, &format!("rfc2822::DateTimeParser::parse_zoned/rejects-documented-form{}", class), format!("{:?}", text), e.to_string()),
                    Ok(z) => {
                        if flat(&Ok(z.clone())) == Some((unix as i128 * 1_000_000_000, off)) {
                            n_ok.fetch_add(1, Relaxed);
                        } else {
                            r.viol(sec, &format!("rfc2822::DateTimeParser::parse_zoned/value{}", class), format!("{:?}", text), format!("parsed {} expected unix {} offset {}s", z, unix, off));
                        }
                    }
                }
            }
        }
    };
    let refuse = |p: &DateTimeParser, text: &str, class: &str| match guard(|| (p.parse_zoned(text), p.parse_timestamp(text))) {
        Err(pm) => r.viol(sec, &format!("rfc2822::DateTimeParser::parse_zoned/{}", panic_sig(&pm)), format!("{:?}", text), pm),
        Ok((Err(_), Err(_))) => {
            n_err.fetch_add(1, Relaxed);
        }
        Ok((z, t)) => r.viol(sec, &format!("rfc2822::DateTimeParser::parse_zoned/accepts-invalid{}", class), format!("{:?}", text), format!("{:?} {:?}", z.map(|z| z.to_string()).ok(), t.ok())),
    };
    let relaxed = DateTimeParser::new().relaxed_weekday(true);
    // thorough: also every day of a leap year and of the year after it
    let more: Vec<jiff::civil::Date> = if r.quick() { vec![] } else { (0..731).filter_map(|k| vf::conv::date_from_epoch_day(refmodel::cal::days_from_civil(2024, 1, 1) + k)).collect() };
    for d in vf::pools::dates().into_iter().chain((1..=12).map(|m| jiff::civil::Date::new(1995, m, 5 + m).unwrap())).chain(more) {
        if d.year() < 0 {
            continue;
        }
        let s = succ_at(vf::conv::date_epoch_day(d));
        let (wd, mon) = (WD_ABBR[s.wd as usize], MON_ABBR[(s.m - 1) as usize]);
        let tod = 45_296i64;
        let unix = s.epoch_day * 86_400 + tod;
        if unix > vf::zones::TS_MAX_SEC - 3600 {
            continue;
        }
        let y4 = format!("{:04}", s.y);
        // the canonical text and its optional parts
        accept(&format!("{}, {} {} {} 12:34:56 +0000", wd, s.d, mon, y4), "", unix, 0);
        accept(&format!("{}, {:02} {} {} 12:34:56 +0000", wd, s.d, mon, y4), ":two-digit-day", unix, 0);
        accept(&format!("{} {} {} 12:34:56 +0000", s.d, mon, y4), ":no-weekday", unix, 0);
        accept(&format!("{}, {} {} {} 12:34 +0000", wd, s.d, mon, y4), ":no-seconds", unix - 56, 0);
        accept(&format!("{} {} {} 12:34 -0000", s.d, mon, y4), ":no-weekday-no-seconds", unix - 56, 0);
        accept(&format!("{}, {} {} {} 12:34:56 -0000", wd, s.d, mon, y4), ":minus-zero", unix, 0);
        accept(&format!("{}, {} {} {} 12:34:56 +0130", wd, s.d, mon, y4), ":east", unix - 5400, 5400);
        accept(&format!("{}, {} {} {} 12:34:56 -0030", wd, s.d, mon, y4), ":west-under-an-hour", unix + 1800, -1800);
        accept(&format!("{}, {} {} {} 12:34:60 +0000", wd, s.d, mon, y4), ":leap-second-constrained", unix + 3, 0);
        // names without regard to case
        for (w2, m2) in [(wd.to_lowercase(), mon.to_lowercase()), (wd.to_uppercase(), mon.to_uppercase()), (wd.to_string(), mon.to_uppercase())] {
            accept(&format!("{}, {} {} {} 12:34:56 +0000", w2, s.d, m2, y4), ":name-case", unix, 0);
        }
        // folding white space between the tokens (CRLF + WSP unfolds to WSP)
        accept(&format!("  {},  {}  {}\t{}   12:34:56\t+0000  ", wd, s.d, mon, y4), ":extra-whitespace", unix, 0);
        accept(&format!("{},\r\n {} {} {}\r\n 12:34:56\r\n +0000\r\n", wd, s.d, mon, y4), ":folding-whitespace", unix, 0);
        // trailing comments (documented: after the datetime, nesting allowed)
        for c in ["(UTC)", " (UTC)", " (a (nested (comment))) ", " (an escaped \\) parenthesis)", " (an escaped \\( parenthesis)", " ()", " (\u{e9})"] {
            accept(&format!("{}, {} {} {} 12:34:56 +0000{}", wd, s.d, mon, y4, c), ":trailing-comment", unix, 0);
        }
        accept(&format!("{}, {} {} {} 12:34:56 GMT (Greenwich)", wd, s.d, mon, y4), ":trailing-comment", unix, 0);
        for (c, class) in [(" (unclosed", ":unclosed-comment"), (" (a (b)", ":unclosed-comment"), (" (closed) trailing", ":text-after-comment"), (" (a) (b)", ":two-comments"), (" trailing", ":trailing-text"), (" )", ":stray-parenthesis")] {
            refuse(&parser, &format!("{}, {} {} {} 12:34:56 +0000{}", wd, s.d, mon, y4, c), class);
        }
        // obsolete zones: the named ones, every military letter (taken as
        // -0000 as the RFC recommends), unknown alphabetic names
        for (zone, hours) in [("UT", 0i64), ("GMT", 0), ("EST", -5), ("EDT", -4), ("CST", -6), ("CDT", -5), ("MST", -7), ("MDT", -6), ("PST", -8), ("PDT", -7)] {
            for z in [zone.to_string(), zone.to_lowercase()] {
                accept(&format!("{}, {} {} {} 12:34:56 {}", wd, s.d, mon, y4, z), ":obsolete-zone", unix - hours * 3600, hours * 3600);
            }
        }
        if s.y == 2024 || s.y == 1970 {
            for c in (b'A'..=b'Z').chain(b'a'..=b'z') {
                if c.to_ascii_uppercase() == b'J' {
                    continue;
                }
                accept(&format!("{}, {} {} {} 12:34:56 {}", wd, s.d, mon, y4, c as char), ":military-zone", unix, 0);
            }
            for z in ["XYZ", "CEST", "ABCDE", "wet"] {
                accept(&format!("{}, {} {} {} 12:34:56 {}", wd, s.d, mon, y4, z), ":unknown-alphabetic-zone", unix, 0);
            }
        }
        // refusals: the grammar
        for (text, class) in [
            (format!("{} {} {} {} 12:34:56 +0000", wd, s.d, mon, y4), ":weekday-without-comma"),
            (format!("{},{} {} {} 12:34:56 +0000", wd, s.d, mon, y4), ":no-space-after-comma"),
            (format!("Wat, {} {} {} 12:34:56 +0000", s.d, mon, y4), ":not-a-weekday"),
            (format!("{}, {} Jax {} 12:34:56 +0000", wd, s.d, y4), ":not-a-month"),
            (format!("{}, {} {} {} 12:34:56", wd, s.d, mon, y4), ":no-zone"),
            (format!("{}, {} {} {} 12:34:56 ", wd, s.d, mon, y4), ":no-zone"),
            (format!("{}, {} {} {} 12:34:56 0000", wd, s.d, mon, y4), ":unsigned-zone"),
            (format!("{}, {} {} {} 12:34:56 +000", wd, s.d, mon, y4), ":short-zone"),
            (format!("{}, {} {} {} 12:34:56 +2600", wd, s.d, mon, y4), ":offset-hours>25(documented)"),
            (format!("{}, {} {} {} 12:34:56 +9959", wd, s.d, mon, y4), ":offset-hours>25(documented)"),
            (format!("{}, {} {} {} 12:34:56 +0060", wd, s.d, mon, y4), ":offset-minutes>59"),
            (format!("{}, {} {} {} 24:00:00 +0000", wd, s.d, mon, y4), ":hour-24"),
            (format!("{}, {} {} {} 12:60:00 +0000", wd, s.d, mon, y4), ":minute-60"),
            (format!("{}, {} {} {} 12:34:61 +0000", wd, s.d, mon, y4), ":second-61"),
            (format!("{}, {} {} {} 1:34:56 +0000", wd, s.d, mon, y4), ":one-digit-hour"),
            (format!("{}, {} {} {} 12:34:56+0000", wd, s.d, mon, y4), ":no-space-before-zone"),
            (format!("{}, {} {} {}12:34:56 +0000", wd, s.d, mon, y4), ":no-space-after-year"),
            (format!("{}, {}{} {} 12:34:56 +0000", wd, s.d, mon, y4), ":no-space-after-day"),
            (format!("{}, 0 {} {} 12:34:56 +0000", wd, mon, y4), ":day-0"),
            (format!("{}, 32 {} {} 12:34:56 +0000", wd, mon, y4), ":day-32"),
            (format!("{}, {} {} {} +0000", wd, s.d, mon, y4), ":no-time"),
            (format!("{}, {} {} 12:34:56 +0000", wd, s.d, mon), ":no-year"),
            (format!("{}, {} {} 1{} 12:34:56 +0000", wd, s.d, mon, y4), ":five-digit-year"),
            (format!("{}, {} {} {} 12:34:56 J", wd, s.d, mon, y4), ":military-J(not a zone)"),
            (format!("{}, {} {} {} 12:34:56 +00:00", wd, s.d, mon, y4), ":colon-in-zone"),
            (String::new(), ":empty"),
            ("   ".to_string(), ":whitespace-only"),
        ] {
            refuse(&parser, &text, class);
        }
        refuse(&relaxed, &format!("Wat, {} {} {} 12:34:56 +0000", s.d, mon, y4), ":not-a-weekday(relaxed)");
    }
    // calendar validity of day/month/year
    for y in [1900i64, 2000, 2023, 2024] {
        for m in 1..=12i64 {
            for d in 1..=31i64 {
                let text = format!("{} {} {} 00:00:00 +0000", d, MON_ABBR[(m - 1) as usize], y);
                if refmodel::cal::valid_date(y, m, d) {
                    accept(&text, ":valid-date", refmodel::cal::days_from_civil(y, m, d) * 86_400, 0);
                } else {
                    refuse(&parser, &text, ":invalid-date");
                }
            }
        }
    }
    // every second of a day, with and without the seconds field
    for tod in (0..86_400i64).step_by(61) {
        let (h, mi, s) = (tod / 3600, (tod / 60) % 60, tod % 60);
        accept(&format!("9 Jul 2024 {:02}:{:02}:{:02} +0000", h, mi, s), ":time", 19_913 * 86_400 + tod, 0);
        accept(&format!("9 Jul 2024 {:02}:{:02} +0000", h, mi), ":time-no-seconds", 19_913 * 86_400 + tod - s, 0);
    }
    // every offset to the minute the parser documents (hours up to 25)
    for m in 0..(26 * 60i64) {
        for sg in [1i64, -1] {
            let text = format!("9 Jul 2024 12:00:00 {}{:02}{:02}", if sg < 0 { '-' } else { '+' }, m / 60, m % 60);
            accept(&text, ":offset", 19_913 * 86_400 + 43_200 - sg * m * 60, sg * m * 60);
        }
    }
    let total = n_ok.load(Relaxed) + n_err.load(Relaxed);
    r.add_states(total);
    r.add_transitions(total * 3);
    r.add_validated(total);
    r.count("rfc2822_forms.cases", total);
    r.outcome("rfc2822_forms.accepted_with_the_named_value", n_ok.load(Relaxed));
    r.outcome("rfc2822_forms.refused", n_err.load(Relaxed));
    r.require(n_ok.load(Relaxed) > 5_000 && n_err.load(Relaxed) > 500, "RFC 2822 forms accepted and refused");
}
