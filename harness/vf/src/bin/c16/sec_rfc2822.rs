//! RFC 2822: print -> parse identity to the second with offsets to the
//! minute, wrong weekdays rejected, obsolete forms per RFC 2822 section 4.3.

use crate::common::*;
use crate::rfmt::{MON_ABBR, WD_ABBR};
use jiff::fmt::rfc2822::{self, DateTimeParser, DateTimePrinter};
use jiff::tz::{Offset, TimeZone};
use jiff::Timestamp;
use refmodel::cal::Succ;
use std::sync::atomic::{AtomicU64, Ordering::Relaxed};
use vf::{guard, panic_sig, Report};

fn text_2822(s: &Succ, wd: usize, tod: i64, zone: &str, pad_day: bool) -> String {
    let day = if pad_day { format!("{:02}", s.d) } else { format!("{}", s.d) };
    format!("{}, {} {} {:04} {:02}:{:02}:{:02} {}", WD_ABBR[wd], day, MON_ABBR[(s.m - 1) as usize], s.y, tod / 3600, (tod / 60) % 60, tod % 60, zone)
}

fn off_text(off: i64) -> String {
    format!("{}{:02}{:02}", if off < 0 { '-' } else { '+' }, off.abs() / 3600, (off.abs() / 60) % 60)
}

pub fn run(r: &Report) {
    r.section("rfc2822_roundtrip", || {
        let tods: Vec<i64> = if r.quick() { vec![45_296] } else { vec![0, 45_296, 86_399] };
        let offs: Vec<i64> = if r.quick() { vec![0, 19_800, -86_340] } else { vec![-86_340, -18_000, 0, 19_800, 86_340] };
        let wrong: Vec<usize> = if r.quick() { vec![1, 6] } else { vec![1, 2, 3, 4, 5, 6] };
        let (n_rt, n_out, n_wrong) = (AtomicU64::new(0), AtomicU64::new(0), AtomicU64::new(0));
        let printer = DateTimePrinter::new();
        let parser = DateTimeParser::new();
        let n = for_each_day_local(r, "rfc2822_roundtrip", 0, 9999, |s, l| {
            let date = ymd(s);
            for &tod in &tods {
                for &off in &offs {
                    let unix = s.epoch_day * 86_400 + tod - off;
                    if unix < vf::zones::TS_MIN_SEC || unix > vf::zones::TS_MAX_SEC {
                        n_out.fetch_add(1, Relaxed);
                        continue;
                    }
                    n_rt.fetch_add(1, Relaxed);
                    let case = || format!("{}T{:02}:{:02}:{:02}{}", date, tod / 3600, (tod / 60) % 60, tod % 60, off_text(off));
                    let ts = Timestamp::from_second(unix).expect("in range");
                    let zdt = ts.to_zoned(TimeZone::fixed(Offset::from_seconds(off as i32).unwrap()));
                    let want = text_2822(s, s.wd as usize, tod, &off_text(off), false);
                    let text = match guard(|| rfc2822::to_string(&zdt)) {
                        Err(p) => {
                            l.viol(&format!("rfc2822::to_string/{}", panic_sig(&p)), case(), || p.clone());
                            continue;
                        }
                        Ok(Err(e)) => {
                            l.viol("rfc2822::to_string/unexpected-error", case(), || e.to_string());
                            continue;
                        }
                        Ok(Ok(t)) => t,
                    };
                    if text != want {
                        l.viol("rfc2822::to_string/text", case(), || format!("jiff {:?} expected {:?}", text, want));
                    }
                    match guard(|| rfc2822::parse(&text)) {
                        Err(p) => l.viol(&format!("rfc2822::parse/{}", panic_sig(&p)), case(), || format!("text {:?}: {}", text, p)),
                        Ok(Err(e)) => l.viol("rfc2822::parse/rejects-printed-text", case(), || format!("text {:?}: {}", text, e)),
                        Ok(Ok(z)) => {
                            if z.timestamp() != ts || z.offset().seconds() as i64 != off {
                                l.viol("rfc2822::parse/roundtrip-value", case(), || format!("text {:?} parsed {} original {}", text, z, zdt));
                            }
                        }
                    }
                }
            }
            // at 12:34:56 UTC: wrong weekdays, the Timestamp printer, RFC 9110
            let tod = 45_296;
            let unix = s.epoch_day * 86_400 + tod;
            if unix > vf::zones::TS_MAX_SEC {
                return;
            }
            let ts = Timestamp::from_second(unix).expect("in range");
            let case = || format!("{}T12:34:56Z", date);
            for &k in &wrong {
                let w = (s.wd as usize + k) % 7;
                let text = text_2822(s, w, tod, "+0000", false);
                n_wrong.fetch_add(1, Relaxed);
                match guard(|| rfc2822::parse(&text)) {
                    Err(p) => l.viol(&format!("rfc2822::parse/{}", panic_sig(&p)), format!("{:?}", text), || p.clone()),
                    Ok(Err(_)) => {}
                    Ok(Ok(z)) => l.viol("rfc2822::parse/wrong-weekday-accepted", format!("{:?}", text), || format!("accepted as {}", z)),
                }
            }
            for (what, want, got) in [
                ("timestamp_to_string", text_2822(s, s.wd as usize, tod, "-0000", false), guard(|| printer.timestamp_to_string(&ts).map_err(|e| e.to_string()))),
                ("timestamp_to_rfc9110_string", text_2822(s, s.wd as usize, tod, "GMT", true), guard(|| printer.timestamp_to_rfc9110_string(&ts).map_err(|e| e.to_string()))),
            ] {
                match got {
                    Err(p) => l.viol(&format!("rfc2822::DateTimePrinter::{}/{}", what, panic_sig(&p)), case(), || p.clone()),
                    Ok(Err(e)) => l.viol(&format!("rfc2822::DateTimePrinter::{}/unexpected-error", what), case(), || e.clone()),
                    Ok(Ok(text)) => {
                        if text != want {
                            l.viol(&format!("rfc2822::DateTimePrinter::{}/text", what), case(), || format!("jiff {:?} expected {:?}", text, want));
                        }
                        match guard(|| parser.parse_timestamp(&text)) {
                            Err(p) => l.viol(&format!("rfc2822::DateTimeParser::parse_timestamp/{}", panic_sig(&p)), case(), || format!("text {:?}: {}", text, p)),
                            Ok(Err(e)) => l.viol(&format!("rfc2822::DateTimeParser::parse_timestamp/rejects-{}-text", what), case(), || format!("text {:?}: {}", text, e)),
                            Ok(Ok(t)) => {
                                if t != ts {
                                    l.viol(&format!("rfc2822::DateTimeParser::parse_timestamp/roundtrip-value({})", what), case(), || format!("text {:?} parsed {} original {}", text, t, ts));
                                }
                            }
                        }
                    }
                }
            }
        });
        r.add_states(n_rt.load(Relaxed));
        r.add_transitions(n_rt.load(Relaxed) * 2 + n_wrong.load(Relaxed) + n * 4);
        r.add_validated(n_rt.load(Relaxed) * 2 + n_wrong.load(Relaxed) + n * 4);
        r.count("rfc2822_roundtrip.days", n);
        r.count("rfc2822_roundtrip.instants", n_rt.load(Relaxed));
        r.outcome("rfc2822_roundtrip.outside_timestamp_range_skipped", n_out.load(Relaxed));
        r.outcome("rfc2822_roundtrip.wrong_weekday_texts", n_wrong.load(Relaxed));
        r.require(n == 3_652_425 && n_rt.load(Relaxed) > n, "every day of years 0..=9999 printed and parsed");
    });

    r.section("rfc2822_obsolete", || {
        let parser = DateTimeParser::new();
        let mut n = 0u64;
        // RFC 2822 section 4.3 zone table; unknown alphabetic zones and the
        // military letters are to be taken as -0000
        let zones: [(&str, i64); 20] = [
            ("UT", 0),
            ("GMT", 0),
            ("EST", -5),
            ("EDT", -4),
            ("CST", -6),
            ("CDT", -5),
            ("MST", -7),
            ("MDT", -6),
            ("PST", -8),
            ("PDT", -7),
            ("Z", 0),
            ("A", 0),
            ("M", 0),
            ("N", 0),
            ("Y", 0),
            ("gmt", 0),
            ("est", -5),
            ("Pdt", -7),
            ("XYZ", 0),
            ("CEST", 0),
        ];
        for d in vf::pools::dates() {
            if d.year() < 0 {
                // documented: negative years cannot be printed
                n += 1;
                let ts = d.at(12, 0, 0, 0).to_zoned(TimeZone::UTC).map(|z| z.timestamp());
                if let Ok(ts) = ts {
                    match guard(|| DateTimePrinter::new().timestamp_to_string(&ts)) {
                        Err(p) => r.viol("rfc2822_obsolete", &format!("rfc2822::DateTimePrinter::timestamp_to_string/{}", panic_sig(&p)), format!("{}", d), p),
                        Ok(Ok(t)) => r.viol("rfc2822_obsolete", "rfc2822::DateTimePrinter::timestamp_to_string/negative-year-printed", format!("{}", d), t),
                        Ok(Err(_)) => {}
                    }
                }
                continue;
            }
            let s = succ_at(vf::conv::date_epoch_day(d));
            for (zone, hours) in zones {
                n += 1;
                let text = text_2822(&s, s.wd as usize, 45_296, zone, false);
                let want = s.epoch_day * 86_400 + 45_296 - hours * 3600;
                if want > vf::zones::TS_MAX_SEC || want < vf::zones::TS_MIN_SEC {
                    continue;
                }
                match guard(|| parser.parse_zoned(&text)) {
                    Err(p) => r.viol("rfc2822_obsolete", &format!("rfc2822::DateTimeParser::parse_zoned/{}", panic_sig(&p)), format!("{:?}", text), p),
                    Ok(Err(e)) => r.viol("rfc2822_obsolete", "rfc2822::DateTimeParser::parse_zoned/rejects-obsolete-zone", format!("{:?}", text), e.to_string()),
                    Ok(Ok(z)) => {
                        if z.timestamp().as_second() != want || z.offset().seconds() as i64 != hours * 3600 {
                            r.viol("rfc2822_obsolete", "rfc2822::DateTimeParser::parse_zoned/obsolete-zone-value", format!("{:?}", text), format!("parsed {} expected unix {} offset {}h", z, want, hours));
                        }
                    }
                }
            }
            // relaxed weekday accepts a wrong (but valid) weekday name
            n += 1;
            let wrong = text_2822(&s, (s.wd as usize + 3) % 7, 45_296, "+0000", false);
            let want = s.epoch_day * 86_400 + 45_296;
            if want <= vf::zones::TS_MAX_SEC {
                match guard(|| DateTimeParser::new().relaxed_weekday(true).parse_timestamp(&wrong)) {
                    Err(p) => r.viol("rfc2822_obsolete", &format!("rfc2822::DateTimeParser::parse_timestamp/{}", panic_sig(&p)), format!("{:?}", wrong), p),
                    Ok(Err(e)) => r.viol("rfc2822_obsolete", "rfc2822::DateTimeParser::parse_timestamp/relaxed_weekday-rejects", format!("{:?}", wrong), e.to_string()),
                    Ok(Ok(t)) => {
                        if t.as_second() != want {
                            r.viol("rfc2822_obsolete", "rfc2822::DateTimeParser::parse_timestamp/relaxed_weekday-value", format!("{:?}", wrong), format!("parsed {}", t));
                        }
                    }
                }
            }
        }
        // obsolete years (section 4.3): 2 digits 00..=49 -> 20xx, 50..=99 -> 19xx, 3 digits -> +1900
        for yy in 0..1000i64 {
            for digits in [2usize, 3] {
                if digits == 2 && yy > 99 {
                    continue;
                }
                n += 1;
                let year = if digits == 2 {
                    if yy <= 49 {
                        2000 + yy
                    } else {
                        1900 + yy
                    }
                } else {
                    1900 + yy
                };
                let text = format!("1 Jan {:0w$} 00:00:00 +0000", yy, w = digits);
                let want = refmodel::cal::days_from_civil(year, 1, 1) * 86_400;
                match guard(|| parser.parse_timestamp(&text)) {
                    Err(p) => r.viol("rfc2822_obsolete", &format!("rfc2822::DateTimeParser::parse_timestamp/{}", panic_sig(&p)), format!("{:?}", text), p),
                    Ok(Err(e)) => r.viol("rfc2822_obsolete", "rfc2822::DateTimeParser::parse_timestamp/rejects-obsolete-year", format!("{:?}", text), e.to_string()),
                    Ok(Ok(t)) => {
                        if t.as_second() != want {
                            r.viol("rfc2822_obsolete", "rfc2822::DateTimeParser::parse_timestamp/obsolete-year-value", format!("{:?}", text), format!("parsed {} expected year {}", t, year));
                        }
                    }
                }
            }
        }
        r.add_states(n);
        r.add_transitions(n);
        r.add_validated(n);
        r.count("rfc2822_obsolete.cases", n);
    });
}
