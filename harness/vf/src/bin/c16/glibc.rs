//! glibc `strftime` through FFI (TZ=UTC), used only to validate R-fmt inside
//! the comparison domains where C's and jiff's documented conventions
//! coincide. `gmtime_r` fills the `tm`, so glibc also supplies its own
//! weekday / day-of-year (a third calendar implementation).

use std::ffi::CString;

pub fn init_utc() {
    std::env::set_var("TZ", "UTC");
    extern "C" {
        fn tzset();
    }
    unsafe { tzset() };
}

pub fn gmtime(unix: i64) -> libc::tm {
    let mut tm: libc::tm = unsafe { std::mem::zeroed() };
    let t: libc::time_t = unix as libc::time_t;
    let p = unsafe { libc::gmtime_r(&t, &mut tm) };
    assert!(!p.is_null(), "gmtime_r failed for {}", unix);
    tm
}

/// A `tm` carrying only a time of day (on 2024-01-01, a Monday).
pub fn tm_time(h: i64, mi: i64, s: i64) -> libc::tm {
    let mut tm: libc::tm = unsafe { std::mem::zeroed() };
    tm.tm_year = 124;
    tm.tm_mon = 0;
    tm.tm_mday = 1;
    tm.tm_wday = 1;
    tm.tm_yday = 0;
    tm.tm_hour = h as i32;
    tm.tm_min = mi as i32;
    tm.tm_sec = s as i32;
    tm
}

pub struct CFmt(pub CString);

impl CFmt {
    pub fn new(fmt: &str) -> CFmt {
        CFmt(CString::new(fmt).unwrap())
    }
    /// Format into `buf`; returns the text.
    pub fn format<'b>(&self, tm: &libc::tm, buf: &'b mut [u8; 512]) -> &'b str {
        let n = unsafe { libc::strftime(buf.as_mut_ptr() as *mut libc::c_char, buf.len(), self.0.as_ptr(), tm) };
        std::str::from_utf8(&buf[..n]).expect("glibc output is ASCII")
    }
}
