//! `%s %z %:z %Z %Q %:Q` on zoned values and instants; round trips of
//! instant-valued formats.
//!
//! The UTC offset of the value being formatted is read through the public
//! accessor `Zoned::offset()` (whether that offset is the right one for the
//! zone is C03's business, not this property's); everything else (civil
//! fields, Unix seconds, the shape of the offset text) comes from R-cal /
//! R-fmt.

use crate::common::*;
use crate::glibc;
use crate::rfmt::V;
use jiff::fmt::strtime;
use jiff::tz::{Offset, TimeZone};
use jiff::{Timestamp, Zoned};
use rayon::prelude::*;
use refmodel::cal;
use std::sync::atomic::{AtomicU64, Ordering::Relaxed};
use vf::{guard, panic_sig, Report};

const NS: i128 = 1_000_000_000;

struct Probe {
    v: V,
    ts: Timestamp,
    zdt: Zoned,
    /// input classes of defects owned by other properties / known findings
    neg_fraction: bool,
    /// C02's F13 and its mirror image: the civil day and the instant lie on
    /// different sides of the epoch and there is a fraction
    f13: &'static str,
    unique_civil: bool,
    /// UTC offsets of every instant of the zone that reads this civil time
    civil_offsets: Vec<i64>,
}

/// Build the model view of `ns` in `tz`. `None` when jiff's civil datetime
/// disagrees with R-cal for jiff's own offset (C02's domain, not ours).
fn probe(ns: i128, tz: &TimeZone, name: Option<&str>, model: Option<&refmodel::tz::Zone>, skipped: &AtomicU64) -> Option<Probe> {
    let ts = Timestamp::from_nanosecond(ns).ok()?;
    let zdt = ts.to_zoned(tz.clone());
    let off = zdt.offset().seconds() as i64;
    let sec = ns.div_euclid(NS) as i64;
    let frac = ns.rem_euclid(NS) as i64;
    let civ = sec + off;
    let (day, sod) = (civ.div_euclid(86_400), civ.rem_euclid(86_400));
    if day < cal::min_day() || day > cal::max_day() {
        return None;
    }
    let (y, m, d) = cal::civil_from_days(day);
    if y < 0 {
        // no padding rule is documented for negative numbers; negative years
        // are covered by the civil round trips only
        return None;
    }
    let mut v = V::date(y, m, d).with_time(sod / 3600, (sod / 60) % 60, sod % 60, frac);
    let dt = zdt.datetime();
    if (dt.year() as i64, dt.month() as i64, dt.day() as i64, dt.hour() as i64, dt.minute() as i64, dt.second() as i64, dt.subsec_nanosecond() as i64) != (y, m, d, v.h, v.mi, v.s, frac) {
        skipped.fetch_add(1, Relaxed);
        return None;
    }
    v.off = Some(off);
    v.unix = Some(sec);
    v.iana = name.map(|s| s.to_string());
    let mut unique = true;
    let mut civil_offsets = vec![off];
    if let Some(z) = model {
        let info = z.info_at(sec);
        if info.utoff as i64 == off {
            v.abbr = Some(info.abbrev.clone());
        }
        let pre = z.preimages(civ);
        unique = pre.len() == 1;
        civil_offsets.extend(pre.iter().map(|&(t, _)| civ - t));
    }
    Some(Probe { v, ts, zdt, neg_fraction: ns < 0 && frac != 0, f13: if frac != 0 && day < 0 && ns >= 0 {
            ":civil<1970,fraction,instant>=epoch(F13-class)"
        } else if frac != 0 && day >= 0 && ns < 0 {
            ":civil>=1970,fraction,instant<epoch(F13-mirror-class)"
        } else {
            ""
        },
        unique_civil: unique,
        civil_offsets,
    })
}

fn fmt_value(r: &Report, section: &str, f: &Fmt, p: &Probe, case: &str, class: &str) -> Option<String> {
    let mut want = String::new();
    let model = f.model(&p.v, &mut want);
    match guard(|| strtime::format(&f.text, &p.zdt)) {
        Err(pm) => {
            r.viol(section, &format!("strftime[{}]/{}", f.text, panic_sig(&pm)), format!("{} {}", f.text, case), pm);
            None
        }
        Ok(Err(e)) => {
            if model.is_ok() {
                r.viol(section, &format!("strftime[{}]/unexpected-error", f.text), format!("{} {}", f.text, case), e.to_string());
            }
            None
        }
        Ok(Ok(g)) => {
            if model.is_ok() && g != want {
                blame(r, section, "strftime", class, &f.text, case, &g, &want, "jiff vs R-fmt");
            }
            Some(g)
        }
    }
}

/// Unix seconds together with an offset: the text names the instant and the
/// offset without any contradiction, so both must come back.
fn unix_offset_roundtrip(r: &Report, section: &str, p: &Probe, fs: &Fmts, case: &str) {
    for (f, s_first) in &fs.rt_unix {
        let Some(text) = fmt_value(r, section, f, p, case, if p.neg_fraction { ":negative-timestamp-with-fraction" } else { "" }) else { continue };
        let off = p.v.off.unwrap_or(0);
        let cls = if off == 0 {
            String::new()
        } else if *s_first {
            ":%s-before-offset,offset!=0".to_string()
        } else {
            ":%s-after-offset,offset!=0".to_string()
        };
        match guard(|| (Zoned::strptime(&f.text, &text), Timestamp::strptime(&f.text, &text))) {
            Err(pm) => r.viol(section, &format!("Zoned::strptime[{}]/{}", f.text, panic_sig(&pm)), format!("{} {}", f.text, case), format!("text {:?}: {}", text, pm)),
            Ok((z, t)) => {
                match z {
                    Err(e) => r.viol(section, &format!("Zoned::strptime[{}]/rejects-formatted-text{}", f.text, cls), format!("{} {}", f.text, case), format!("text {:?}: {}", text, e)),
                    Ok(z) => {
                        if z.timestamp().as_nanosecond() != p.ts.as_nanosecond() {
                            r.viol(section, &format!("Zoned::strptime[{}]/roundtrip-instant{}", f.text, cls), format!("{} {}", f.text, case), format!("text {:?} parsed {} ({:?}) original {} ({:?})", text, z, z.timestamp(), p.zdt, p.ts));
                        } else if z.offset() != p.zdt.offset() {
                            r.viol(section, &format!("Zoned::strptime[{}]/roundtrip-offset{}", f.text, cls), format!("{} {}", f.text, case), format!("text {:?} parsed {} original {}", text, z, p.zdt));
                        }
                    }
                }
                match t {
                    Err(e) => r.viol(section, &format!("Timestamp::strptime[{}]/rejects-formatted-text{}", f.text, cls), format!("{} {}", f.text, case), format!("text {:?}: {}", text, e)),
                    Ok(t) => {
                        if t.as_nanosecond() != p.ts.as_nanosecond() {
                            r.viol(section, &format!("Timestamp::strptime[{}]/roundtrip-instant{}", f.text, cls), format!("{} {}", f.text, case), format!("text {:?} parsed {:?} original {:?}", text, t, p.ts));
                        }
                    }
                }
            }
        }
    }
}

fn check_instant(r: &Report, section: &str, p: &Probe, fs: &Fmts, name: &str, with_names: bool) {
    let case = format!("{}[{}]", vf::conv::fmt_ns(p.ts.as_nanosecond()), name);
    // civil fields, offset shapes, identifier, and (separately, because of its
    // own input class) Unix seconds
    fmt_value(r, section, &fs.fields, p, &case, "");
    fmt_value(r, section, &fs.unix, p, &case, if p.neg_fraction { ":negative-timestamp-with-fraction" } else { p.f13 });
    if p.v.abbr.is_some() {
        fmt_value(r, section, &fs.abbr, p, &case, "");
    }
    let class = p.f13;
    // BrokenDownTime::from(&Zoned): every getter against the model
    match guard(|| {
        let tm = jiff::fmt::strtime::BrokenDownTime::from(&p.zdt);
        (
            (tm.year().map(|x| x as i64), tm.month().map(|x| x as i64), tm.day().map(|x| x as i64)),
            (tm.hour().map(|x| x as i64), tm.minute().map(|x| x as i64), tm.second().map(|x| x as i64), tm.subsec_nanosecond().map(|x| x as i64)),
            tm.offset().map(|o| o.seconds() as i64),
            tm.iana_time_zone().map(|s| s.to_string()),
            tm.meridiem().map(|m| m == jiff::fmt::strtime::Meridiem::PM),
            (tm.weekday().is_none(), tm.day_of_year().is_none(), tm.iso_week_year().is_none(), tm.iso_week().is_none(), tm.sunday_based_week().is_none(), tm.monday_based_week().is_none()),
            (tm.to_datetime().ok(), tm.to_timestamp().ok(), tm.to_zoned().ok().map(|z| (z.timestamp(), z.offset()))),
        )
    }) {
        Err(pm) => r.viol(section, &format!("BrokenDownTime::from(&Zoned)/{}", panic_sig(&pm)), case.clone(), pm),
        Ok(g) => {
            let want = (
                (Some(p.v.y), Some(p.v.m), Some(p.v.d)),
                (Some(p.v.h), Some(p.v.mi), Some(p.v.s), Some(p.v.ns)),
                p.v.off,
                p.v.iana.clone(),
                Some(p.v.h >= 12),
                (true, true, true, true, true, true),
                (Some(p.zdt.datetime()), Some(p.ts), Some((p.ts, p.zdt.offset()))),
            );
            if g != want {
                r.viol(section, &format!("BrokenDownTime::from(&Zoned)/getters{}", class), case.clone(), format!("jiff {:?} model {:?}", g, want));
            }
        }
    }
    unix_offset_roundtrip(r, section, p, fs, &case);
    // an offset that contradicts the zone: no instant of the zone reads this
    // civil time at that offset ("OffsetConflict::Reject is used to detect any
    // inconsistency between the offset and the time zone")
    if with_names {
        let off = p.v.off.unwrap_or(0);
        for delta in [3600i64, -3600, 60, -1] {
            let wrong = off + delta;
            if wrong.abs() > 93_599 || p.civil_offsets.contains(&wrong) {
                continue;
            }
            let (sg, a) = (if wrong < 0 { '-' } else { '+' }, wrong.abs());
            let text = format!("{:04}-{:02}-{:02} {:02}:{:02}:{:02}.{:09} {}{:02}:{:02}:{:02} {}", p.v.y, p.v.m, p.v.d, p.v.h, p.v.mi, p.v.s, p.v.ns, sg, a / 3600, (a / 60) % 60, a % 60, name);
            let fmt = "%Y-%m-%d %H:%M:%S.%f %:z %Q";
            match guard(|| Zoned::strptime(fmt, &text)) {
                Err(pm) => r.viol(section, &format!("Zoned::strptime[{}]/{}", fmt, panic_sig(&pm)), format!("{} {:?}", fmt, text), pm),
                Ok(Err(_)) => {
                    fs.n_conflict_rejected.fetch_add(1, Relaxed);
                }
                Ok(Ok(z)) => r.viol(section, &format!("Zoned::strptime[{}]/contradiction-accepted:offset-vs-zone", fmt), format!("{} {:?}", fmt, text), format!("accepted as {}", z)),
            }
        }
    }
    // print -> parse with the same format
    for f in &fs.rt_offset {
        let Some(text) = fmt_value(r, section, f, p, &case, "") else { continue };
        match guard(|| (Zoned::strptime(&f.text, &text), Timestamp::strptime(&f.text, &text))) {
            Err(pm) => r.viol(section, &format!("Zoned::strptime[{}]/{}", f.text, panic_sig(&pm)), format!("{} {}", f.text, case), format!("text {:?}: {}", text, pm)),
            Ok((z, t)) => {
                match z {
                    Err(e) => r.viol(section, &format!("Zoned::strptime[{}]/rejects-formatted-text", f.text), format!("{} {}", f.text, case), format!("text {:?}: {}", text, e)),
                    Ok(z) => {
                        if z.timestamp() != p.ts || z.timestamp().as_nanosecond() != p.ts.as_nanosecond() || z.offset() != p.zdt.offset() {
                            r.viol(section, &rt_sig("Zoned", &f.text, class), format!("{} {}", f.text, case), format!("text {:?} parsed {} ({:?}) original {} ({:?})", text, z, z.timestamp(), p.zdt, p.ts));
                        }
                    }
                }
                match t {
                    Err(e) => r.viol(section, &format!("Timestamp::strptime[{}]/rejects-formatted-text", f.text), format!("{} {}", f.text, case), format!("text {:?}: {}", text, e)),
                    Ok(t) => {
                        if t != p.ts || t.as_nanosecond() != p.ts.as_nanosecond() {
                            r.viol(section, &rt_sig("Timestamp", &f.text, class), format!("{} {}", f.text, case), format!("text {:?} parsed {:?} original {:?}", text, t, p.ts));
                        }
                    }
                }
            }
        }
    }
    if with_names && !p.unique_civil && p.civil_offsets.len() >= 2 {
        // documented: with an identifier and no offset an ambiguous civil time
        // resolves with the compatible strategy; in a fold that is the earlier
        // instant, i.e. the one with the largest offset
        let f = &fs.rt_named.last().unwrap().0;
        if let Some(text) = fmt_value(r, section, f, p, &case, "") {
            let civ = p.v.unix.unwrap() + p.v.off.unwrap();
            let want = (civ - p.civil_offsets.iter().max().unwrap()) as i128 * NS + p.v.ns as i128;
            fs.n_fold.fetch_add(1, Relaxed);
            match guard(|| Zoned::strptime(&f.text, &text)) {
                Err(pm) => r.viol(section, &format!("Zoned::strptime[{}]/{}", f.text, panic_sig(&pm)), format!("{} {}", f.text, case), pm),
                Ok(Err(e)) => r.viol(section, &format!("Zoned::strptime[{}]/rejects-formatted-text:fold", f.text), format!("{} {}", f.text, case), format!("text {:?}: {}", text, e)),
                Ok(Ok(z)) => {
                    if z.timestamp().as_nanosecond() != want {
                        r.viol(section, &format!("Zoned::strptime[{}]/fold-not-compatible", f.text), format!("{} {}", f.text, case), format!("text {:?} parsed {} expected the earlier instant {}", text, z, vf::conv::fmt_ns(want)));
                    }
                }
            }
        }
    }
    if with_names {
        for (f, needs_unique) in &fs.rt_named {
            if *needs_unique && !p.unique_civil {
                continue;
            }
            let Some(text) = fmt_value(r, section, f, p, &case, "") else { continue };
            match guard(|| Zoned::strptime(&f.text, &text)) {
                Err(pm) => r.viol(section, &format!("Zoned::strptime[{}]/{}", f.text, panic_sig(&pm)), format!("{} {}", f.text, case), format!("text {:?}: {}", text, pm)),
                Ok(Err(e)) => r.viol(section, &format!("Zoned::strptime[{}]/rejects-formatted-text", f.text), format!("{} {}", f.text, case), format!("text {:?}: {}", text, e)),
                Ok(Ok(z)) => {
                    if z.timestamp() != p.ts || z.timestamp().as_nanosecond() != p.ts.as_nanosecond() || z.offset() != p.zdt.offset() || z.time_zone().iana_name() != Some(name) {
                        r.viol(section, &rt_sig("Zoned", &f.text, class), format!("{} {}", f.text, case), format!("text {:?} parsed {} original {}", text, z, p.zdt));
                    }
                }
            }
        }
    }
    // %s alone: to the second (C: floor)
    if let Some(text) = guard(|| strtime::format("%s", p.ts)).ok().and_then(|x| x.ok()) {
        let want = p.ts.as_nanosecond().div_euclid(NS);
        let class = if p.neg_fraction { ":negative-timestamp-with-fraction" } else { "" };
        match guard(|| Timestamp::strptime("%s", &text)) {
            Err(pm) => r.viol(section, &format!("Timestamp::strptime[%s]/{}", panic_sig(&pm)), format!("%s {}", case), pm),
            Ok(Err(e)) => r.viol(section, "Timestamp::strptime[%s]/rejects-formatted-text", format!("%s {}", case), format!("text {:?}: {}", text, e)),
            Ok(Ok(t)) => {
                if t.as_nanosecond() != want as i128 * NS {
                    r.viol(section, &format!("Timestamp::strptime[%s]/roundtrip-value{}", class), format!("%s {}", case), format!("text {:?} parsed {:?}; the instant's second (floor) is {}", text, t, want));
                }
            }
        }
    }
}

/// Signature of a failed instant round trip. When the input lies in the class
/// of a defect owned by another property (C02's F13), the format is left out
/// so that the foreign defect maps to one signature per entry point.
fn rt_sig(ty: &str, fmt: &str, class: &str) -> String {
    if class.is_empty() {
        format!("{}::strptime[{}]/roundtrip-value", ty, fmt)
    } else {
        format!("{}::strptime/roundtrip-value{}", ty, class)
    }
}

struct Fmts {
    fields: Fmt,
    unix: Fmt,
    abbr: Fmt,
    rt_offset: Vec<Fmt>,
    rt_named: Vec<(Fmt, bool)>,
    /// (format, %s comes before the offset)
    rt_unix: Vec<(Fmt, bool)>,
    n_conflict_rejected: AtomicU64,
    n_fold: AtomicU64,
}

pub fn run(r: &Report) {
    let fs = Fmts {
        fields: Fmt::new("%Y-%m-%dT%H:%M:%S%.f|%z|%:z|%Q|%:Q|%A|%j|%I %p"),
        unix: Fmt::new("%s"),
        abbr: Fmt::new("%Z|%^Z|%#Z"),
        rt_offset: vec![Fmt::new("%Y-%m-%dT%H:%M:%S%.f%z"), Fmt::new("%a, %d %b %Y %H:%M:%S.%f %:z")],
        rt_named: vec![(Fmt::new("%Y-%m-%d %H:%M:%S%.f %:z %Q"), false), (Fmt::new("%F %T%.f %z[%:Q]"), false), (Fmt::new("%F %T%.f %:Q"), true)],
        rt_unix: vec![(Fmt::new("%s%.f %z"), true), (Fmt::new("%:z %s%.f"), false)],
        n_conflict_rejected: AtomicU64::new(0),
        n_fold: AtomicU64::new(0),
    };

    r.section("zoned_specifiers", || {
        let skipped = AtomicU64::new(0);
        let (n_inst, n_abbr, n_negfrac) = (AtomicU64::new(0), AtomicU64::new(0), AtomicU64::new(0));
        let quick = r.quick();
        let zones = vf::zones::rep();
        zones.par_iter().for_each(|z| {
            let pair = match vf::zones::load_pair(z) {
                Ok(p) => p,
                Err(e) => {
                    r.note(format!("zone {} not loaded: {}", z.name, e));
                    return;
                }
            };
            // the zone as the database serves it, so that %Q parses back to
            // the same rules
            let tz = match guard(|| jiff::tz::db().get(&z.name)) {
                Ok(Ok(t)) => t,
                _ => pair.jiff.clone(),
            };
            let idx = vf::zones::probe_pieces(&pair.model, &|y| if quick { y <= 2040 || y >= 9990 } else { true });
            let mut instants: Vec<i128> = vec![];
            for k in idx {
                instants.extend(vf::zones::instants_around(pair.model.pieces[k].start));
            }
            for t in vf::pools::timestamps() {
                instants.push(t.as_nanosecond());
            }
            instants.sort();
            instants.dedup();
            instants.par_iter().for_each(|&ns| {
                if let Some(p) = probe(ns, &tz, Some(&z.name), Some(&pair.model), &skipped) {
                    n_inst.fetch_add(1, Relaxed);
                    n_abbr.fetch_add(p.v.abbr.is_some() as u64, Relaxed);
                    n_negfrac.fetch_add(p.neg_fraction as u64, Relaxed);
                    check_instant(r, "zoned_specifiers", &p, &fs, &z.name, true);
                }
            });
        });
        let n = n_inst.load(Relaxed);
        r.add_states(n);
        r.add_transitions(n * 20);
        r.add_validated(n * 14);
        r.count("zoned_specifiers.instants", n);
        r.outcome("zoned_specifiers.abbreviation_compared", n_abbr.load(Relaxed));
        r.outcome("zoned_specifiers.negative_fractional_instants", n_negfrac.load(Relaxed));
        r.outcome("zoned_specifiers.skipped_civil_differs_from_R-cal(C02 domain)", skipped.load(Relaxed));
        r.outcome("zoned_specifiers.fold_readings_parsed_by_identifier", fs.n_fold.load(Relaxed));
        r.require(fs.n_fold.load(Relaxed) > 100, "civil times inside folds parsed through %Q alone");
        r.outcome("zoned_specifiers.offset_contradicting_zone_rejected", fs.n_conflict_rejected.load(Relaxed));
        r.require(n > 1000 && n_abbr.load(Relaxed) > 0, "zone probes formatted, abbreviations compared");
        r.require(fs.n_conflict_rejected.load(Relaxed) > n, "offsets contradicting the zone were refused");
    });

    r.section("fixed_offsets", || {
        // every fixed offset jiff supports
        let offs: Vec<i64> = (-93_599..=93_599).collect();
        let f_shapes = Fmt::new("%z|%:z|%Q|%:Q");
        let rts = [Fmt::new("%Y-%m-%dT%H:%M:%S%z"), Fmt::new("%Y-%m-%d %H:%M:%S %:z"), Fmt::new("%F %T %Q"), Fmt::new("%F %T %:Q")];
        let skipped = AtomicU64::new(0);
        let with_secs = AtomicU64::new(0);
        offs.par_iter().for_each(|&o| {
            let off = Offset::from_seconds(o as i32).expect("offset in range");
            let tz = TimeZone::fixed(off);
            // the identifier of the value is read through the accessor
            // (the zero offset is the UTC time zone and carries a name)
            let name = tz.iana_name().map(|s| s.to_string());
            let Some(p) = probe(1_700_000_000i128 * NS, &tz, name.as_deref(), None, &skipped) else { return };
            if o % 60 != 0 {
                with_secs.fetch_add(1, Relaxed);
            }
            let case = format!("offset {}s", o);
            fmt_value(r, "fixed_offsets", &f_shapes, &p, &case, "");
            unix_offset_roundtrip(r, "fixed_offsets", &p, &fs, &case);
            for f in &rts {
                let Some(text) = fmt_value(r, "fixed_offsets", f, &p, &case, "") else { continue };
                match guard(|| Zoned::strptime(&f.text, &text)) {
                    Err(pm) => r.viol("fixed_offsets", &format!("Zoned::strptime[{}]/{}", f.text, panic_sig(&pm)), format!("{} {}", f.text, case), pm),
                    Ok(Err(e)) => r.viol("fixed_offsets", &format!("Zoned::strptime[{}]/rejects-formatted-text", f.text), format!("{} {}", f.text, case), format!("text {:?}: {}", text, e)),
                    Ok(Ok(z)) => {
                        if z.timestamp() != p.ts || z.offset().seconds() as i64 != o {
                            r.viol("fixed_offsets", &format!("Zoned::strptime[{}]/roundtrip-value", f.text), format!("{} {}", f.text, case), format!("text {:?} parsed {} original {}", text, z, p.zdt));
                        }
                    }
                }
            }
        });
        let n = offs.len() as u64;
        r.add_states(n);
        r.add_transitions(n * 12);
        r.add_validated(n * 8);
        r.count("fixed_offsets.offsets", n);
        r.outcome("fixed_offsets.with_seconds_component", with_secs.load(Relaxed));
    });

    r.section("unix_seconds", || {
        // %s on instants: C defines it as the time_t of the broken-down time,
        // i.e. the floor second; validated against glibc (tm from gmtime_r of
        // the floor second, formatted with %s under TZ=UTC).
        let cf = glibc::CFmt::new("%s|%Y-%m-%dT%H:%M:%S");
        let skipped = AtomicU64::new(0);
        let mut n = 0u64;
        let mut extra: Vec<i128> = vf::pools::timestamps().iter().map(|t| t.as_nanosecond()).collect();
        for s in [-1i128, -2, -60, -86_400, -86_401, 1, 59, 86_399, 253_402_207_200, -377_705_023_201, -62_135_596_800, -62_167_219_200] {
            for f in [0i128, 1, 500_000_000, 999_999_999] {
                extra.push(s * NS + f);
            }
        }
        extra.sort();
        extra.dedup();
        for ns in extra {
            let Some(p) = probe(ns, &TimeZone::UTC, None, None, &skipped) else { continue };
            n += 1;
            let case = format!("{}[UTC]", vf::conv::fmt_ns(ns));
            let class = if p.neg_fraction { ":negative-timestamp-with-fraction" } else { "" };
            // glibc side
            if p.v.y >= 1000 {
                let tm = glibc::gmtime(p.v.unix.unwrap());
                let mut buf = [0u8; 512];
                let c = cf.format(&tm, &mut buf);
                let want = format!("{}|{:04}-{:02}-{:02}T{:02}:{:02}:{:02}", p.v.unix.unwrap(), p.v.y, p.v.m, p.v.d, p.v.h, p.v.mi, p.v.s);
                if c != want {
                    r.viol("unix_seconds", "model-vs-glibc[%s]", case.clone(), format!("R-fmt {:?} glibc {:?}", want, c));
                }
            }
            // Timestamp entry point (offset UTC)
            let f = Fmt::new("%s|%Y-%m-%dT%H:%M:%S%.f%z");
            let mut want = String::new();
            f.model(&p.v, &mut want).unwrap();
            match guard(|| strtime::format(&f.text, p.ts)) {
                Err(pm) => r.viol("unix_seconds", &format!("strftime[%s]/{}", panic_sig(&pm)), case.clone(), pm),
                Ok(Err(e)) => r.viol("unix_seconds", "strftime[%s]/unexpected-error", case.clone(), e.to_string()),
                Ok(Ok(g)) => {
                    if g != want {
                        blame(r, "unix_seconds", "strftime", class, &f.text, &case, &g, &want, "jiff vs R-fmt");
                    }
                }
            }
            // Display entry points agree with strtime::format
            for text in ["%s", "%Y-%m-%dT%H:%M:%S%.f%z"] {
                let a = guard(|| p.ts.strftime(text).to_string());
                let b = guard(|| strtime::format(text, p.ts).map_err(|e| e.to_string()));
                if let (Ok(a), Ok(Ok(b))) = (&a, &b) {
                    if a != b {
                        r.viol("unix_seconds", &format!("Timestamp::strftime[{}]/differs-from-strtime::format", text), case.clone(), format!("{:?} vs {:?}", a, b));
                    }
                }
            }
            // contradiction: %s naming another instant than the civil fields
            let civil = format!("{:04}-{:02}-{:02}T{:02}:{:02}:{:02}+0000", p.v.y, p.v.m, p.v.d, p.v.h, p.v.mi, p.v.s);
            if p.v.y >= 0 && p.v.unix.unwrap() < 253_402_207_000 {
                for (fmt, text) in [("%Y-%m-%dT%H:%M:%S%z %s", format!("{} {}", civil, p.v.unix.unwrap() + 1)), ("%s %Y-%m-%dT%H:%M:%S%z", format!("{} {}", p.v.unix.unwrap() + 1, civil))] {
                    match guard(|| Timestamp::strptime(fmt, &text)) {
                        Err(pm) => r.viol("unix_seconds", &format!("Timestamp::strptime[{}]/{}", fmt, panic_sig(&pm)), format!("{} {:?}", fmt, text), pm),
                        Ok(Err(_)) => {}
                        Ok(Ok(t)) => r.viol("unix_seconds", &format!("Timestamp::strptime[{}]/contradiction-accepted:%s-vs-civil-fields", fmt), format!("{} {:?}", fmt, text), format!("accepted as {:?}", t)),
                    }
                }
            }
        }
        r.add_states(n);
        r.add_transitions(n * 6);
        r.add_validated(n * 4);
        r.count("unix_seconds.instants", n);
    });
}
