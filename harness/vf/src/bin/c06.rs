//! C06: Zoned arithmetic is DST-aware: calendar units move the wall clock,
//! time units are exact elapsed time. E1: zones x (every transition of the
//! zone (+) a neighbourhood of offsets, "landers" that put the intermediate
//! civil datetime inside every gap/fold, month-end/leap-day/limit anchors) x a
//! span pool (calendar part x time part, both signs) x the six operations,
//! plus absolute durations, the day/month navigation methods and
//! `Zoned::with()` single-field edits.
//!
//! Oracle (independent of jiff's zoned code; DESIGN.md section 3/C06):
//! civil datetime shown by R-tz at the start instant -> R-cal civil add (years
//! and months first, the day clamped to the target month's length; then weeks
//! and days on the epoch-day count) -> resolution in the zone with the
//! *compatible* strategy, defined from R-tz by counting pre-images
//! (unambiguous: that instant; fold: the earlier instant; gap: civil minus the
//! offset in force before the gap, i.e. the later reading) -> hours and
//! smaller units added as exact `i128` nanoseconds -> error iff outside the
//! Timestamp range (or the intermediate civil datetime is outside the
//! DateTime range). Subtraction is addition of the negated span. Absolute
//! durations and time-only spans move the instant by exactly that many
//! nanoseconds. The result keeps the time zone and its `offset()` /
//! `datetime()` are those of R-tz at the result instant. `start_of_day` is the
//! least instant whose R-tz civil date is that day, found by scanning the
//! pieces that overlap the civil day (not by resolving "midnight").
//!
//! Extensions (coverage audit): a second block of the span pool (every time
//! unit alone with and without calendar units; day/week counts on both sides
//! of the absolute epoch-day range and of the whole civil range, alone and
//! mixed with a second unit) run from the sub-neighbourhood {0, +-1 ns, +-1 h,
//! +-24 h} of every transition, the landers and the anchors; `+=` / `-=` and
//! the by-reference / `ZonedArithmetic` argument forms; `SignedDuration` and
//! `std::time::Duration` values around 2^63 s; whole-second sums at the first
//! and last second of the range; `first_of_year`, `last_of_year`,
//! `nth_weekday`, `nth_weekday_of_month` and the field accessors
//! (`days_in_month`, `in_leap_year`, ...) of `Zoned`; every `ZonedWith` setter
//! incl. out-of-range values and multi-field chains, and the product
//! offset x offset_conflict x disambiguation; `Timestamp` arithmetic (time
//! units exact, calendar units an error, saturating variants, operators);
//! synthetic zones in the quick tier; POSIX-string and fixed-offset zones.
//!
//! F7 (POSIX rule transitions evaluated per calendar year and clamped to it)
//! is C03/C04's subject: cases that touch the neighbourhood of such a rule
//! transition are skipped and counted.

use jiff::civil::{Era, Weekday};
use jiff::tz::{Disambiguation, Offset, OffsetConflict, TimeZone};
use jiff::{SignedDuration, Span, Timestamp, Zoned, ZonedWith};
use rayon::prelude::*;
use refmodel::{cal, tz as rtz};
use serde_json::json;
use std::collections::BTreeSet;
use std::sync::atomic::{AtomicU64, Ordering::Relaxed};
use std::time::Duration as UDur;
use vf::conv::{self, DAY_NS, NS};
use vf::zones::{self, Pair, ZoneSrc};
use vf::{guard, panic_sig, Report};

// ---------------------------------------------------------------------------
// span alphabet
// ---------------------------------------------------------------------------

/// years, months, weeks, days, hours, minutes, seconds, ms, us, ns
type Sp = [i64; 10];
const UNAME: [&str; 10] = ["y", "mo", "w", "d", "h", "mi", "s", "ms", "us", "ns"];
const TIME_NS: [i128; 10] = [0, 0, 0, 0, 3_600 * NS, 60 * NS, NS, 1_000_000, 1_000, 1];

fn to_span(sp: &Sp) -> Span {
    let neg = sp.iter().any(|&x| x < 0);
    assert!(!(neg && sp.iter().any(|&x| x > 0)), "pool spans are single-signed");
    let a: Vec<i64> = sp.iter().map(|x| x.abs()).collect();
    let s = Span::new()
        .try_years(a[0])
        .and_then(|s| s.try_months(a[1]))
        .and_then(|s| s.try_weeks(a[2]))
        .and_then(|s| s.try_days(a[3]))
        .and_then(|s| s.try_hours(a[4]))
        .and_then(|s| s.try_minutes(a[5]))
        .and_then(|s| s.try_seconds(a[6]))
        .and_then(|s| s.try_milliseconds(a[7]))
        .and_then(|s| s.try_microseconds(a[8]))
        .and_then(|s| s.try_nanoseconds(a[9]))
        .expect("pool span within documented limits");
    let s = if neg { s.negate() } else { s };
    let back: Sp = [
        s.get_years() as i64,
        s.get_months() as i64,
        s.get_weeks() as i64,
        s.get_days() as i64,
        s.get_hours() as i64,
        s.get_minutes(),
        s.get_seconds(),
        s.get_milliseconds(),
        s.get_microseconds(),
        s.get_nanoseconds(),
    ];
    assert_eq!(&back, sp, "span construction round trip");
    s
}

/// Spans equal to one hour whose calendar fields were non-zero at some point
/// of their construction (setter to zero, multiplication by zero)
fn reset_spans() -> Vec<Span> {
    vec![
        Span::new().days(1).days(0).hours(1),
        Span::new().hours(1).years(5).years(0),
        Span::new().months(3).weeks(2).checked_mul(0).expect("x0").hours(1),
        Span::new().days(-1).negate().days(0).hours(1),
    ]
}

fn fmt_sp(sp: &Sp) -> String {
    let parts: Vec<String> = (0..10).filter(|&u| sp[u] != 0).map(|u| format!("{}={}", UNAME[u], sp[u])).collect();
    format!("span{{{}}}", parts.join(","))
}

/// calendar parts (positive), simplest first
fn cal_parts(thorough: bool) -> Vec<[i64; 4]> {
    let mut v: Vec<[i64; 4]> = vec![
        [0, 0, 0, 1],
        [0, 0, 0, 2],
        [0, 0, 1, 0],
        [0, 1, 0, 0],
        [0, 1, 0, 1],
        [0, 12, 0, 0],
        [1, 0, 0, 0],
        [4, 0, 0, 0],
        [1, 1, 1, 1],
        [19_998, 0, 0, 0],
    ];
    if thorough {
        v.extend([
            [0, 0, 0, 30],
            [0, 0, 0, 31],
            [0, 0, 0, 365],
            [0, 6, 0, 0],
            [0, 0, 52, 0],
            [0, 239_976, 0, 0],
            [0, 0, 1_043_497, 0],
            [0, 0, 0, 7_304_484],
        ]);
    }
    v
}

/// time parts (positive), simplest first
fn time_parts(thorough: bool) -> Vec<[i64; 6]> {
    let mut v: Vec<[i64; 6]> = vec![
        [0, 0, 0, 0, 0, 1],
        [0, 30, 0, 0, 0, 0],
        [1, 0, 0, 0, 0, 0],
        [24, 0, 0, 0, 0, 0],
        [25, 0, 0, 0, 0, 0],
        [1, 30, 1, 1, 1, 1],
        [175_307_616, 0, 0, 0, 0, 0],
    ];
    if thorough {
        v.extend([
            [23, 0, 0, 0, 0, 0],
            [0, 0, 86_400, 0, 0, 0],
            [0, 0, 0, 0, 0, i64::MAX],
            [0, 0, 631_107_417_600, 0, 0, 0],
            [175_307_616, 10_518_456_960, 631_107_417_600, 631_107_417_600_000, 631_107_417_600_000_000, i64::MAX],
        ]);
    }
    v
}

/// time parts combined only with the calendar sub-alphabet `cal_sub()`:
/// every time unit alone (so that a span whose only time unit is seconds,
/// milliseconds or microseconds is present with and without calendar units),
/// the unit carries, and the single-unit thresholds of 32/64-bit paths
fn time_parts_light(thorough: bool) -> Vec<[i64; 6]> {
    let mut v: Vec<[i64; 6]> = vec![
        [0, 0, 1, 0, 0, 0],
        [0, 0, 0, 1, 0, 0],
        [0, 0, 0, 0, 1, 0],
        [0, 0, 0, 999, 999, 999],
    ];
    if thorough {
        v.extend([
            [0, 1, 0, 0, 0, 0],
            [0, 0, 0, 0, 0, 1_000_000_000],
            [0, 0, 2_147_483_648, 0, 0, 0],
            [2_562_048, 0, 0, 0, 0, 0],
            [0, 0, 0, 631_107_417_600_000, 0, 0],
            [0, 0, 0, 0, 631_107_417_600_000_000, 0],
            [0, 10_518_456_960, 0, 0, 0, 0],
        ]);
    }
    v
}

/// indices into `cal_parts()` of the calendar sub-alphabet: 1 d, 1 mo, 1y1mo1w1d
const CAL_SUB: [usize; 3] = [0, 3, 8];

/// calendar parts combined only with the time sub-alphabet {none, 1 ns, 1 h}:
/// day/week counts on both sides of the absolute Unix-epoch-day range
/// (-4 371 587 ..= 2 932 896) and of the whole civil range (7 304 483 days),
/// alone and mixed with a second calendar unit. A result is in range only
/// from a start near the other end of the civil range (the zone anchors).
fn cal_parts_big(thorough: bool) -> Vec<[i64; 4]> {
    let mut v: Vec<[i64; 4]> = vec![
        [0, 0, 0, 2_932_897],
        [0, 0, 1, 2_932_897],
        [0, 1, 0, 4_371_588],
        [0, 0, 418_986, 0],
        [0, 0, 418_986, 1],
    ];
    if thorough {
        v.extend([
            [0, 0, 0, 2_932_896],
            [0, 0, 0, 4_371_588],
            [0, 0, 1, 4_371_588],
            [1, 0, 0, 2_932_897],
            [0, 0, 624_513, 1],
            [0, 0, 0, 7_304_483],
            [0, 0, 1, 7_304_476],
            [0, 0, 1_043_497, 4],
            [0, 1, 0, 7_304_450],
            [19_997, 11, 4, 30],
        ]);
    }
    v
}

struct PoolSpan {
    sp: Sp,
    span: Span,
    /// index of the (signed) calendar part: 0 = none, +k / -k
    cal_id: i32,
    /// calendar part from `cal_parts_big`
    big: bool,
    /// member of the second block (light time parts, big calendar parts),
    /// which is run from a sub-neighbourhood of every transition
    second: bool,
}

fn span_pool(thorough: bool) -> (Vec<PoolSpan>, Vec<Sp>) {
    let cals = cal_parts(thorough);
    let times = time_parts(thorough);
    let times_light = time_parts_light(thorough);
    let cals_big = cal_parts_big(thorough);
    let mut out = vec![];
    let mut push = |sp: Sp, cal_id: i32, big: bool, second: bool| {
        out.push(PoolSpan { sp, span: to_span(&sp), cal_id, big, second });
    };
    let mk = |sign: i64, c: Option<&[i64; 4]>, t: Option<&[i64; 6]>| -> Sp {
        let mut sp = [0i64; 10];
        if let Some(c) = c {
            for i in 0..4 {
                sp[i] = sign * c[i];
            }
        }
        if let Some(t) = t {
            for i in 0..6 {
                sp[4 + i] = sign * t[i];
            }
        }
        sp
    };
    push([0; 10], 0, false, false);
    for sign in [1i64, -1] {
        // time only
        for t in &times {
            push(mk(sign, None, Some(t)), 0, false, false);
        }
        for (ci, c) in cals.iter().enumerate() {
            let id = sign as i32 * (ci as i32 + 1);
            push(mk(sign, Some(c), None), id, false, false);
            for t in &times {
                push(mk(sign, Some(c), Some(t)), id, false, false);
            }
        }
    }
    // second block (appended, so that the minimal case of an existing
    // signature stays what it was): light time parts x calendar sub-alphabet,
    // big calendar parts x time sub-alphabet
    for sign in [1i64, -1] {
        for t in &times_light {
            push(mk(sign, None, Some(t)), 0, false, true);
            for &ci in &CAL_SUB {
                push(mk(sign, Some(&cals[ci]), Some(t)), sign as i32 * (ci as i32 + 1), false, true);
            }
        }
        for (bi, c) in cals_big.iter().enumerate() {
            let id = sign as i32 * (1_000 + bi as i32);
            push(mk(sign, Some(c), None), id, true, true);
            for t in [&times[0], &times[2]] {
                push(mk(sign, Some(c), Some(t)), id, true, true);
            }
        }
    }
    // signed calendar-only spans, for the landers
    let mut cal_only = vec![];
    for sign in [1i64, -1] {
        for c in &cals {
            cal_only.push(mk(sign, Some(c), None));
        }
    }
    (out, cal_only)
}

#[derive(Clone, Copy)]
struct Parts {
    months: i64,
    days: i64,
    time_ns: i128,
    cal_nonzero: bool,
    sign: i8,
}

fn parts(sp: &Sp, dir: i64) -> Parts {
    let time_ns: i128 = (4..10).map(|u| sp[u] as i128 * TIME_NS[u]).sum();
    let sign = if sp.iter().any(|&x| x < 0) {
        -1
    } else if sp.iter().any(|&x| x > 0) {
        1
    } else {
        0
    };
    Parts {
        months: dir * (sp[0] * 12 + sp[1]),
        days: dir * (sp[2] * 7 + sp[3]),
        time_ns: dir as i128 * time_ns,
        cal_nonzero: sp[..4].iter().any(|&x| x != 0),
        sign: sign * dir as i8,
    }
}

// ---------------------------------------------------------------------------
// the model
// ---------------------------------------------------------------------------

#[derive(Clone, Copy, Debug, PartialEq, Eq)]
enum Want {
    Ok(i128),
    Err,
    /// the property does not define the case (>= 3 pre-images, non-unique gap)
    Undef,
    /// touches a POSIX rule transition outside its own year (F7; C03/C04)
    Taint,
}

impl Want {
    fn defined(self) -> bool {
        matches!(self, Want::Ok(_) | Want::Err)
    }
    fn or(self, clamp: i128) -> Want {
        match self {
            Want::Err => Want::Ok(clamp),
            w => w,
        }
    }
}

enum Res {
    Unique(i64),
    Fold(i64, i64),
    /// piece index after the gap
    Gap(usize),
    Undef,
}

fn off(z: &rtz::Zone, k: usize) -> i64 {
    z.infos[z.pieces[k].info as usize].utoff as i64
}

fn resolve(z: &rtz::Zone, c_sec: i64) -> Res {
    let pre = z.preimages(c_sec);
    match pre.len() {
        0 => {
            let g = z.gap_around(c_sec);
            if g.len() == 1 {
                Res::Gap(g[0])
            } else {
                Res::Undef
            }
        }
        1 => Res::Unique(pre[0].0),
        2 => Res::Fold(pre[0].0.min(pre[1].0), pre[0].0.max(pre[1].0)),
        _ => Res::Undef,
    }
}

fn floor_sec(ns: i128) -> i64 {
    ns.div_euclid(NS) as i64
}

/// least instant (unix seconds) whose civil date is epoch day `d`, by scanning
/// the pieces overlapping that civil day
fn first_instant_of_day(z: &rtz::Zone, d: i64) -> Option<i64> {
    let lo = d * 86_400;
    let hi = lo + 86_400;
    let i0 = z.piece_index_at(lo - 100_000);
    let i1 = z.piece_index_at(hi + 100_000);
    let mut best: Option<i64> = None;
    for i in i0..=i1 {
        let o = off(z, i);
        let s = z.pieces[i].start.max(lo - o);
        let e = z.piece_end(i).min(hi - o);
        if s < e {
            best = Some(best.map_or(s, |b: i64| b.min(s)));
        }
    }
    best
}

/// greatest instant second whose civil date is epoch day `d`
fn last_second_of_day(z: &rtz::Zone, d: i64) -> Option<i64> {
    let lo = d * 86_400;
    let hi = lo + 86_400;
    let i0 = z.piece_index_at(lo - 100_000);
    let i1 = z.piece_index_at(hi + 100_000);
    let mut best: Option<i64> = None;
    for i in i0..=i1 {
        let o = off(z, i);
        let s = z.pieces[i].start.max(lo - o);
        let e = z.piece_end(i).min(hi - o);
        if s < e {
            best = Some(best.map_or(e - 1, |b: i64| b.max(e - 1)));
        }
    }
    best
}

#[derive(Default)]
struct Tally {
    gap: AtomicU64,
    fold: AtomicU64,
    unique: AtomicU64,
    time_only: AtomicU64,
    ok: AtomicU64,
    err: AtomicU64,
    undef: AtomicU64,
    taint: AtomicU64,
    clamped: AtomicU64,
    op_panics: AtomicU64,
    assign_ops: AtomicU64,
    big_cal_ok: AtomicU64,
    big_cal_mixed_ok: AtomicU64,
    time_single_with_cal_ok: AtomicU64,
    sat_min: AtomicU64,
    sat_max: AtomicU64,
    skip_offset: AtomicU64,
    sod_not_midnight: AtomicU64,
    sod_gap_at_midnight: AtomicU64,
    sod_gap_straddles: AtomicU64,
    sod_fold: AtomicU64,
    sod_err: AtomicU64,
    eod_unique: AtomicU64,
    eod_fold: AtomicU64,
    eod_gap: AtomicU64,
    eod_gap_not_last_instant: AtomicU64,
    eod_gap_leaves_day: AtomicU64,
    day_23h: AtomicU64,
    day_25h: AtomicU64,
    day_other: AtomicU64,
    day_half: AtomicU64,
    day_47h_up: AtomicU64,
    day_before_skipped: AtomicU64,
    with_kept_offset_in_fold: AtomicU64,
    with_invalid: AtomicU64,
    nth_of_month_found: AtomicU64,
    with_opt_err: AtomicU64,
    with_opt_gap: AtomicU64,
    with_opt_fold: AtomicU64,
    ts_ok: AtomicU64,
    ts_err: AtomicU64,
    ts_op_panics: AtomicU64,
    ts_cal_spans: AtomicU64,
    zones: AtomicU64,
    zones_not_loaded: AtomicU64,
    transitions: AtomicU64,
    starts: AtomicU64,
}

#[derive(Clone, Copy, Debug, PartialEq, Eq)]
struct ZView {
    ts: i128,
    off: i32,
    civil: i128,
    same_tz: bool,
}

struct Ctx<'a> {
    r: &'a Report,
    t: &'a Tally,
    pair: &'a Pair,
    /// merged, sorted windows (seconds; valid on the instant and the civil scale)
    taint: Vec<(i64, i64)>,
    ts_min: i128,
    ts_max: i128,
}

/// Windows around rule transitions whose exact UTC instant, or one of whose
/// wall-clock readings, lies outside the rule's own year (same test as C04).
fn taint_windows(z: &rtz::Zone) -> Vec<(i64, i64)> {
    let mut v: Vec<(i64, i64)> = vec![];
    for j in 1..z.pieces.len() {
        let p = &z.pieces[j];
        if p.recorded {
            continue;
        }
        let o1 = off(z, j - 1);
        let o2 = off(z, j);
        let y0 = cal::days_from_civil(p.rule_year, 1, 1) * 86_400;
        let y1 = cal::days_from_civil(p.rule_year + 1, 1, 1) * 86_400;
        let pts = [p.start, p.start + o1, p.start + o2];
        let mn = *pts.iter().min().unwrap();
        let mx = *pts.iter().max().unwrap();
        let (a, b) = if mn < y0 {
            (mn, mx.max(y0))
        } else if mx >= y1 - 1 {
            (mn.min(y1 - 1), mx)
        } else {
            continue;
        };
        v.push((a - 200_000, b + 200_000));
    }
    v.sort();
    let mut out: Vec<(i64, i64)> = vec![];
    for w in v {
        match out.last_mut() {
            Some(l) if w.0 <= l.1 => l.1 = l.1.max(w.1),
            _ => out.push(w),
        }
    }
    out
}

impl<'a> Ctx<'a> {
    fn z(&self) -> &rtz::Zone {
        &self.pair.model
    }
    fn tainted(&self, sec: i64) -> bool {
        if self.taint.is_empty() {
            return false;
        }
        let i = self.taint.partition_point(|w| w.0 <= sec);
        i > 0 && self.taint[i - 1].1 >= sec
    }
    fn in_ts(&self, x: i128) -> bool {
        x >= self.ts_min && x <= self.ts_max
    }
    fn local(&self, t: i128) -> i128 {
        t + self.z().utoff_at(floor_sec(t)) as i128 * NS
    }
    /// compatible resolution of a civil datetime (ns on the wall clock):
    /// the instant in ns (unbounded), with the kind
    fn compat(&self, civil: i128, tally: bool) -> Option<i128> {
        let c_sec = floor_sec(civil);
        let frac = civil.rem_euclid(NS);
        let z = self.z();
        let t = match resolve(z, c_sec) {
            Res::Unique(t) => {
                if tally {
                    self.t.unique.fetch_add(1, Relaxed);
                }
                t
            }
            Res::Fold(a, _) => {
                if tally {
                    self.t.fold.fetch_add(1, Relaxed);
                }
                a
            }
            Res::Gap(k) => {
                if tally {
                    self.t.gap.fetch_add(1, Relaxed);
                }
                c_sec - off(z, k - 1)
            }
            Res::Undef => return None,
        };
        Some(t as i128 * NS + frac)
    }
    /// civil (ns) -> compatible instant as a Want (range checked, taint checked)
    fn civil_to_want(&self, civil: i128) -> Want {
        if civil < conv::dt_min_ns() || civil > conv::dt_max_ns() {
            return Want::Err;
        }
        if self.tainted(floor_sec(civil)) {
            return Want::Taint;
        }
        match self.compat(civil, true) {
            None => Want::Undef,
            Some(t) => {
                if !self.in_ts(t) {
                    Want::Err
                } else if self.tainted(floor_sec(t)) {
                    Want::Taint
                } else {
                    Want::Ok(t)
                }
            }
        }
    }

    /// the reference addition
    fn model_add(&self, start: i128, p: &Parts) -> Want {
        if self.tainted(floor_sec(start)) {
            return Want::Taint;
        }
        let base = if !p.cal_nonzero {
            self.t.time_only.fetch_add(1, Relaxed);
            start
        } else {
            let civil = self.local(start);
            let day = civil.div_euclid(DAY_NS) as i64;
            let tod = civil.rem_euclid(DAY_NS);
            let (y, m, d) = cal::civil_from_days(day);
            let (y2, m2) = cal::add_months(y, m, p.months);
            if y2 < cal::MIN_YEAR - 1 || y2 > cal::MAX_YEAR + 1 {
                // same-signed days cannot bring it back
                return Want::Err;
            }
            let dim = cal::days_in_month(y2, m2);
            let d2 = d.min(dim);
            if d2 != d {
                self.t.clamped.fetch_add(1, Relaxed);
            }
            let day2 = cal::days_from_civil(y2, m2, d2) as i128 + p.days as i128;
            if day2 < cal::min_day() as i128 || day2 > cal::max_day() as i128 {
                return Want::Err;
            }
            match self.civil_to_want(day2 * DAY_NS + tod) {
                Want::Ok(t) => t,
                w => return w,
            }
        };
        let res = base + p.time_ns;
        if !self.in_ts(res) {
            Want::Err
        } else if self.tainted(floor_sec(res)) {
            Want::Taint
        } else {
            Want::Ok(res)
        }
    }

    fn view(&self, z: &Zoned) -> ZView {
        ZView {
            ts: z.timestamp().as_nanosecond(),
            off: z.offset().seconds(),
            civil: conv::dt_civil_ns(z.datetime()),
            same_tz: z.time_zone() == &self.pair.jiff,
        }
    }

    fn count_want(&self, w: Want) {
        match w {
            Want::Ok(_) => self.t.ok.fetch_add(1, Relaxed),
            Want::Err => self.t.err.fetch_add(1, Relaxed),
            Want::Undef => self.t.undef.fetch_add(1, Relaxed),
            Want::Taint => self.t.taint.fetch_add(1, Relaxed),
        };
    }

    /// compare a produced Zoned with the instant the model wants
    fn same(&self, sec: &str, op: &str, vcls: &str, case: &dyn Fn() -> String, v: ZView, w: i128) {
        if v.ts != w {
            self.r.viol(sec, &format!("{}/{}", op, vcls), case(), format!("jiff {} ({}) model {} ({})", conv::fmt_ns(v.ts), fmt_civil(v.civil), conv::fmt_ns(w), fmt_civil(self.local(w))));
            return;
        }
        if !v.same_tz {
            self.r.viol(sec, &format!("{}/time-zone-changed", op), case(), "result.time_zone() != start.time_zone()".to_string());
        }
        let mo = self.z().utoff_at(floor_sec(w));
        if v.off != mo {
            if self.tainted(floor_sec(w)) {
                self.t.skip_offset.fetch_add(1, Relaxed);
            } else {
                self.r.viol(sec, &format!("{}/result-offset-not-the-zone's-at-result-instant", op), case(), format!("instant {} jiff offset {} model {}", conv::fmt_ns(w), v.off, mo));
            }
        } else if v.civil != w + mo as i128 * NS {
            self.r.viol(sec, &format!("{}/result-datetime-not-the-zone's-at-result-instant", op), case(), format!("instant {} jiff civil {} model {}", conv::fmt_ns(w), fmt_civil(v.civil), fmt_civil(w + mo as i128 * NS)));
        }
    }

    /// fallible operation
    fn checked(&self, sec: &str, op: &str, vcls: &str, case: &dyn Fn() -> String, got: Result<Option<ZView>, String>, want: Want) {
        match (got, want) {
            (Err(p), _) => self.r.viol(sec, &format!("{}/{}", op, panic_sig(&p)), case(), p),
            (_, Want::Undef) | (_, Want::Taint) => {}
            (Ok(None), Want::Err) => {}
            (Ok(None), Want::Ok(w)) => self.r.viol(sec, &format!("{}/err-but-result-in-range", op), case(), format!("jiff Err model {}", conv::fmt_ns(w))),
            (Ok(Some(v)), Want::Err) => self.r.viol(sec, &format!("{}/ok-but-result-out-of-range", op), case(), format!("jiff {} model Err", conv::fmt_ns(v.ts))),
            (Ok(Some(v)), Want::Ok(w)) => self.same(sec, op, vcls, case, v, w),
        }
    }

    /// infallible operation (saturating)
    fn total(&self, sec: &str, op: &str, case: &dyn Fn() -> String, got: Result<ZView, String>, want: Want) {
        match (got, want) {
            (Err(p), _) => self.r.viol(sec, &format!("{}/{}", op, panic_sig(&p)), case(), p),
            (Ok(v), Want::Ok(w)) => self.same(sec, op, "value", case, v, w),
            _ => {}
        }
    }

    /// operator: documented to panic exactly when checked_* fails
    fn operator(&self, sec: &str, op: &str, case: &dyn Fn() -> String, got: Result<ZView, String>, want: Want) {
        match (got, want) {
            (_, Want::Undef) | (_, Want::Taint) => {}
            (Err(p), Want::Err) => {
                if p.contains("overflowed") {
                    self.t.op_panics.fetch_add(1, Relaxed);
                } else {
                    self.r.viol(sec, &format!("{}/{}", op, panic_sig(&p)), case(), p);
                }
            }
            (Err(p), Want::Ok(w)) => self.r.viol(sec, &format!("{}/panic-but-result-in-range", op), case(), format!("jiff panic {} model {}", p, conv::fmt_ns(w))),
            (Ok(v), Want::Err) => self.r.viol(sec, &format!("{}/no-panic-but-result-out-of-range", op), case(), format!("jiff {} model overflow", conv::fmt_ns(v.ts))),
            (Ok(v), Want::Ok(w)) => self.same(sec, op, "value", case, v, w),
        }
    }

    fn case_head(&self, start: i128) -> String {
        format!("{}:{} t={} ({})", self.pair.origin, self.pair.name, conv::fmt_ns(start), fmt_civil(self.local(start)))
    }

    /// make the start value; None (counted) when jiff and the model disagree
    /// about the offset in force there (C03's subject) or it is tainted
    fn start(&self, sec: &str, start: i128) -> Option<Zoned> {
        if !self.in_ts(start) {
            return None;
        }
        if self.tainted(floor_sec(start)) {
            self.t.taint.fetch_add(1, Relaxed);
            return None;
        }
        let tz = &self.pair.jiff;
        match guard(|| Timestamp::from_nanosecond(start).unwrap().to_zoned(tz.clone())) {
            Err(p) => {
                self.r.viol(sec, &format!("Timestamp::to_zoned/{}", panic_sig(&p)), self.case_head(start), p);
                None
            }
            Ok(z) => {
                let v = self.view(&z);
                let mo = self.z().utoff_at(floor_sec(start));
                if v.off != mo || v.civil != start + mo as i128 * NS {
                    self.t.skip_offset.fetch_add(1, Relaxed);
                    return None;
                }
                Some(z)
            }
        }
    }
}

fn fmt_civil(c: i128) -> String {
    let day = c.div_euclid(DAY_NS) as i64;
    let tod = c.rem_euclid(DAY_NS);
    let (y, m, d) = cal::civil_from_days(day);
    let s = (tod / NS) as i64;
    let f = tod % NS;
    let mut out = format!("{:04}-{:02}-{:02}T{:02}:{:02}:{:02}", y, m, d, s / 3600, (s / 60) % 60, s % 60);
    if f != 0 {
        out.push_str(&format!(".{:09}", f));
    }
    out
}

macro_rules! six_ops {
    ($cx:expr, $sec:expr, $kind:literal, $z:expr, $x:expr, $add:expr, $sub:expr, $sign:expr, $ops_err:expr, $case:expr) => {{
        let cx: &Ctx = $cx;
        let z: &Zoned = $z;
        let x = $x;
        let add: Want = $add;
        let sub: Want = $sub;
        let sign: i8 = $sign;
        // the compound-assignment operators and the by-reference argument
        // forms are exercised wherever the operators are also driven into
        // their documented panic (starts exactly at a transition, anchors)
        let mask: u8 = $ops_err;
        // bit 0: drive the operators into their documented panic;
        // bit 1: compound assignment and by-reference forms;
        // bit 2: drive those into the panic too
        let ops_err = mask & 1 != 0;
        let more = mask & 2 != 0;
        let more_err = mask & 4 != 0;
        let mut n = 0u64;
        cx.count_want(add);
        cx.count_want(sub);
        if add.defined() {
            let clamp = if sign < 0 { cx.ts_min } else { cx.ts_max };
            if add == Want::Err {
                if sign < 0 { cx.t.sat_min.fetch_add(1, Relaxed) } else { cx.t.sat_max.fetch_add(1, Relaxed) };
            }
            cx.checked($sec, concat!("Zoned::checked_add(", $kind, ")"), "value", &|| $case("checked_add"), guard(|| z.checked_add(x).ok().map(|v| cx.view(&v))), add);
            cx.total($sec, concat!("Zoned::saturating_add(", $kind, ")"), &|| $case("saturating_add"), guard(|| cx.view(&z.saturating_add(x))), add.or(clamp));
            n += 2;
            if add != Want::Err || ops_err {
                cx.operator($sec, concat!("&Zoned + ", $kind), &|| $case("+"), guard(|| cx.view(&(z + x))), add);
                n += 1;
            }
            if more && (add != Want::Err || more_err) {
                cx.operator($sec, concat!("Zoned += ", $kind), &|| $case("+="), guard(|| { let mut m = z.clone(); m += x; cx.view(&m) }), add);
                cx.checked($sec, concat!("Zoned::checked_add(&", $kind, ")"), "value", &|| $case("checked_add&"), guard(|| z.checked_add(&x).ok().map(|v| cx.view(&v))), add);
                cx.total($sec, concat!("Zoned::saturating_add(&", $kind, ")"), &|| $case("saturating_add&"), guard(|| cx.view(&z.saturating_add(jiff::ZonedArithmetic::from(&x)))), add.or(clamp));
                cx.t.assign_ops.fetch_add(1, Relaxed);
                n += 3;
            }
        }
        if sub.defined() {
            let clamp = if sign < 0 { cx.ts_max } else { cx.ts_min };
            if sub == Want::Err {
                if sign < 0 { cx.t.sat_max.fetch_add(1, Relaxed) } else { cx.t.sat_min.fetch_add(1, Relaxed) };
            }
            cx.checked($sec, concat!("Zoned::checked_sub(", $kind, ")"), "value", &|| $case("checked_sub"), guard(|| z.checked_sub(x).ok().map(|v| cx.view(&v))), sub);
            cx.total($sec, concat!("Zoned::saturating_sub(", $kind, ")"), &|| $case("saturating_sub"), guard(|| cx.view(&z.saturating_sub(x))), sub.or(clamp));
            n += 2;
            if sub != Want::Err || ops_err {
                cx.operator($sec, concat!("&Zoned - ", $kind), &|| $case("-"), guard(|| cx.view(&(z - x))), sub);
                n += 1;
            }
            if more && (sub != Want::Err || more_err) {
                cx.operator($sec, concat!("Zoned -= ", $kind), &|| $case("-="), guard(|| { let mut m = z.clone(); m -= x; cx.view(&m) }), sub);
                cx.checked($sec, concat!("Zoned::checked_sub(&", $kind, ")"), "value", &|| $case("checked_sub&"), guard(|| z.checked_sub(&x).ok().map(|v| cx.view(&v))), sub);
                cx.total($sec, concat!("Zoned::saturating_sub(&", $kind, ")"), &|| $case("saturating_sub&"), guard(|| cx.view(&z.saturating_sub(jiff::ZonedArithmetic::from(&x)))), sub.or(clamp));
                cx.t.assign_ops.fetch_add(1, Relaxed);
                n += 3;
            }
        }
        n
    }};
}

// ---------------------------------------------------------------------------
// Zoned::with(): field edits and the resolution options
// ---------------------------------------------------------------------------

#[derive(Clone, Copy, Debug)]
enum Ed {
    Year(i64),
    EraCE(i64),
    EraBCE(i64),
    Month(i64),
    Day(i64),
    Doy(i64),
    DoyNl(i64),
    Hour(i64),
    Minute(i64),
    Second(i64),
    Ms(i64),
    Us(i64),
    Ns(i64),
    Subsec(i64),
    Date(i64, i64, i64),
    Time(i64, i64, i64, i64),
}

impl Ed {
    fn name(&self) -> &'static str {
        match self {
            Ed::Year(_) => "year",
            Ed::EraCE(_) | Ed::EraBCE(_) => "era_year",
            Ed::Month(_) => "month",
            Ed::Day(_) => "day",
            Ed::Doy(_) => "day_of_year",
            Ed::DoyNl(_) => "day_of_year_no_leap",
            Ed::Hour(_) => "hour",
            Ed::Minute(_) => "minute",
            Ed::Second(_) => "second",
            Ed::Ms(_) => "millisecond",
            Ed::Us(_) => "microsecond",
            Ed::Ns(_) => "nanosecond",
            Ed::Subsec(_) => "subsec_nanosecond",
            Ed::Date(..) => "date",
            Ed::Time(..) => "time",
        }
    }
    fn show(&self) -> String {
        match *self {
            Ed::EraCE(v) => format!("era_year({},CE)", v),
            Ed::EraBCE(v) => format!("era_year({},BCE)", v),
            Ed::Date(a, b, c) => format!("date({},{},{})", a, b, c),
            Ed::Time(a, b, c, d) => format!("time({},{},{},{})", a, b, c, d),
            Ed::Year(v) | Ed::Month(v) | Ed::Day(v) | Ed::Doy(v) | Ed::DoyNl(v) | Ed::Hour(v) | Ed::Minute(v) | Ed::Second(v) | Ed::Ms(v) | Ed::Us(v) | Ed::Ns(v) | Ed::Subsec(v) => {
                format!("{}({})", self.name(), v)
            }
        }
    }
}

fn fmt_edits(eds: &[Ed]) -> String {
    eds.iter().map(|e| format!(".{}", e.show())).collect()
}
fn sig_edits(eds: &[Ed]) -> String {
    eds.iter().map(|e| format!(".{}", e.name())).collect()
}

/// the fields of a civil datetime, as the builder sees them
#[derive(Clone, Copy)]
struct Fields {
    y: i64,
    m: i64,
    d: i64,
    h: i64,
    mi: i64,
    s: i64,
    ms: i64,
    us: i64,
    ns: i64,
}

impl Fields {
    fn of(civil: i128) -> Fields {
        let day = civil.div_euclid(DAY_NS) as i64;
        let tod = civil.rem_euclid(DAY_NS);
        let (y, m, d) = cal::civil_from_days(day);
        let sec = (tod / NS) as i64;
        let f = (tod % NS) as i64;
        Fields { y, m, d, h: sec / 3_600, mi: (sec / 60) % 60, s: sec % 60, ms: f / 1_000_000, us: (f / 1_000) % 1_000, ns: f % 1_000 }
    }
}

/// The documented meaning of a chain of setters: each replaces its own field,
/// everything is validated together at build(); `day_of_year*` determine month
/// and day; `subsec_nanosecond` together with one of millisecond /
/// microsecond / nanosecond is an error. `None` = build() must fail.
/// (Chains in which a later setter is documented to *override* an earlier one
/// are limited to year / era_year.)
fn apply_edits(f0: &Fields, eds: &[Ed]) -> Option<i128> {
    let mut f = *f0;
    let mut ok = true;
    let mut doy: Option<(i64, bool)> = None;
    let mut subsec: Option<i64> = None;
    let mut part = false;
    let rng = |v: i64, lo: i64, hi: i64| v >= lo && v <= hi;
    for e in eds {
        match *e {
            Ed::Year(v) => {
                ok &= rng(v, cal::MIN_YEAR, cal::MAX_YEAR);
                f.y = v;
            }
            Ed::EraCE(v) => {
                ok &= rng(v, 1, 9_999);
                f.y = v;
            }
            Ed::EraBCE(v) => {
                ok &= rng(v, 1, 10_000);
                f.y = 1 - v;
            }
            Ed::Month(v) => {
                ok &= rng(v, 1, 12);
                f.m = v;
            }
            Ed::Day(v) => {
                ok &= rng(v, 1, 31);
                f.d = v;
            }
            Ed::Doy(v) => {
                ok &= rng(v, 1, 366);
                doy = Some((v, false));
            }
            Ed::DoyNl(v) => {
                ok &= rng(v, 1, 365);
                doy = Some((v, true));
            }
            Ed::Hour(v) => {
                ok &= rng(v, 0, 23);
                f.h = v;
            }
            Ed::Minute(v) => {
                ok &= rng(v, 0, 59);
                f.mi = v;
            }
            Ed::Second(v) => {
                ok &= rng(v, 0, 59);
                f.s = v;
            }
            Ed::Ms(v) => {
                ok &= rng(v, 0, 999);
                f.ms = v;
                part = true;
            }
            Ed::Us(v) => {
                ok &= rng(v, 0, 999);
                f.us = v;
                part = true;
            }
            Ed::Ns(v) => {
                ok &= rng(v, 0, 999);
                f.ns = v;
                part = true;
            }
            Ed::Subsec(v) => {
                ok &= rng(v, 0, 999_999_999);
                subsec = Some(v);
            }
            Ed::Date(a, b, c) => {
                f.y = a;
                f.m = b;
                f.d = c;
            }
            Ed::Time(a, b, c, d) => {
                f.h = a;
                f.mi = b;
                f.s = c;
                subsec = Some(d);
            }
        }
    }
    if !ok || (part && subsec.is_some()) {
        return None;
    }
    let day = match doy {
        None => {
            if !cal::valid_date(f.y, f.m, f.d) {
                return None;
            }
            cal::days_from_civil(f.y, f.m, f.d)
        }
        Some((n, no_leap)) => {
            let leap = cal::is_leap(f.y);
            let n = if no_leap {
                if leap && n >= 60 {
                    n + 1
                } else {
                    n
                }
            } else {
                if n == 366 && !leap {
                    return None;
                }
                n
            };
            cal::days_from_civil(f.y, 1, 1) + n - 1
        }
    };
    let frac = subsec.unwrap_or(f.ms * 1_000_000 + f.us * 1_000 + f.ns);
    Some(day as i128 * DAY_NS + (f.h * 3_600 + f.mi * 60 + f.s) as i128 * NS + frac as i128)
}

fn build_edits(mut w: ZonedWith, eds: &[Ed]) -> ZonedWith {
    for e in eds {
        w = match *e {
            Ed::Year(v) => w.year(v as i16),
            Ed::EraCE(v) => w.era_year(v as i16, Era::CE),
            Ed::EraBCE(v) => w.era_year(v as i16, Era::BCE),
            Ed::Month(v) => w.month(v as i8),
            Ed::Day(v) => w.day(v as i8),
            Ed::Doy(v) => w.day_of_year(v as i16),
            Ed::DoyNl(v) => w.day_of_year_no_leap(v as i16),
            Ed::Hour(v) => w.hour(v as i8),
            Ed::Minute(v) => w.minute(v as i8),
            Ed::Second(v) => w.second(v as i8),
            Ed::Ms(v) => w.millisecond(v as i16),
            Ed::Us(v) => w.microsecond(v as i16),
            Ed::Ns(v) => w.nanosecond(v as i16),
            Ed::Subsec(v) => w.subsec_nanosecond(v as i32),
            Ed::Date(a, b, c) => w.date(jiff::civil::Date::new(a as i16, b as i8, c as i8).expect("pool date")),
            Ed::Time(a, b, c, d) => w.time(jiff::civil::Time::new(a as i8, b as i8, c as i8, d as i32).expect("pool time")),
        };
    }
    w
}

#[derive(Clone, Copy, Debug, PartialEq, Eq)]
enum Conf {
    Prefer,
    AlwaysOffset,
    AlwaysTz,
    Reject,
}
impl Conf {
    fn to(self) -> OffsetConflict {
        match self {
            Conf::Prefer => OffsetConflict::PreferOffset,
            Conf::AlwaysOffset => OffsetConflict::AlwaysOffset,
            Conf::AlwaysTz => OffsetConflict::AlwaysTimeZone,
            Conf::Reject => OffsetConflict::Reject,
        }
    }
}
#[derive(Clone, Copy, Debug, PartialEq, Eq)]
enum Dis {
    Compat,
    Earlier,
    Later,
    Reject,
}
impl Dis {
    fn to(self) -> Disambiguation {
        match self {
            Dis::Compat => Disambiguation::Compatible,
            Dis::Earlier => Disambiguation::Earlier,
            Dis::Later => Disambiguation::Later,
            Dis::Reject => Disambiguation::Reject,
        }
    }
}

impl<'a> Ctx<'a> {
    /// `ZonedWith::build` after the civil fields are settled (documentation of
    /// OffsetConflict and Disambiguation): AlwaysOffset -> the instant is civil
    /// minus the given offset; Reject -> the given offset must be one the zone
    /// has for that civil datetime (never in a gap), else error; PreferOffset
    /// -> the given offset if it is one of the two offsets of a fold (for an
    /// unambiguous datetime the zone's own offset is the answer either way),
    /// else, and for AlwaysTimeZone, the disambiguation strategy: compatible =
    /// earlier instant in a fold / later reading in a gap, earlier, later,
    /// reject = error unless unambiguous. The second component names the kind
    /// of the civil datetime in the zone.
    fn with_resolve(&self, c2: i128, given: i64, conf: Conf, dis: Dis) -> (Want, &'static str) {
        if c2 < conv::dt_min_ns() || c2 > conv::dt_max_ns() {
            return (Want::Err, "range");
        }
        let c_sec = floor_sec(c2);
        let frac = c2.rem_euclid(NS);
        if self.tainted(c_sec) {
            return (Want::Taint, "taint");
        }
        let fin = |t_sec: i64| -> Want {
            let x = t_sec as i128 * NS + frac;
            if !self.in_ts(x) {
                Want::Err
            } else if self.tainted(floor_sec(x)) {
                Want::Taint
            } else {
                Want::Ok(x)
            }
        };
        let z = self.z();
        let res = resolve(z, c_sec);
        let kind = match res {
            Res::Unique(_) => "unique",
            Res::Fold(..) => "fold",
            Res::Gap(_) => "gap",
            Res::Undef => "undefined",
        };
        if conf == Conf::AlwaysOffset {
            return (fin(c_sec - given), kind);
        }
        let w = match res {
            Res::Undef => Want::Undef,
            Res::Unique(t) => {
                if conf == Conf::Reject && c_sec - t != given {
                    Want::Err
                } else {
                    fin(t)
                }
            }
            Res::Fold(a, b) => {
                let pick = if conf == Conf::AlwaysTz {
                    None
                } else if c_sec - a == given {
                    Some(a)
                } else if c_sec - b == given {
                    Some(b)
                } else {
                    None
                };
                match (pick, conf, dis) {
                    (Some(t), _, _) => {
                        if t == b {
                            self.t.with_kept_offset_in_fold.fetch_add(1, Relaxed);
                        }
                        fin(t)
                    }
                    (None, Conf::Reject, _) => Want::Err,
                    (None, _, Dis::Compat) | (None, _, Dis::Earlier) => fin(a),
                    (None, _, Dis::Later) => fin(b),
                    (None, _, Dis::Reject) => Want::Err,
                }
            }
            Res::Gap(k) => match (conf, dis) {
                (Conf::Reject, _) | (_, Dis::Reject) => Want::Err,
                (_, Dis::Compat) | (_, Dis::Later) => fin(c_sec - off(z, k - 1)),
                (_, Dis::Earlier) => fin(c_sec - off(z, k)),
            },
        };
        (w, kind)
    }
}

// ---------------------------------------------------------------------------
// enumeration
// ---------------------------------------------------------------------------

const H: i128 = 3_600 * NS;
const NTHS: [i64; 7] = [0, 1, -1, 2, -2, 53, -53];
const NTHS_OF_MONTH: [i64; 8] = [0, 1, -1, 4, 5, -5, 6, -6];
/// sub-neighbourhood from which the second block of the span pool is run
const SUB_NB: [i128; 7] = [0, 1, -1, H, -H, 24 * H, -24 * H];
const QUICK_EXTRA: &[&str] = &["America/Toronto", "Pacific/Kwajalein", "Asia/Manila", "America/Juneau", "Pacific/Kanton", "Asia/Pyongyang"];

fn neighbourhood() -> Vec<i128> {
    let mut v = vec![0i128];
    for d in [1, NS, 1_800 * NS, H, H + 1_800 * NS, 23 * H, 24 * H, 25 * H, 48 * H] {
        v.push(d);
        v.push(-d);
    }
    v
}

/// the transitions (piece indices) of a zone selected for the tier
fn select_transitions(z: &rtz::Zone, thorough: bool, is_rep: bool) -> Vec<usize> {
    // a POSIX-string zone has rule transitions in every year of the range
    let posix = z.n_recorded == 0 && z.footer.is_some() && z.version == 0;
    let year_ok = |y: i64| -> bool {
        if posix && thorough {
            (1965..=2045).contains(&y) || y == 2100 || y == 2400 || y >= 9990 || y <= -9990
        } else if posix {
            (1969..=1971).contains(&y) || (2023..=2025).contains(&y) || y == 2038 || y == 2100 || y == 9998 || y == -9998
        } else if thorough && is_rep {
            y <= 2500 || y % 100 == 0 || y >= 9990
        } else if thorough {
            y <= 2040 || y == 2100 || y == 9998
        } else {
            (2038..=2045).contains(&y) || (2096..=2104).contains(&y) || (9990..=9998).contains(&y)
        }
    };
    z.changing()
        .into_iter()
        .filter(|&k| {
            let p = &z.pieces[k];
            if p.start <= zones::TS_MIN_SEC || p.start >= zones::TS_MAX_SEC {
                return false;
            }
            p.recorded || year_ok(cal::civil_from_days(p.start.div_euclid(86_400)).0)
        })
        .collect()
}

/// start instants of a zone: per selected transition the neighbourhood, plus
/// zone-level anchors (month ends, leap days, limits)
fn anchors(cx: &Ctx) -> Vec<i128> {
    let mut s = BTreeSet::new();
    for x in [cx.ts_min, cx.ts_min + 1, cx.ts_min + DAY_NS, cx.ts_min + 400 * DAY_NS, 0, 1, -1, cx.ts_max - 400 * DAY_NS, cx.ts_max - DAY_NS, cx.ts_max - 1, cx.ts_max] {
        s.insert(x);
    }
    let tods: [i128; 4] = [0, 2 * H + 1_800 * NS, 12 * H, DAY_NS - 1];
    for d in vf::pools::dates() {
        let e = conv::date_epoch_day(d) as i128;
        for tod in tods {
            if let Some(t) = cx.compat(e * DAY_NS + tod, false) {
                if cx.in_ts(t) {
                    s.insert(t);
                }
            }
        }
    }
    s.into_iter().collect()
}

fn inverse_civil(civil: i128, sp: &Sp) -> Option<i128> {
    // civil - calendar span (approximate inverse; only used to pick starts)
    let p = parts(sp, -1);
    let day = civil.div_euclid(DAY_NS) as i64;
    let tod = civil.rem_euclid(DAY_NS);
    // undo days first, then months (reverse order of the forward addition)
    let day1 = day as i128 + p.days as i128;
    if day1 < cal::min_day() as i128 || day1 > cal::max_day() as i128 {
        return None;
    }
    let (y1, m1, d1) = cal::civil_from_days(day1 as i64);
    let (y2, m2) = cal::add_months(y1, m1, p.months);
    if y2 < cal::MIN_YEAR || y2 > cal::MAX_YEAR {
        return None;
    }
    let d2 = d1.min(cal::days_in_month(y2, m2));
    Some(cal::days_from_civil(y2, m2, d2) as i128 * DAY_NS + tod)
}

fn main() {
    let r = Report::from_args("C06");
    let thorough = r.thorough();
    let t = Tally::default();
    let ts_min = conv::ts_min_ns();
    let ts_max = conv::ts_max_ns();

    let mut srcs: Vec<ZoneSrc> = zones::rep();
    let n_rep = srcs.len();
    if !thorough {
        // zones with a gap that straddles midnight / a skipped or repeated
        // civil day, so that the quick tier sees those classes too
        for n in QUICK_EXTRA {
            if let Ok(bytes) = std::fs::read(format!("{}/{}", zones::SYS_DIR, n)) {
                srcs.push(ZoneSrc { name: n.to_string(), origin: "sys".into(), bytes, aliases: vec![] });
            }
        }
        // the synthetic zones (slim): back-to-back transitions, a 48-hour gap,
        // a skipped and a repeated civil day, sub-minute DST, +-24:59:59
        srcs.extend(zones::synth("slim"));
    }
    if thorough {
        let have: BTreeSet<String> = srcs.iter().map(|z| z.name.clone()).collect();
        for z in zones::sys(true) {
            if !have.contains(&z.name) {
                srcs.push(z);
            }
        }
        srcs.extend(zones::synth("slim"));
        srcs.extend(zones::synth("fat"));
    }
    let (pool, cal_only) = span_pool(thorough);
    r.count("span_pool", pool.len() as u64);
    let nb = neighbourhood();

    // load all zones once
    let loaded: Vec<(bool, Pair)> = srcs
        .par_iter()
        .enumerate()
        .filter_map(|(i, s)| match zones::load_pair(s) {
            Ok(p) => Some((i < n_rep, p)),
            Err(_) => {
                t.zones_not_loaded.fetch_add(1, Relaxed);
                None
            }
        })
        .collect();
    // zones that are not TZif data: POSIX rule strings and fixed offsets (the
    // arithmetic is the same code, the civil -> instant step is not)
    let mut loaded = loaded;
    for ps in ["EST5EDT,M3.2.0,M11.1.0", "<+1030>-10:30<+11>-11,M10.1.0,M4.1.0"] {
        match zones::load_posix_pair(ps) {
            Ok(p) => loaded.push((true, p)),
            Err(e) => panic!("POSIX zone {}: {}", ps, e),
        }
    }
    for (utoff, name) in [(19_800, "+05:30"), (93_599, "+25:59:59"), (-93_599, "-25:59:59")] {
        loaded.push((
            true,
            Pair {
                name: name.to_string(),
                origin: "fixed".into(),
                model: rtz::zone_fixed(utoff, name),
                jiff: TimeZone::fixed(Offset::from_seconds(utoff).expect("offset in range")),
            },
        ));
    }
    let loaded = loaded;
    t.zones.fetch_add(loaded.len() as u64, Relaxed);


    // -------------------------------------------------------------------
    // spans
    // -------------------------------------------------------------------
    let run_span = |cx: &Ctx, sec: &str, start: i128, only_cal: Option<i32>, ops_err: u8, both_blocks: bool| -> (u64, u64) {
        let Some(z) = cx.start(sec, start) else { return (0, 0) };
        let head = cx.case_head(start);
        let mut n = 0u64;
        let mut k = 0u64;
        for ps in &pool {
            if let Some(id) = only_cal {
                if ps.cal_id != id {
                    continue;
                }
            }
            if ps.second && !both_blocks {
                continue;
            }
            let pa = parts(&ps.sp, 1);
            let pb = parts(&ps.sp, -1);
            let add = cx.model_add(start, &pa);
            let sub = cx.model_add(start, &pb);
            for w in [add, sub] {
                if let Want::Ok(_) = w {
                    if ps.big {
                        t.big_cal_ok.fetch_add(1, Relaxed);
                        if ps.sp[..4].iter().filter(|&&x| x != 0).count() + ps.sp[4..].iter().any(|&x| x != 0) as usize >= 2 {
                            t.big_cal_mixed_ok.fetch_add(1, Relaxed);
                        }
                    }
                    if pa.cal_nonzero && ps.sp[4..].iter().filter(|&&x| x != 0).count() == 1 {
                        t.time_single_with_cal_ok.fetch_add(1, Relaxed);
                    }
                }
            }
            let case = |op: &str| format!("{} {} {}", head, op, fmt_sp(&ps.sp));
            k += six_ops!(cx, sec, "span", &z, ps.span, add, sub, pa.sign, ops_err, case);
            n += 1;
        }
        (n, k)
    };

    r.section("span", || {
        loaded.par_iter().for_each(|(is_rep, pair)| {
            let taint = taint_windows(&pair.model);
            let cx = Ctx { r: &r, t: &t, pair, taint, ts_min, ts_max };
            let ks = select_transitions(&pair.model, thorough, *is_rep);
            t.transitions.fetch_add(ks.len() as u64, Relaxed);
            // the second block of the pool and the extra argument / operator
            // forms probe the span decomposition and trivial forwarders, not
            // the zone's data: in the thorough tier they are run from every
            // zone's anchors, but around transitions only for the
            // representative, synthetic, POSIX and fixed zones
            let wide = !thorough || *is_rep || pair.origin != "sys";
            ks.par_iter().for_each(|&k| {
                let tr = pair.model.pieces[k].start as i128 * NS;
                let (mut n, mut c, mut s) = (0u64, 0u64, 0u64);
                for d in &nb {
                    let (a, b) = run_span(&cx, "span", tr + d, None, if *d != 0 { 0 } else if wide { 7 } else { 1 }, wide && SUB_NB.contains(d));
                    n += a;
                    c += b;
                    s += 1;
                }
                // landers: starts from which each calendar span lands inside
                // the gap/fold window of this transition
                let ob = off(&pair.model, k - 1);
                let oa = off(&pair.model, k);
                if ob != oa {
                    let lo = (pair.model.pieces[k].start + ob.min(oa)) as i128 * NS;
                    let hi = (pair.model.pieces[k].start + ob.max(oa)) as i128 * NS;
                    let mid = lo + ((hi - lo) / 2 / NS) * NS + 500_000_000;
                    for target in [lo, mid, hi - 1] {
                        for (ci, csp) in cal_only.iter().enumerate() {
                            let half = cal_only.len() / 2;
                            let id = if ci < half { ci as i32 + 1 } else { -((ci - half) as i32 + 1) };
                            let Some(c0) = inverse_civil(target, csp) else { continue };
                            let Some(st) = cx.compat(c0, false) else { continue };
                            let (a, b) = run_span(&cx, "span", st, Some(id), 0, wide);
                            n += a;
                            c += b;
                            s += 1;
                        }
                    }
                }
                r.add_states(n);
                r.add_transitions(c);
                r.add_validated(c);
                t.starts.fetch_add(s, Relaxed);
            });
            // zone-level anchors
            let an = anchors(&cx);
            let (mut n, mut c) = (0u64, 0u64);
            for &st in &an {
                let (a, b) = run_span(&cx, "span", st, None, if wide { 3 } else { 1 }, true);
                n += a;
                c += b;
            }
            r.add_states(n);
            r.add_transitions(c);
            r.add_validated(c);
            t.starts.fetch_add(an.len() as u64, Relaxed);
        });
    });

    // -------------------------------------------------------------------
    // absolute durations and instant-exact time-only spans at the limits
    // -------------------------------------------------------------------
    r.section("duration", || {
        let range = ts_max - ts_min;
        let mut sd: Vec<i128> = vec![0];
        for d in [1, H, 24 * H, range, range + 1] {
            sd.push(d);
            sd.push(-d);
        }
        // the duration's own nanosecond count crossing 2^63 (a duration of
        // about 292 years: mid-range for a zoned datetime) and 2^53, with the
        // fraction at both ends of the last second
        for d in [(1i128 << 63) - 1, 1i128 << 63, (1i128 << 63) + 145_224_191, 9_223_372_036_999_999_999, 9_223_372_035_999_999_999, (1i128 << 53) + 1] {
            sd.push(d);
            sd.push(-d);
        }
        let sd_extreme = [
            SignedDuration::MIN,
            SignedDuration::MAX,
            // negation of the right-hand side leaves the signed range
            SignedDuration::new(i64::MIN, 0),
            SignedDuration::new(i64::MIN, -1),
            SignedDuration::new(i64::MIN + 1, 0),
            SignedDuration::new(i64::MAX, 0),
        ];
        // 2^63 s is where the unsigned -> signed conversion (add) and the
        // negation of an unsigned duration (sub) change code path
        let p63 = 1u64 << 63;
        let ud: Vec<(u64, u32)> = vec![
            (0, 0),
            (0, 1),
            (3_600, 0),
            (86_400, 0),
            (u64::MAX, 999_999_999),
            (p63 - 1, 999_999_999),
            (p63, 0),
            (p63, 999_999_999),
            (p63 + 1, 0),
        ];
        loaded.par_iter().for_each(|(is_rep, pair)| {
            let taint = taint_windows(&pair.model);
            let cx = Ctx { r: &r, t: &t, pair, taint, ts_min, ts_max };
            let ks = select_transitions(&pair.model, thorough, *is_rep);
            let mut starts: BTreeSet<i128> = BTreeSet::new();
            // starts from which the compound-assignment / by-reference forms
            // are exercised too (incl. into their panic)
            let mut full: BTreeSet<i128> = BTreeSet::new();
            for &k in &ks {
                let tr = pair.model.pieces[k].start as i128 * NS;
                for d in [-25 * H, -H, -1, 0, 1, H, 25 * H] {
                    starts.insert(tr + d);
                }
                full.insert(tr);
            }
            for x in [ts_min, ts_min + 1, ts_min + NS, 0, ts_max - 1, ts_max, ts_max - 999_999_999, ts_max - 999_999_999 - NS] {
                starts.insert(x);
                full.insert(x);
            }
            let starts: Vec<i128> = starts.into_iter().collect();
            starts.par_iter().for_each(|&start| {
                let Some(z) = cx.start("duration", start) else { return };
                let mask: u8 = if full.contains(&start) && (!thorough || *is_rep || pair.origin != "sys") { 7 } else { 1 };
                let head = cx.case_head(start);
                let mut k = 0u64;
                let mut n = 0u64;
                let exact = |delta: i128| -> Want {
                    let x = start + delta;
                    if !cx.in_ts(x) {
                        Want::Err
                    } else if cx.tainted(floor_sec(x)) {
                        Want::Taint
                    } else {
                        Want::Ok(x)
                    }
                };
                let mut ds: Vec<i128> = sd.clone();
                // durations that hit the limits exactly, and one ns beyond
                for d in [ts_max - start, ts_max - start + 1, ts_min - start, ts_min - start - 1] {
                    ds.push(d);
                    ds.push(-d);
                }
                // whole seconds that reach the last / first whole second of
                // the range and one second beyond (the seconds-only path of
                // Timestamp arithmetic when the start has no fraction)
                let s0 = floor_sec(start) as i128;
                for d in [zones::TS_MAX_SEC as i128 - s0, zones::TS_MAX_SEC as i128 - s0 + 1, zones::TS_MIN_SEC as i128 - s0, zones::TS_MIN_SEC as i128 - s0 - 1] {
                    ds.push(d * NS);
                    ds.push(-d * NS);
                }
                for &d in &ds {
                    let dur = SignedDuration::new((d / NS) as i64, (d % NS) as i32);
                    assert_eq!(dur.as_nanos(), d);
                    let case = |op: &str| format!("{} {} SignedDuration({}ns)", head, op, d);
                    k += six_ops!(&cx, "duration", "SignedDuration", &z, dur, exact(d), exact(-d), d.signum() as i8, mask, case);
                    n += 1;
                    // the same as a time-only span {s, ns}
                    let s = d / NS;
                    let f = d % NS;
                    if s.abs() <= 631_107_417_600 {
                        let mut sp = [0i64; 10];
                        sp[6] = s as i64;
                        sp[9] = f as i64;
                        let span = to_span(&sp);
                        let case = |op: &str| format!("{} {} {}", head, op, fmt_sp(&sp));
                        k += six_ops!(&cx, "duration", "span", &z, span, exact(d), exact(-d), d.signum() as i8, mask, case);
                        n += 1;
                    }
                }
                for (i, sp) in reset_spans().into_iter().enumerate() {
                    let case = |op: &str| format!("{} {} reset-span#{}(h=1)", head, op, i);
                    k += six_ops!(&cx, "duration", "span", &z, sp, exact(H), exact(-H), 1, mask, case);
                    n += 1;
                }
                for dur in sd_extreme {
                    let d = dur.as_nanos();
                    let case = |op: &str| format!("{} {} SignedDuration({}ns)", head, op, d);
                    k += six_ops!(&cx, "duration", "SignedDuration", &z, dur, exact(d), exact(-d), d.signum() as i8, mask, case);
                    n += 1;
                }
                let mut uds = ud.clone();
                if ts_max - start >= 0 {
                    let d = ts_max - start;
                    uds.push(((d / NS) as u64, (d % NS) as u32));
                    let d = d + 1;
                    uds.push(((d / NS) as u64, (d % NS) as u32));
                    let d = start - ts_min;
                    uds.push(((d / NS) as u64, (d % NS) as u32));
                    let d = d + 1;
                    uds.push(((d / NS) as u64, (d % NS) as u32));
                }
                for &(s, f) in &uds {
                    let dur = UDur::new(s, f);
                    let d = s as i128 * NS + f as i128;
                    let case = |op: &str| format!("{} {} std::Duration({}s,{}ns)", head, op, s, f);
                    k += six_ops!(&cx, "duration", "std::Duration", &z, dur, exact(d), exact(-d), d.signum() as i8, mask, case);
                    n += 1;
                }
                r.add_states(n);
                r.add_transitions(k);
                r.add_validated(k);
            });
        });
    });

    // -------------------------------------------------------------------
    // day / month navigation
    // -------------------------------------------------------------------
    r.section("day_ops", || {
        loaded.par_iter().for_each(|(is_rep, pair)| {
            let taint = taint_windows(&pair.model);
            let cx = Ctx { r: &r, t: &t, pair, taint, ts_min, ts_max };
            let zm = &pair.model;
            let ks = select_transitions(zm, thorough, *is_rep);
            let mut starts: BTreeSet<i128> = BTreeSet::new();
            for &k in &ks {
                let tr = zm.pieces[k].start as i128 * NS;
                for d in &nb {
                    starts.insert(tr + d);
                }
                // both civil days touched by the transition, at their model
                // start, end and middle
                for d in [(zm.pieces[k].start - 1 + off(zm, k - 1)).div_euclid(86_400), (zm.pieces[k].start + off(zm, k)).div_euclid(86_400)] {
                    for dd in [d - 1, d, d + 1] {
                        if let (Some(a), Some(b)) = (first_instant_of_day(zm, dd), last_second_of_day(zm, dd)) {
                            for x in [a as i128 * NS, a as i128 * NS + 1, (a + (b - a) / 2) as i128 * NS, b as i128 * NS + 999_999_999] {
                                starts.insert(x);
                            }
                        }
                    }
                }
            }
            for x in anchors(&cx) {
                starts.insert(x);
            }
            let starts: Vec<i128> = starts.into_iter().collect();
            starts.par_iter().for_each(|&start| {
                let Some(z) = cx.start("day_ops", start) else { return };
                let head = cx.case_head(start);
                let civil = cx.local(start);
                let day = civil.div_euclid(DAY_NS) as i64;
                let tod = civil.rem_euclid(DAY_NS);
                let (y, m, _d) = cal::civil_from_days(day);
                let mut k = 0u64;
                let shift = |delta_day: i64| -> Want {
                    let d2 = day + delta_day;
                    if d2 < cal::min_day() || d2 > cal::max_day() {
                        Want::Err
                    } else {
                        cx.civil_to_want(d2 as i128 * DAY_NS + tod)
                    }
                };
                // tomorrow / yesterday / first_of_month / last_of_month:
                // civil edit, then compatible
                let w = shift(1);
                cx.checked("day_ops", "Zoned::tomorrow", "value", &|| format!("{} tomorrow", head), guard(|| z.tomorrow().ok().map(|v| cx.view(&v))), w);
                let w = shift(-1);
                cx.checked("day_ops", "Zoned::yesterday", "value", &|| format!("{} yesterday", head), guard(|| z.yesterday().ok().map(|v| cx.view(&v))), w);
                let w = cx.civil_to_want(cal::days_from_civil(y, m, 1) as i128 * DAY_NS + tod);
                cx.checked("day_ops", "Zoned::first_of_month", "value", &|| format!("{} first_of_month", head), guard(|| z.first_of_month().ok().map(|v| cx.view(&v))), w);
                let w = cx.civil_to_want(cal::days_from_civil(y, m, cal::days_in_month(y, m)) as i128 * DAY_NS + tod);
                cx.checked("day_ops", "Zoned::last_of_month", "value", &|| format!("{} last_of_month", head), guard(|| z.last_of_month().ok().map(|v| cx.view(&v))), w);
                k += 4;
                // first_of_year / last_of_year: same rule
                let w = cx.civil_to_want(cal::days_from_civil(y, 1, 1) as i128 * DAY_NS + tod);
                cx.checked("day_ops", "Zoned::first_of_year", "value", &|| format!("{} first_of_year", head), guard(|| z.first_of_year().ok().map(|v| cx.view(&v))), w);
                let w = cx.civil_to_want(cal::days_from_civil(y, 12, 31) as i128 * DAY_NS + tod);
                cx.checked("day_ops", "Zoned::last_of_year", "value", &|| format!("{} last_of_year", head), guard(|| z.last_of_year().ok().map(|v| cx.view(&v))), w);
                k += 2;
                // nth_weekday (counted from the neighbouring day, never the
                // day itself) and nth_weekday_of_month: civil date by plain
                // counting, same clock time, compatible
                let cur_wd = cal::weekday_from_days(day) as i64;
                for wd in 0..7i64 {
                    let jwd = Weekday::from_sunday_zero_offset(wd as i8).unwrap();
                    for nth in NTHS {
                        let w = if nth == 0 {
                            Want::Err
                        } else if nth > 0 {
                            let first = match (wd - cur_wd).rem_euclid(7) {
                                0 => 7,
                                x => x,
                            };
                            shift(first + 7 * (nth - 1))
                        } else {
                            let first = match (cur_wd - wd).rem_euclid(7) {
                                0 => 7,
                                x => x,
                            };
                            shift(-(first + 7 * (-nth - 1)))
                        };
                        cx.count_want(w);
                        cx.checked("day_ops", "Zoned::nth_weekday", "value", &|| format!("{} nth_weekday({},{})", head, nth, wd), guard(|| z.nth_weekday(nth as i32, jwd).ok().map(|v| cx.view(&v))), w);
                        k += 1;
                    }
                    // the days of this month that fall on `wd`, by counting
                    let e0 = cal::days_from_civil(y, m, 1);
                    let in_month: Vec<i64> = (e0..e0 + cal::days_in_month(y, m)).filter(|&e| cal::weekday_from_days(e) as i64 == wd).collect();
                    for nth in NTHS_OF_MONTH {
                        let pick = if nth > 0 {
                            in_month.get(nth as usize - 1).copied()
                        } else if nth < 0 && (-nth) as usize <= in_month.len() {
                            Some(in_month[in_month.len() - (-nth) as usize])
                        } else {
                            None
                        };
                        let w = match pick {
                            None => Want::Err,
                            Some(e) => {
                                t.nth_of_month_found.fetch_add(1, Relaxed);
                                cx.civil_to_want(e as i128 * DAY_NS + tod)
                            }
                        };
                        cx.count_want(w);
                        cx.checked("day_ops", "Zoned::nth_weekday_of_month", "value", &|| format!("{} nth_weekday_of_month({},{})", head, nth, wd), guard(|| z.nth_weekday_of_month(nth as i8, jwd).ok().map(|v| cx.view(&v))), w);
                        k += 1;
                    }
                }
                // calendar facts and field accessors of the Zoned itself: those
                // of the civil datetime the model shows at this instant
                {
                    let (_, _, d) = cal::civil_from_days(day);
                    let doy = cal::day_of_year(y, m, d);
                    let leap = cal::is_leap(y);
                    let sec = (tod / NS) as i64;
                    let f = (tod % NS) as i64;
                    let want = (
                        (y, m, d, sec / 3_600, (sec / 60) % 60, sec % 60),
                        (f / 1_000_000, (f / 1_000) % 1_000, f % 1_000, f),
                        (cur_wd, doy, cal::days_in_month(y, m), cal::days_in_year(y), leap),
                        if leap && doy == 60 { None } else if leap && doy > 60 { Some(doy - 1) } else { Some(doy) },
                        if y >= 1 { (y, true) } else { (1 - y, false) },
                    );
                    match guard(|| {
                        (
                            (z.year() as i64, z.month() as i64, z.day() as i64, z.hour() as i64, z.minute() as i64, z.second() as i64),
                            (z.millisecond() as i64, z.microsecond() as i64, z.nanosecond() as i64, z.subsec_nanosecond() as i64),
                            (z.weekday().to_sunday_zero_offset() as i64, z.day_of_year() as i64, z.days_in_month() as i64, z.days_in_year() as i64, z.in_leap_year()),
                            z.day_of_year_no_leap().map(|x| x as i64),
                            {
                                let (ey, era) = z.era_year();
                                (ey as i64, era == jiff::civil::Era::CE)
                            },
                        )
                    }) {
                        Err(p) => r.viol("day_ops", &format!("Zoned field accessors/{}", panic_sig(&p)), head.clone(), p),
                        Ok(got) => {
                            if got != want {
                                r.viol("day_ops", "Zoned field accessors/value", head.clone(), format!("jiff {:?} model {:?}", got, want));
                            }
                            let dt_ok = guard(|| conv::dt_civil_ns(jiff::civil::DateTime::from_parts(z.date(), z.time())));
                            if dt_ok != Ok(civil) {
                                r.viol("day_ops", "Zoned::date+time/value", head.clone(), format!("jiff {:?} model {}", dt_ok, civil));
                            }
                        }
                    }
                    k += 2;
                }

                // start_of_day: least instant whose civil date is `day`
                let midnight = day * 86_400;
                if !cx.tainted(midnight) {
                    let first = first_instant_of_day(zm, day).expect("the day of an existing instant exists");
                    let fns = first as i128 * NS;
                    let (want, cls) = match resolve(zm, midnight) {
                        Res::Undef => (Want::Undef, "value"),
                        Res::Gap(g) => {
                            if zm.pieces[g].start + off(zm, g - 1) < midnight {
                                t.sod_gap_straddles.fetch_add(1, Relaxed);
                                (Want::Ok(fns), "value:gap-straddles-midnight")
                            } else {
                                t.sod_gap_at_midnight.fetch_add(1, Relaxed);
                                (Want::Ok(fns), "value")
                            }
                        }
                        Res::Fold(..) => {
                            t.sod_fold.fetch_add(1, Relaxed);
                            (Want::Ok(fns), "value")
                        }
                        Res::Unique(_) => (Want::Ok(fns), "value"),
                    };
                    let want = match want {
                        Want::Ok(x) if !cx.in_ts(x) => {
                            t.sod_err.fetch_add(1, Relaxed);
                            Want::Err
                        }
                        w => w,
                    };
                    if let Want::Ok(x) = want {
                        if cx.local(x).rem_euclid(DAY_NS) != 0 {
                            t.sod_not_midnight.fetch_add(1, Relaxed);
                        }
                        // length of this civil day (first instant of the next one)
                        if let Some(nx) = first_instant_of_day(zm, day + 1) {
                            match nx - first {
                                82_800 => t.day_23h.fetch_add(1, Relaxed),
                                90_000 => t.day_25h.fetch_add(1, Relaxed),
                                86_400 => 0,
                                x => {
                                    if x == 84_600 || x == 88_200 {
                                        t.day_half.fetch_add(1, Relaxed);
                                    } else if x >= 169_200 {
                                        t.day_47h_up.fetch_add(1, Relaxed);
                                    }
                                    t.day_other.fetch_add(1, Relaxed)
                                }
                            };
                        } else if day < cal::max_day() - 2 {
                            // the next civil date does not exist in this zone
                            t.day_before_skipped.fetch_add(1, Relaxed);
                        }
                    }
                    cx.count_want(want);
                    cx.checked("day_ops", "Zoned::start_of_day", cls, &|| format!("{} start_of_day", head), guard(|| z.start_of_day().ok().map(|v| cx.view(&v))), want);
                    k += 1;
                }

                // end_of_day: 23:59:59.999999999 of the civil day; in a fold
                // the later instant (both lie in the day); in a gap only
                // "no panic" is demanded (the property does not define it;
                // what jiff returns there is counted, not judged)
                let eod_c = (day as i128 + 1) * DAY_NS - 1;
                if !cx.tainted(floor_sec(eod_c)) {
                    let got = guard(|| z.end_of_day().ok().map(|v| cx.view(&v)));
                    let c_sec = floor_sec(eod_c);
                    match resolve(zm, c_sec) {
                        Res::Undef => {}
                        Res::Unique(s) => {
                            t.eod_unique.fetch_add(1, Relaxed);
                            let x = s as i128 * NS + 999_999_999;
                            let w = if cx.in_ts(x) { Want::Ok(x) } else { Want::Err };
                            cx.checked("day_ops", "Zoned::end_of_day", "value", &|| format!("{} end_of_day", head), got, w);
                        }
                        Res::Fold(_, b) => {
                            t.eod_fold.fetch_add(1, Relaxed);
                            let x = b as i128 * NS + 999_999_999;
                            let w = if cx.in_ts(x) { Want::Ok(x) } else { Want::Err };
                            cx.checked("day_ops", "Zoned::end_of_day", "value:fold", &|| format!("{} end_of_day", head), got, w);
                        }
                        Res::Gap(_) => {
                            t.eod_gap.fetch_add(1, Relaxed);
                            match got {
                                Err(p) => r.viol("day_ops", &format!("Zoned::end_of_day/{}", panic_sig(&p)), format!("{} end_of_day", head), p),
                                Ok(None) => {}
                                Ok(Some(v)) => {
                                    let last = last_second_of_day(zm, day).map(|s| s as i128 * NS + 999_999_999);
                                    if Some(v.ts) != last {
                                        t.eod_gap_not_last_instant.fetch_add(1, Relaxed);
                                    }
                                    if cx.local(v.ts).div_euclid(DAY_NS) as i64 != day {
                                        t.eod_gap_leaves_day.fetch_add(1, Relaxed);
                                    }
                                }
                            }
                        }
                    }
                    k += 1;
                }
                r.add_states(1);
                r.add_transitions(k);
                r.add_validated(k);
            });
        });
    });

    // -------------------------------------------------------------------
    // Zoned::with() single-field edits (default: prefer the original offset
    // when it is valid for the new civil datetime, else compatible)
    // -------------------------------------------------------------------
    r.section("with", || {
        loaded.par_iter().for_each(|(is_rep, pair)| {
            let taint = taint_windows(&pair.model);
            let cx = Ctx { r: &r, t: &t, pair, taint, ts_min, ts_max };
            let zm = &pair.model;
            let ks = select_transitions(zm, thorough, *is_rep);
            let mut starts: BTreeSet<i128> = BTreeSet::new();
            for &k in &ks {
                let tr = zm.pieces[k].start as i128 * NS;
                for d in [-25 * H, -H - 1_800 * NS, -H, -1_800 * NS, -1, 0, 1, 1_800 * NS, H, H + 1_800 * NS, 25 * H] {
                    starts.insert(tr + d);
                }
            }
            for x in anchors(&cx) {
                starts.insert(x);
            }
            let starts: Vec<i128> = starts.into_iter().collect();
            starts.par_iter().for_each(|&start| {
                let Some(z) = cx.start("with", start) else { return };
                let head = cx.case_head(start);
                let o0 = zm.utoff_at(floor_sec(start)) as i64;
                let civil = cx.local(start);
                let f0 = Fields::of(civil);
                let y = f0.y;
                let mut k = 0u64;

                // ---- every setter, default options (keep the original
                // offset when it is valid for the new civil datetime, else
                // compatible)
                let mut edits: Vec<Vec<Ed>> = vec![vec![]];
                for v in [0, 1, 2, 3, 12, 23, 24, -1] {
                    edits.push(vec![Ed::Hour(v)]);
                }
                for v in [0, 30, 59, 60, -1] {
                    edits.push(vec![Ed::Minute(v)]);
                }
                for v in [0, 59, 60, -1] {
                    edits.push(vec![Ed::Second(v)]);
                }
                for v in [0, 999_999_999, 1_000_000_000, -1] {
                    edits.push(vec![Ed::Subsec(v)]);
                }
                for v in [0, 1, 999, 1_000, -1] {
                    edits.push(vec![Ed::Ms(v)]);
                    edits.push(vec![Ed::Us(v)]);
                    edits.push(vec![Ed::Ns(v)]);
                }
                for v in [1, 15, 28, 29, 30, 31, 0, 32, -1] {
                    edits.push(vec![Ed::Day(v)]);
                }
                for v in 0..=13 {
                    edits.push(vec![Ed::Month(v)]);
                }
                for v in [y - 1, y + 1, 2024, 2023, 9999, -9999, 10_000, -10_000] {
                    edits.push(vec![Ed::Year(v)]);
                }
                for v in [1, 2023, 2024, 9999, 0, 10_000, -1] {
                    edits.push(vec![Ed::EraCE(v)]);
                }
                for v in [1, 2, 5, 10_000, 0, 10_001, -1] {
                    edits.push(vec![Ed::EraBCE(v)]);
                }
                for v in [1, 59, 60, 61, 365, 366, 0, 367, -1] {
                    edits.push(vec![Ed::Doy(v)]);
                    edits.push(vec![Ed::DoyNl(v)]);
                }
                for (dy, dm, dd) in [(y, f0.m, 1), (y, 12, 31), (2024, 2, 29), (2024, 3, 10), (2024, 11, 3), (2011, 12, 30), (-9999, 1, 1), (9999, 12, 31)] {
                    edits.push(vec![Ed::Date(dy, dm, dd)]);
                }
                // the civil dates next to this one (as tomorrow / yesterday)
                for dd in [-1i64, 1] {
                    let e = civil.div_euclid(DAY_NS) as i64 + dd;
                    if e >= cal::min_day() && e <= cal::max_day() {
                        let (a, b, c) = cal::civil_from_days(e);
                        edits.push(vec![Ed::Date(a, b, c)]);
                    }
                }
                for (a, b, c, d) in [(0, 0, 0, 0), (0, 30, 0, 0), (1, 30, 0, 0), (2, 30, 0, 0), (3, 0, 0, 0), (12, 0, 0, 500_000_000), (23, 59, 59, 999_999_999)] {
                    edits.push(vec![Ed::Time(a, b, c, d)]);
                }
                // several fields at once: validated together, in any order
                for mv in [2, 4, 7] {
                    edits.push(vec![Ed::Month(mv), Ed::Day(31)]);
                    edits.push(vec![Ed::Day(31), Ed::Month(mv)]);
                }
                edits.push(vec![Ed::Year(2023), Ed::Month(2), Ed::Day(29)]);
                edits.push(vec![Ed::Day(29), Ed::Month(2), Ed::Year(2024)]);
                edits.push(vec![Ed::Year(2023), Ed::Doy(366)]);
                edits.push(vec![Ed::Year(2024), Ed::Doy(366)]);
                edits.push(vec![Ed::Year(2024), Ed::DoyNl(365)]);
                edits.push(vec![Ed::Hour(2), Ed::Minute(30)]);
                edits.push(vec![Ed::Hour(1), Ed::Minute(59), Ed::Second(59), Ed::Subsec(999_999_999)]);
                edits.push(vec![Ed::Ms(1), Ed::Us(2), Ed::Ns(3)]);
                edits.push(vec![Ed::Ms(1), Ed::Subsec(5)]);
                edits.push(vec![Ed::Subsec(5), Ed::Ns(1)]);
                edits.push(vec![Ed::Year(2000), Ed::EraCE(1900)]);
                edits.push(vec![Ed::EraCE(1900), Ed::Year(2000)]);
                edits.push(vec![Ed::Date(2024, 3, 10), Ed::Time(2, 30, 0, 0)]);
                edits.push(vec![Ed::Date(2024, 11, 3), Ed::Time(1, 30, 0, 0)]);

                for eds in &edits {
                    let want = match apply_edits(&f0, eds) {
                        None => {
                            t.with_invalid.fetch_add(1, Relaxed);
                            Want::Err
                        }
                        Some(c2) => cx.with_resolve(c2, o0, Conf::Prefer, Dis::Compat).0,
                    };
                    let want = if eds.is_empty() { Want::Ok(start) } else { want };
                    cx.count_want(want);
                    let case = || format!("{} with(){}", head, fmt_edits(eds));
                    let got = guard(|| build_edits(z.with(), eds).build().ok().map(|v| cx.view(&v)));
                    cx.checked("with", &format!("Zoned::with(){}", sig_edits(eds)), "value", &case, got, want);
                    k += 1;
                }

                // ---- the options: offset x offset_conflict x disambiguation
                // on edits that move the clock across / into the transition
                let mut offs: Vec<Option<i64>> = vec![None, Some(o0)];
                let pi = zm.piece_index_at(floor_sec(start));
                for j in [pi.wrapping_sub(1), pi + 1] {
                    if j < zm.pieces.len() {
                        offs.push(Some(off(zm, j)));
                    }
                }
                for o in [o0 + 3_600, o0 - 1] {
                    offs.push(Some(o));
                }
                let mut seen = BTreeSet::new();
                offs.retain(|o| seen.insert(*o) && o.map_or(true, |s| s.abs() <= 93_599));
                // hours next to the start's own (starts are within 1 h 30 of
                // the transition, so these cross it or land in its window),
                // the half hour, and the neighbouring days
                let mut opt_edits: Vec<Vec<Ed>> = vec![vec![], vec![Ed::Minute(30)]];
                for dh in [-2i64, -1, 1, 2] {
                    opt_edits.push(vec![Ed::Hour((f0.h + dh).rem_euclid(24))]);
                }
                for dd in [-1i64, 1] {
                    if f0.d + dd >= 1 {
                        opt_edits.push(vec![Ed::Day(f0.d + dd)]);
                    }
                }
                // (the strategy mapping does not depend on the zone's data:
                // representative and synthetic zones only)
                let with_options = !thorough || *is_rep || pair.origin != "sys";
                for eds in opt_edits.iter().filter(|_| with_options) {
                    let Some(c2) = apply_edits(&f0, eds) else { continue };
                    for &given in &offs {
                        for conf in [Conf::Prefer, Conf::AlwaysOffset, Conf::AlwaysTz, Conf::Reject] {
                            for dis in [Dis::Compat, Dis::Earlier, Dis::Later, Dis::Reject] {
                                let (want, kind) = cx.with_resolve(c2, given.unwrap_or(o0), conf, dis);
                                cx.count_want(want);
                                match (want, kind) {
                                    (Want::Err, _) => t.with_opt_err.fetch_add(1, Relaxed),
                                    (Want::Ok(_), "gap") => t.with_opt_gap.fetch_add(1, Relaxed),
                                    (Want::Ok(_), "fold") => t.with_opt_fold.fetch_add(1, Relaxed),
                                    _ => 0,
                                };
                                let case = || format!("{} with(){}{}.offset_conflict({:?}).disambiguation({:?})", head, fmt_edits(eds), given.map_or(String::new(), |o| format!(".offset({})", o)), conf, dis);
                                let got = guard(|| {
                                    let mut w = build_edits(z.with(), eds);
                                    if let Some(o) = given {
                                        w = w.offset(Offset::from_seconds(o as i32).unwrap());
                                    }
                                    w.offset_conflict(conf.to()).disambiguation(dis.to()).build().ok().map(|v| cx.view(&v))
                                });
                                cx.checked("with", &format!("Zoned::with().offset_conflict({:?}).disambiguation({:?})", conf, dis), &format!("value:{}", kind), &case, got, want);
                                k += 1;
                            }
                        }
                    }
                }
                r.add_states(1);
                r.add_transitions(k);
                r.add_validated(k);
            });
        });
    });

    // -------------------------------------------------------------------
    // Timestamp arithmetic: time units move the instant exactly; a span with
    // any non-zero calendar unit (days and up) is an error
    // -------------------------------------------------------------------
    r.section("timestamp", || {
        let mut starts: BTreeSet<i128> = vf::pools::timestamps().into_iter().map(|x| x.as_nanosecond()).collect();
        for x in [ts_min + NS, ts_max - 999_999_999 - NS, 1_710_055_800 * NS, -1_601_670_600 * NS + 5] {
            starts.insert(x);
        }
        let starts: Vec<i128> = starts.into_iter().collect();
        let in_ts = |x: i128| x >= ts_min && x <= ts_max;
        starts.par_iter().for_each(|&start| {
            let ts = Timestamp::from_nanosecond(start).unwrap();
            let head = format!("Timestamp t={}", conv::fmt_ns(start));
            let mut k = 0u64;
            let mut n = 0u64;
            // (kind, delta or None for "has calendar units")
            let one = |kind: &str, case: &dyn Fn(&str) -> String, delta: Option<i128>, neg_hint: bool, got: [Result<Option<i128>, String>; 8]| -> u64 {
                // got: checked_add, checked_sub, saturating_add, saturating_sub, +, -, +=, -=
                let names = ["checked_add", "checked_sub", "saturating_add", "saturating_sub", "+", "-", "+=", "-="];
                for (i, g) in got.iter().enumerate() {
                    let dir: i128 = if i % 2 == 0 { 1 } else { -1 };
                    let op = format!("Timestamp::{}({})", names[i], kind);
                    let saturating = i == 2 || i == 3;
                    let operator = i >= 4;
                    // the exact result, None = error
                    let want: Option<i128> = match delta {
                        None => None,
                        Some(d) => {
                            let x = start + dir * d;
                            if in_ts(x) {
                                Some(x)
                            } else if saturating {
                                let down = if d == 0 { neg_hint != (dir < 0) } else { (dir * d) < 0 };
                                Some(if down { ts_min } else { ts_max })
                            } else {
                                None
                            }
                        }
                    };
                    match (g, want) {
                        (Err(p), None) if operator && (p.contains("overflow") || p.contains("failed")) => {
                            t.ts_op_panics.fetch_add(1, Relaxed);
                        }
                        (Err(p), _) => r.viol("timestamp", &format!("{}/{}", op, panic_sig(p)), case(names[i]), p.clone()),
                        (Ok(None), None) => {
                            t.ts_err.fetch_add(1, Relaxed);
                        }
                        (Ok(Some(x)), Some(w)) if *x == w => {
                            t.ts_ok.fetch_add(1, Relaxed);
                        }
                        (Ok(a), b) => {
                            let cls = if delta.is_none() { "calendar-units-accepted" } else { "value" };
                            r.viol("timestamp", &format!("{}/{}", op, cls), case(names[i]), format!("jiff {:?} model {:?}", a, b));
                        }
                    }
                }
                8
            };
            macro_rules! eight {
                ($x:expr) => {{
                    let x = $x;
                    let v = |r: Result<Timestamp, jiff::Error>| r.ok().map(|t| t.as_nanosecond());
                    [
                        guard(|| v(ts.checked_add(x))),
                        guard(|| v(ts.checked_sub(x))),
                        guard(|| v(ts.saturating_add(x))),
                        guard(|| v(ts.saturating_sub(x))),
                        guard(|| Some((ts + x).as_nanosecond())),
                        guard(|| Some((ts - x).as_nanosecond())),
                        guard(|| { let mut m = ts; m += x; Some(m.as_nanosecond()) }),
                        guard(|| { let mut m = ts; m -= x; Some(m.as_nanosecond()) }),
                    ]
                }};
            }
            for ps in &pool {
                let pa = parts(&ps.sp, 1);
                let delta = if pa.cal_nonzero { None } else { Some(pa.time_ns) };
                if delta.is_none() {
                    t.ts_cal_spans.fetch_add(1, Relaxed);
                }
                let case = |op: &str| format!("{} {} {}", head, op, fmt_sp(&ps.sp));
                k += one("span", &case, delta, pa.sign < 0, eight!(ps.span));
                n += 1;
            }
            // time-only spans whose calendar fields were set and reset to zero
            for (i, sp) in reset_spans().into_iter().enumerate() {
                let case = |op: &str| format!("{} {} reset-span#{}(h=1)", head, op, i);
                k += one("span", &case, Some(H), false, eight!(sp));
                n += 1;
            }
            // absolute durations
            let range = ts_max - ts_min;
            let mut ds: Vec<i128> = vec![0];
            for d in [1, NS, H, 24 * H, range, range + 1, ts_max - start, ts_max - start + 1, start - ts_min, start - ts_min + 1] {
                ds.push(d);
                ds.push(-d);
            }
            for &d in &ds {
                let dur = SignedDuration::new((d / NS) as i64, (d % NS) as i32);
                let case = |op: &str| format!("{} {} SignedDuration({}ns)", head, op, d);
                k += one("SignedDuration", &case, Some(d), d < 0, eight!(dur));
                n += 1;
                if d >= 0 {
                    let ud = UDur::new((d / NS) as u64, (d % NS) as u32);
                    let case = |op: &str| format!("{} {} std::Duration({}ns)", head, op, d);
                    k += one("std::Duration", &case, Some(d), false, eight!(ud));
                    n += 1;
                }
            }
            for dur in [SignedDuration::MIN, SignedDuration::MAX, SignedDuration::new(i64::MIN, 0), SignedDuration::new(i64::MAX, 0)] {
                let d = dur.as_nanos();
                let case = |op: &str| format!("{} {} SignedDuration({}ns)", head, op, d);
                k += one("SignedDuration", &case, Some(d), d < 0, eight!(dur));
                n += 1;
            }
            let p63 = 1u64 << 63;
            for (s, f) in [(u64::MAX, 999_999_999u32), (p63 - 1, 999_999_999), (p63, 0), (p63, 999_999_999), (p63 + 1, 0)] {
                let ud = UDur::new(s, f);
                let d = s as i128 * NS + f as i128;
                let case = |op: &str| format!("{} {} std::Duration({}s,{}ns)", head, op, s, f);
                k += one("std::Duration", &case, Some(d), false, eight!(ud));
                n += 1;
            }
            r.add_states(n);
            r.add_transitions(k);
            r.add_validated(k);
        });
    });


    // -------------------------------------------------------------------
    let g = |a: &AtomicU64| a.load(Relaxed);
    r.count("zones", g(&t.zones));
    r.count("zones_not_loadable(see C03)", g(&t.zones_not_loaded));
    r.count("transitions_probed", g(&t.transitions));
    r.count("span_start_instants", g(&t.starts));
    r.count("skipped_offset_at_start_disagrees_with_model(C03)", g(&t.skip_offset));
    r.count("skipped_near_rule_transition_outside_its_year(F7)", g(&t.taint));
    r.count("skipped_resolution_undefined", g(&t.undef));
    r.count("day_clamped_to_month_length", g(&t.clamped));
    r.count("start_of_day_not_midnight", g(&t.sod_not_midnight));
    r.count("start_of_day_gap_begins_at_midnight", g(&t.sod_gap_at_midnight));
    r.count("start_of_day_gap_straddles_midnight", g(&t.sod_gap_straddles));
    r.count("start_of_day_midnight_in_fold", g(&t.sod_fold));
    r.count("start_of_day_not_representable", g(&t.sod_err));
    r.count("end_of_day_unambiguous", g(&t.eod_unique));
    r.count("end_of_day_in_fold", g(&t.eod_fold));
    r.count("end_of_day_in_gap", g(&t.eod_gap));
    r.count("end_of_day_in_gap_result_is_not_last_instant_of_day(not judged)", g(&t.eod_gap_not_last_instant));
    r.count("end_of_day_in_gap_result_is_in_another_civil_day(not judged)", g(&t.eod_gap_leaves_day));
    r.count("civil_days_23h", g(&t.day_23h));
    r.count("civil_days_25h", g(&t.day_25h));
    r.count("civil_days_other_length", g(&t.day_other));
    r.count("civil_days_23h30_or_24h30", g(&t.day_half));
    r.count("civil_days_47h_or_longer", g(&t.day_47h_up));
    r.count("civil_day_followed_by_a_skipped_date", g(&t.day_before_skipped));
    r.count("with_kept_original_offset_in_fold", g(&t.with_kept_offset_in_fold));
    r.count("with_invalid_field_combination", g(&t.with_invalid));
    r.count("with_options_error_expected", g(&t.with_opt_err));
    r.count("with_options_resolved_in_gap", g(&t.with_opt_gap));
    r.count("with_options_resolved_in_fold", g(&t.with_opt_fold));
    r.count("nth_weekday_of_month_exists", g(&t.nth_of_month_found));
    r.count("compound_assignment_and_by_reference_forms", g(&t.assign_ops));
    r.count("big_calendar_part_result_in_range", g(&t.big_cal_ok));
    r.count("big_calendar_part_mixed_with_second_unit_result_in_range", g(&t.big_cal_mixed_ok));
    r.count("calendar_part_plus_single_time_unit_result_in_range", g(&t.time_single_with_cal_ok));
    r.count("timestamp_spans_with_calendar_units", g(&t.ts_cal_spans));
    r.outcome("timestamp_result_ok", g(&t.ts_ok));
    r.outcome("timestamp_result_err", g(&t.ts_err));
    r.outcome("timestamp_operator_panicked_as_documented", g(&t.ts_op_panics));
    r.outcome("intermediate_civil_in_gap", g(&t.gap));
    r.outcome("intermediate_civil_in_fold", g(&t.fold));
    r.outcome("intermediate_civil_unambiguous", g(&t.unique));
    r.outcome("time_only_or_absolute", g(&t.time_only));
    r.outcome("result_ok", g(&t.ok));
    r.outcome("result_err", g(&t.err));
    r.outcome("operator_panicked_as_documented", g(&t.op_panics));
    r.outcome("saturated_to_min", g(&t.sat_min));
    r.outcome("saturated_to_max", g(&t.sat_max));
    if r.only_section.is_none() {
        r.require(g(&t.gap) > 1000 && g(&t.fold) > 1000 && g(&t.unique) > 1000, "intermediate civil datetimes land in gaps, folds and unambiguous times");
        r.require(g(&t.err) > 0 && g(&t.op_panics) > 0 && g(&t.sat_min) > 0 && g(&t.sat_max) > 0, "overflow in both directions occurs");
        r.require(g(&t.sod_not_midnight) > 0 && g(&t.sod_gap_at_midnight) > 0, "days that do not begin at midnight occur");
        r.require(g(&t.day_23h) > 0 && g(&t.day_25h) > 0, "23-hour and 25-hour days occur");
        r.require(g(&t.day_half) > 0 && g(&t.day_47h_up) > 0 && g(&t.day_before_skipped) > 0, "half-hour DST days, a civil day of 47 hours or more and a skipped civil date occur");
        r.require(g(&t.clamped) > 0, "month/year additions clamp the day");
        r.require(g(&t.with_kept_offset_in_fold) > 0, "with() keeps the later offset inside a fold");
        r.require(g(&t.with_opt_err) > 0 && g(&t.with_opt_gap) > 0 && g(&t.with_opt_fold) > 0, "with() options are exercised on gaps, folds and rejected combinations");
        r.require(g(&t.nth_of_month_found) > 0, "nth_weekday_of_month finds weekdays");
        r.require(g(&t.assign_ops) > 0, "compound assignment operators are exercised");
        r.require(g(&t.big_cal_mixed_ok) > 0, "day counts beyond the absolute epoch-day range, mixed with a second unit, give in-range results");
        r.require(g(&t.time_single_with_cal_ok) > 0, "calendar units plus exactly one time unit occur");
        r.require(g(&t.ts_ok) > 0 && g(&t.ts_err) > 0 && g(&t.ts_op_panics) > 0 && g(&t.ts_cal_spans) > 0, "Timestamp arithmetic: exact results, errors, documented panics, calendar-unit spans");
    }
    r.sample(json!({"case": "sys:America/New_York 2024-03-09T02:30-05:00 checked_add span{d=1}", "model": "civil 2024-03-10T02:30 is in the gap -> 2024-03-10T03:30-04:00 (instant 1710055800)"}));
    r.sample(json!({"case": "sys:America/New_York 2024-11-02T01:30-04:00 checked_add span{d=1,h=1}", "model": "civil 2024-11-03T01:30 is in the fold -> earlier instant 01:30-04:00, + 1h exact -> 01:30-05:00"}));
    r.sample(json!({"case": "sys:America/Sao_Paulo 2015-10-18T12:00-02:00 start_of_day", "model": "first instant of the civil day is 01:00-02:00 (gap begins at midnight)"}));
    r.note(format!(
        "zones: {} loaded (TZif, 2 POSIX strings, 3 fixed offsets); per selected transition: T (+) {{0,+-1ns,+-1s,+-30min,+-1h,+-1h30,+-23h,+-24h,+-25h,+-2d}} x {} spans (first block; the second block of {} spans from T (+) {{0,+-1ns,+-1h,+-24h}}) x 6 operations (x 12 at T itself and the anchors: += / -= / by-reference forms), plus landers (starts from which each calendar span lands at the start/middle/last ns of the transition's gap/fold window) and zone anchors (pool dates x 4 times of day, limits)",
        g(&t.zones),
        pool.iter().filter(|p| !p.second).count(),
        pool.iter().filter(|p| p.second).count()
    ));
    r.note("with(): every setter with in- and out-of-range values, multi-field chains, and {unset, current, neighbouring, bogus offsets} x 4 offset_conflict x 4 disambiguation on 8 clock edits around every transition (thorough: representative, synthetic, POSIX and fixed zones); day_ops: + first/last_of_year, nth_weekday {0,+-1,+-2,+-53} x 7 weekdays, nth_weekday_of_month {0,+-1,4,+-5,+-6} x 7, field accessors; timestamp: pool timestamps x whole span pool x {checked, saturating, operator, assign} x {add, sub}".to_string());
    r.finish();
}
