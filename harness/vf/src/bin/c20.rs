//! C20: TimeZone handles are memory-safe values under clone, drop, compare and
//! sharing.
//!
//! E2 (programs, no state merging): every program over a pool of three handle
//! slots and the mutators {new(heap kind, content), new(inline kind), clone,
//! move, drop} up to the depth bound is executed from scratch on real
//! `TimeZone` values; after *every* step all observers run (query every live
//! handle, compare every pair, wrap every handle in a `Zoned`) and a counting
//! allocator is compared with a boring reference model: a heap-backed zone's
//! blocks are live iff the model holds at least one handle of its group.
//!
//! E3 (schedules at handle-operation granularity): every interleaving of the
//! per-thread scripts of 2-3 threads is executed on real OS threads under a
//! baton that serialises whole operations in the enumerated order.
//!
//! With `--cfg c20_plain_alloc` (the Miri and AddressSanitizer builds) the
//! counting allocator is replaced by the system allocator and the sanitizer is
//! the memory-safety oracle.

use jiff::tz::{Offset, TimeZone};
use jiff::{Timestamp, Zoned};
use rayon::prelude::*;
use serde_json::json;
use std::sync::atomic::{AtomicI64, AtomicU64, AtomicUsize, Ordering};
use vf::{guard, panic_sig, Report};

// ---------------------------------------------------------------------------
// counting allocator
// ---------------------------------------------------------------------------

const NG: usize = 32; // groups per thread slot
const NSLOTS: usize = 512;
static LIVE: [AtomicI64; NG * NSLOTS] = [const { AtomicI64::new(0) }; NG * NSLOTS];
static DOUBLE_FREE: AtomicU64 = AtomicU64::new(0);
static NEXT_SLOT: AtomicUsize = AtomicUsize::new(0);

thread_local! {
    static TAG: std::cell::Cell<usize> = const { std::cell::Cell::new(0) };
    static SLOT: std::cell::Cell<usize> = const { std::cell::Cell::new(usize::MAX) };
}

fn my_slot() -> usize {
    SLOT.with(|s| {
        if s.get() == usize::MAX {
            s.set(NEXT_SLOT.fetch_add(1, Ordering::SeqCst) % NSLOTS);
        }
        s.get()
    })
}

#[cfg(not(c20_plain_alloc))]
mod counting {
    use super::*;
    use std::alloc::{GlobalAlloc, Layout, System};
    const HDR: usize = 16;
    const MAGIC_LIVE: u64 = 0xA11C_A11C_0000_0000;
    const MAGIC_FREED: u64 = 0xDEAD_F4EE_0000_0000;
    pub struct Counting;
    unsafe impl GlobalAlloc for Counting {
        unsafe fn alloc(&self, l: Layout) -> *mut u8 {
            if l.align() > HDR {
                return System.alloc(l);
            }
            let Ok(l2) = Layout::from_size_align(l.size() + HDR, HDR) else { return std::ptr::null_mut() };
            let p = System.alloc(l2);
            if p.is_null() {
                return p;
            }
            let tag = TAG.try_with(|t| t.get()).unwrap_or(0);
            (p as *mut u64).write(MAGIC_LIVE | tag as u64);
            (p as *mut u64).add(1).write(l.size() as u64);
            if tag != 0 {
                LIVE[tag].fetch_add(1, Ordering::SeqCst);
            }
            p.add(HDR)
        }
        unsafe fn dealloc(&self, p: *mut u8, l: Layout) {
            if l.align() > HDR {
                return System.dealloc(p, l);
            }
            let base = p.sub(HDR);
            let h = (base as *mut u64).read();
            if h & 0xFFFF_FFFF_0000_0000 != MAGIC_LIVE {
                // freed twice (or never ours): record, do not touch the heap again
                DOUBLE_FREE.fetch_add(1, Ordering::SeqCst);
                return;
            }
            let tag = (h & 0xFFFF_FFFF) as usize;
            if tag != 0 {
                LIVE[tag].fetch_sub(1, Ordering::SeqCst);
                // Quarantine tagged blocks, poisoned: a later use through a
                // dangling handle reads poison instead of recycled memory and
                // a second free is recognised by the header. The oldest
                // quarantined block of this thread is released in exchange.
                (base as *mut u64).write(MAGIC_FREED | tag as u64);
                std::ptr::write_bytes(p, 0xDD, l.size());
                let old = QUARANTINE.try_with(|q| {
                    let (ring, pos) = &mut *q.get();
                    let old = ring[*pos];
                    ring[*pos] = base;
                    *pos = (*pos + 1) % ring.len();
                    old
                });
                match old {
                    Ok(old) if !old.is_null() => {
                        let size = (old as *mut u64).add(1).read() as usize;
                        System.dealloc(old, Layout::from_size_align_unchecked(size + HDR, HDR));
                    }
                    Ok(_) => {}
                    Err(_) => System.dealloc(base, Layout::from_size_align_unchecked(l.size() + HDR, HDR)),
                }
                return;
            }
            (base as *mut u64).write(MAGIC_FREED);
            System.dealloc(base, Layout::from_size_align_unchecked(l.size() + HDR, HDR));
        }
    }
    thread_local! {
        static QUARANTINE: std::cell::UnsafeCell<([*mut u8; 256], usize)> = const { std::cell::UnsafeCell::new(([std::ptr::null_mut(); 256], 0)) };
    }
    #[global_allocator]
    static A: Counting = Counting;
}

fn live(group: usize) -> i64 {
    if cfg!(c20_plain_alloc) {
        return -1;
    }
    LIVE[group].load(Ordering::SeqCst)
}

// ---------------------------------------------------------------------------
// handle kinds
// ---------------------------------------------------------------------------

#[derive(Clone, Copy, PartialEq, Eq, Debug)]
enum Heap {
    Tzif,
    Posix,
}
#[derive(Clone, Copy, PartialEq, Eq, Debug)]
enum Inline {
    Utc,
    Unknown,
    FixedPlus,
    FixedMinus,
    Static,
}

/// A minimal TZif v2 file with one transition at t=1e9 (so that queries touch
/// the transition table and the designation strings) and a footer.
fn tiny_tzif(content: u8) -> Vec<u8> {
    let (o1, o2) = if content == 0 { (3600i32, 7200i32) } else { (-3600i32, -7200i32) };
    let abbrs = b"AAA\0BBB\0";
    let mut v1 = vec![];
    v1.extend_from_slice(b"TZif2");
    v1.extend_from_slice(&[0u8; 15]);
    for n in [0u32, 0, 0, 0, 1, 4] {
        v1.extend_from_slice(&n.to_be_bytes());
    }
    v1.extend_from_slice(&o1.to_be_bytes());
    v1.extend_from_slice(&[0, 0]);
    v1.extend_from_slice(b"AAA\0");
    let mut v2 = vec![];
    v2.extend_from_slice(b"TZif2");
    v2.extend_from_slice(&[0u8; 15]);
    for n in [0u32, 0, 0, 1, 2, abbrs.len() as u32] {
        v2.extend_from_slice(&n.to_be_bytes());
    }
    v2.extend_from_slice(&1_000_000_000i64.to_be_bytes());
    v2.push(1);
    v2.extend_from_slice(&o1.to_be_bytes());
    v2.extend_from_slice(&[0, 0]);
    v2.extend_from_slice(&o2.to_be_bytes());
    v2.extend_from_slice(&[0, 4]);
    v2.extend_from_slice(abbrs);
    let mut out = v1;
    out.extend(v2);
    let p = -o2 / 3600;
    out.extend_from_slice(format!("\nBBB{}\n", p).as_bytes());
    out
}

fn posix_str(content: u8) -> &'static str {
    if content == 0 {
        "EST5EDT,M3.2.0,M11.1.0"
    } else {
        "CET-1CEST,M3.5.0,M10.5.0/3"
    }
}

static STATIC_TZ: TimeZone = jiff::tz::get!("America/New_York");

/// What a handle must answer: offsets at three probe instants, name, fixed offset.
#[derive(Clone, PartialEq, Eq, Debug)]
struct Answers {
    offs: [i32; 3],
    name: Option<String>,
    fixed: Option<i32>,
}

const PROBES: [i64; 3] = [0, 1_100_000_000, 1_720_000_000]; // 1970-01-01, 2004-11-09, 2024-07-03

#[derive(Clone, PartialEq, Eq, Debug)]
enum Desc {
    Heap(Heap, u8),
    Inline(Inline),
}

fn expected(d: &Desc) -> Answers {
    match d {
        Desc::Heap(Heap::Tzif, c) => {
            let (o1, o2) = if *c == 0 { (3600, 7200) } else { (-3600, -7200) };
            Answers { offs: [o1, o2, o2], name: Some(format!("Tiny/{}", c)), fixed: None }
        }
        Desc::Heap(Heap::Posix, 0) => Answers { offs: [-18000, -18000, -14400], name: None, fixed: None },
        Desc::Heap(Heap::Posix, _) => Answers { offs: [3600, 3600, 7200], name: None, fixed: None },
        Desc::Inline(Inline::Utc) => Answers { offs: [0, 0, 0], name: Some("UTC".into()), fixed: Some(0) },
        Desc::Inline(Inline::Unknown) => Answers { offs: [0, 0, 0], name: None, fixed: Some(0) },
        Desc::Inline(Inline::FixedPlus) => Answers { offs: [1, 1, 1], name: None, fixed: Some(1) },
        Desc::Inline(Inline::FixedMinus) => Answers { offs: [-1, -1, -1], name: None, fixed: Some(-1) },
        Desc::Inline(Inline::Static) => Answers { offs: [-18000, -18000, -14400], name: Some("America/New_York".into()), fixed: None },
    }
}

fn observe(tz: &TimeZone) -> Answers {
    let offs = [0, 1, 2].map(|i| tz.to_offset(Timestamp::from_second(PROBES[i]).unwrap()).seconds());
    Answers { offs, name: tz.iana_name().map(|s| s.to_string()), fixed: tz.to_fixed_offset().ok().map(|o| o.seconds()) }
}

fn make(d: &Desc, group: usize) -> TimeZone {
    match d {
        Desc::Heap(k, c) => {
            TAG.with(|t| t.set(group));
            let tz = match k {
                Heap::Tzif => TimeZone::tzif(&format!("Tiny/{}", c), &tiny_tzif(*c)).expect("tiny tzif"),
                Heap::Posix => TimeZone::posix(posix_str(*c)).expect("posix"),
            };
            TAG.with(|t| t.set(0));
            tz
        }
        Desc::Inline(Inline::Utc) => TimeZone::UTC,
        Desc::Inline(Inline::Unknown) => TimeZone::unknown(),
        Desc::Inline(Inline::FixedPlus) => TimeZone::fixed(Offset::from_seconds(1).unwrap()),
        Desc::Inline(Inline::FixedMinus) => TimeZone::fixed(Offset::from_seconds(-1).unwrap()),
        Desc::Inline(Inline::Static) => STATIC_TZ.clone(),
    }
}

// ---------------------------------------------------------------------------
// programs
// ---------------------------------------------------------------------------

#[derive(Clone, Copy, PartialEq, Eq, Debug)]
enum Act {
    NewHeap(u8, u8), // slot, content
    NewInline(u8),
    Clone(u8, u8), // from, to
    Move(u8, u8),
    Drop(u8),
}

#[derive(Clone)]
struct ModelSlot {
    desc: Desc,
    group: usize, // 0 for inline kinds
}

struct Machine {
    heap: Heap,
    inline: Inline,
    real: [Option<TimeZone>; 3],
    model: [Option<ModelSlot>; 3],
    groups_used: usize,
    base: usize,
}

impl Machine {
    fn new(heap: Heap, inline: Inline) -> Machine {
        let base = my_slot() * NG;
        Machine { heap, inline, real: [None, None, None], model: [None, None, None], groups_used: 0, base }
    }
    fn enabled(&self) -> Vec<Act> {
        let mut v = vec![];
        let first_empty = (0..3).find(|&i| self.model[i].is_none());
        let target_ok = |j: usize| self.model[j].is_some() || Some(j) == first_empty;
        for j in 0..3 {
            if target_ok(j) {
                v.push(Act::NewHeap(j as u8, 0));
                v.push(Act::NewHeap(j as u8, 1));
                v.push(Act::NewInline(j as u8));
            }
        }
        for i in 0..3 {
            if self.model[i].is_none() {
                continue;
            }
            for j in 0..3 {
                if i != j && target_ok(j) {
                    v.push(Act::Clone(i as u8, j as u8));
                    v.push(Act::Move(i as u8, j as u8));
                }
            }
            v.push(Act::Drop(i as u8));
        }
        v
    }
    /// Apply one action to the real handles and to the model.
    fn step(&mut self, a: Act) {
        match a {
            Act::NewHeap(j, c) => {
                self.groups_used += 1;
                let g = self.base + self.groups_used;
                let d = Desc::Heap(self.heap, c);
                let tz = make(&d, g);
                self.real[j as usize] = Some(tz); // drops the old handle, if any
                self.model[j as usize] = Some(ModelSlot { desc: d, group: g });
            }
            Act::NewInline(j) => {
                let d = Desc::Inline(self.inline);
                self.real[j as usize] = Some(make(&d, 0));
                self.model[j as usize] = Some(ModelSlot { desc: d, group: 0 });
            }
            Act::Clone(i, j) => {
                let c = self.real[i as usize].as_ref().unwrap().clone();
                self.real[j as usize] = Some(c);
                self.model[j as usize] = self.model[i as usize].clone();
            }
            Act::Move(i, j) => {
                let t = self.real[i as usize].take();
                self.real[j as usize] = t;
                self.model[j as usize] = self.model[i as usize].take();
            }
            Act::Drop(i) => {
                self.real[i as usize] = None;
                self.model[i as usize] = None;
            }
        }
    }
    /// Invariants after a step. Returns the first violated one.
    fn check(&self) -> Option<(String, String)> {
        if DOUBLE_FREE.load(Ordering::SeqCst) != 0 {
            DOUBLE_FREE.store(0, Ordering::SeqCst);
            return Some(("double-free".into(), "a block was freed twice".into()));
        }
        if !cfg!(c20_plain_alloc) {
            for k in 1..=self.groups_used {
                let g = self.base + k;
                let handles = self.model.iter().flatten().filter(|m| m.group == g).count();
                let l = live(g);
                if handles > 0 && l <= 0 {
                    return Some(("freed-while-handles-live".into(), format!("group {}: {} handles in the model but {} live blocks", k, handles, l)));
                }
                if handles == 0 && l != 0 {
                    return Some(("leak-after-last-handle-dropped".into(), format!("group {}: no handles but {} live blocks", k, l)));
                }
            }
        }
        // observers: query, compare, wrap
        for i in 0..3 {
            let (Some(tz), Some(m)) = (&self.real[i], &self.model[i]) else {
                if self.real[i].is_some() != self.model[i].is_some() {
                    return Some(("slot-mismatch".into(), format!("slot {}", i)));
                }
                continue;
            };
            let got = observe(tz);
            let want = expected(&m.desc);
            if got != want {
                return Some(("query-answer".into(), format!("slot {} ({:?}): got {:?} want {:?}", i, m.desc, got, want)));
            }
            #[allow(clippy::eq_op)]
            if !(tz == tz) {
                return Some(("eq-not-reflexive".into(), format!("slot {}", i)));
            }
            let z = Zoned::new(Timestamp::from_second(PROBES[2]).unwrap(), tz.clone());
            if z.offset().seconds() != want.offs[2] || z.time_zone() != tz {
                return Some(("wrap-in-zoned".into(), format!("slot {}", i)));
            }
            drop(z);
            for j in (i + 1)..3 {
                let (Some(tz2), Some(m2)) = (&self.real[j], &self.model[j]) else { continue };
                let want_eq = m.desc == m2.desc;
                let (a, b) = (tz == tz2, tz2 == tz);
                if a != b {
                    return Some(("eq-not-symmetric".into(), format!("slots {} {}", i, j)));
                }
                if a != want_eq {
                    return Some(("eq-value".into(), format!("slots {} {}: {:?} vs {:?} -> {} (want {})", i, j, m.desc, m2.desc, a, want_eq)));
                }
            }
        }
        None
    }
    fn finish(mut self) -> Option<(String, String)> {
        for i in 0..3 {
            self.real[i] = None;
            self.model[i] = None;
        }
        let r = self.check();
        // reset the group counters of this thread slot for the next program
        for k in 1..NG {
            LIVE[self.base + k].store(0, Ordering::SeqCst);
        }
        r
    }
}

struct Stats {
    programs: AtomicU64,
    steps: AtomicU64,
}

/// Depth-first enumeration of all maximal programs below `prefix`.
fn explore(r: &Report, sec: &str, heap: Heap, inline: Inline, prefix: &mut Vec<Act>, depth: usize, st: &Stats) {
    // replay the prefix from scratch (no state merging, no cloning of live machines)
    if prefix.len() == depth {
        run_program(r, sec, heap, inline, prefix, st);
        return;
    }
    let mut m = Machine::new(heap, inline);
    for a in prefix.iter() {
        m.step(*a);
    }
    let acts = m.enabled();
    let _ = m.finish();
    for a in acts {
        prefix.push(a);
        explore(r, sec, heap, inline, prefix, depth, st);
        prefix.pop();
    }
}

fn run_program(r: &Report, sec: &str, heap: Heap, inline: Inline, prog: &[Act], st: &Stats) {
    st.programs.fetch_add(1, Ordering::Relaxed);
    let case = || format!("{:?}/{:?} {:?}", heap, inline, prog);
    let res = guard(|| {
        let mut m = Machine::new(heap, inline);
        for (k, a) in prog.iter().enumerate() {
            m.step(*a);
            st.steps.fetch_add(1, Ordering::Relaxed);
            if let Some((sig, d)) = m.check() {
                let _ = m.finish();
                return Some((sig, format!("after step {} ({:?}): {}", k, a, d)));
            }
        }
        m.finish().map(|(s, d)| (s, format!("after dropping everything: {}", d)))
    });
    match res {
        Err(p) => r.viol(sec, &format!("program/{}", panic_sig(&p)), case(), p),
        Ok(Some((sig, d))) => r.viol(sec, &format!("program/{}:{:?}", sig, heap), case(), d),
        Ok(None) => {}
    }
}

// ---------------------------------------------------------------------------
// schedules (baton)
// ---------------------------------------------------------------------------

#[derive(Clone, Copy, Debug, PartialEq, Eq)]
enum TOp {
    Clone,
    Drop,
    Query,
    SendBack, // hand one of my handles to the main thread
}

/// All interleavings of per-thread op sequences, as a sequence of thread ids.
fn interleavings(lens: &[usize]) -> Vec<Vec<usize>> {
    fn rec(rem: &mut Vec<usize>, cur: &mut Vec<usize>, out: &mut Vec<Vec<usize>>) {
        if rem.iter().all(|&x| x == 0) {
            out.push(cur.clone());
            return;
        }
        for t in 0..rem.len() {
            if rem[t] > 0 {
                rem[t] -= 1;
                cur.push(t);
                rec(rem, cur, out);
                cur.pop();
                rem[t] += 1;
            }
        }
    }
    let mut out = vec![];
    rec(&mut lens.to_vec(), &mut vec![], &mut out);
    out
}

fn run_schedule(r: &Report, heap: Heap, scripts: &[Vec<TOp>], order: &[usize], group: usize) -> Option<(String, String)> {
    use std::sync::{Arc as StdArc, Condvar, Mutex};
    let d = Desc::Heap(heap, 0);
    let root = make(&d, group);
    let want = expected(&d);
    // baton: (position in `order`)
    let baton = StdArc::new((Mutex::new(0usize), Condvar::new()));
    let fail: StdArc<Mutex<Option<(String, String)>>> = StdArc::new(Mutex::new(None));
    let returned: StdArc<Mutex<Vec<TimeZone>>> = StdArc::new(Mutex::new(vec![]));
    let handles_in_model = StdArc::new(AtomicI64::new(1)); // the root
    let order: StdArc<Vec<usize>> = StdArc::new(order.to_vec());
    let mut joins = vec![];
    for (t, script) in scripts.iter().enumerate() {
        let mine = root.clone();
        handles_in_model.fetch_add(1, Ordering::SeqCst);
        let (baton, fail, returned, him, order, script, want) =
            (baton.clone(), fail.clone(), returned.clone(), handles_in_model.clone(), order.clone(), script.clone(), want.clone());
        joins.push(std::thread::spawn(move || {
            let mut hs: Vec<TimeZone> = vec![mine];
            for op in script {
                // wait for my turn
                let (m, cv) = &*baton;
                let mut pos = m.lock().unwrap();
                while order[*pos] != t {
                    pos = cv.wait(pos).unwrap();
                }
                match op {
                    TOp::Clone => {
                        if let Some(h) = hs.last() {
                            hs.push(h.clone());
                            him.fetch_add(1, Ordering::SeqCst);
                        }
                    }
                    TOp::Drop => {
                        if hs.pop().is_some() {
                            him.fetch_sub(1, Ordering::SeqCst);
                        }
                    }
                    TOp::Query => {
                        if let Some(h) = hs.last() {
                            let got = observe(h);
                            if got != want {
                                *fail.lock().unwrap() = Some(("schedule/query-answer".into(), format!("thread {}: {:?}", t, got)));
                            }
                        }
                    }
                    TOp::SendBack => {
                        if let Some(h) = hs.pop() {
                            returned.lock().unwrap().push(h);
                        }
                    }
                }
                // accounting after every operation, under the baton
                let handles = him.load(Ordering::SeqCst);
                let l = live(group);
                if !cfg!(c20_plain_alloc) && handles > 0 && l <= 0 {
                    *fail.lock().unwrap() = Some(("schedule/freed-while-handles-live".into(), format!("{} handles, {} live blocks", handles, l)));
                }
                *pos += 1;
                cv.notify_all();
            }
            // thread exit drops its remaining handles
            him.fetch_sub(hs.len() as i64, Ordering::SeqCst);
            drop(hs);
        }));
    }
    for j in joins {
        if j.join().is_err() {
            return Some(("schedule/thread-panicked".into(), String::new()));
        }
    }
    let _ = r;
    if let Some(f) = fail.lock().unwrap().take() {
        return Some(f);
    }
    // the root and everything sent back still answer correctly
    let back = std::mem::take(&mut *returned.lock().unwrap());
    for h in back.iter().chain(std::iter::once(&root)) {
        if observe(h) != want {
            return Some(("schedule/query-answer-after-join".into(), String::new()));
        }
    }
    if !cfg!(c20_plain_alloc) && live(group) <= 0 {
        return Some(("schedule/freed-while-handles-live".into(), "root still held".into()));
    }
    drop(back);
    drop(root);
    if !cfg!(c20_plain_alloc) && live(group) != 0 {
        let l = live(group);
        LIVE[group].store(0, Ordering::SeqCst);
        return Some(("schedule/leak-after-last-handle-dropped".into(), format!("{} live blocks", l)));
    }
    if DOUBLE_FREE.swap(0, Ordering::SeqCst) != 0 {
        return Some(("schedule/double-free".into(), String::new()));
    }
    None
}

fn main() {
    let r = Report::from_args("C20");
    let args: Vec<String> = std::env::args().collect();
    let depth_override = args.iter().position(|a| a == "--depth").map(|i| args[i + 1].parse::<usize>().unwrap());
    let only_programs = args.iter().any(|a| a == "--programs-only");
    let sanitizer = cfg!(c20_plain_alloc);
    let depth = depth_override.unwrap_or(if r.quick() { 5 } else { 6 });
    let st = Stats { programs: AtomicU64::new(0), steps: AtomicU64::new(0) };

    let inlines = [Inline::Utc, Inline::Unknown, Inline::FixedPlus, Inline::FixedMinus, Inline::Static];
    for heap in [Heap::Tzif, Heap::Posix] {
        for inline in inlines {
            let sec = format!("programs:{:?}+{:?}", heap, inline);
            r.section(&sec, || {
                // parallelise over the first two actions; every worker replays from scratch
                let mut prefixes: Vec<Vec<Act>> = vec![];
                let m0 = Machine::new(heap, inline);
                let a0 = m0.enabled();
                let _ = m0.finish();
                for a in a0 {
                    let mut m = Machine::new(heap, inline);
                    m.step(a);
                    let a1 = m.enabled();
                    let _ = m.finish();
                    for b in a1 {
                        prefixes.push(vec![a, b]);
                    }
                }
                if depth < 2 {
                    prefixes = vec![vec![]];
                }
                // thorough: one more level for one inline kind per heap kind
                let deeper = r.thorough() && depth_override.is_none() && matches!((heap, inline), (Heap::Tzif, Inline::Static) | (Heap::Posix, Inline::FixedMinus));
                let d = if deeper { depth + 1 } else { depth };
                if cfg!(miri) {
                    // no thread pool under Miri (crossbeam-epoch trips Stacked Borrows on its own)
                    for p in &prefixes {
                        let mut p = p.clone();
                        explore(&r, &sec, heap, inline, &mut p, d, &st);
                    }
                } else {
                    prefixes.par_iter().for_each(|p| {
                        let mut p = p.clone();
                        explore(&r, &sec, heap, inline, &mut p, d, &st);
                    });
                }
            });
        }
    }
    r.add_states(st.programs.load(Ordering::Relaxed));
    r.add_transitions(st.steps.load(Ordering::Relaxed));
    r.add_validated(st.steps.load(Ordering::Relaxed));
    r.count("programs", st.programs.load(Ordering::Relaxed));
    r.count("program_depth", depth as u64);

    if !only_programs {
        r.section("fixed-offsets", || {
            let n: u64 = (-93599..=93599i32)
                .into_par_iter()
                .map(|s| {
                    let res = guard(|| {
                        let o = Offset::from_seconds(s).unwrap();
                        let tz = TimeZone::fixed(o);
                        let c = tz.clone();
                        let ok = tz.to_fixed_offset().ok() == Some(o)
                            && tz.to_offset(Timestamp::UNIX_EPOCH) == o
                            && tz.to_offset(Timestamp::MIN) == o
                            && c == tz
                            && c.to_fixed_offset().ok() == Some(o)
                            && (s == 0 || TimeZone::fixed(Offset::from_seconds(-s).unwrap()) != tz);
                        drop(tz);
                        ok && c.to_offset(Timestamp::MAX) == o
                    });
                    match res {
                        Ok(true) => {}
                        Ok(false) => r.viol("fixed-offsets", "fixed/offset-not-reproduced", format!("offset {}s", s), "fixed(o) does not reproduce o"),
                        Err(p) => r.viol("fixed-offsets", &format!("fixed/{}", panic_sig(&p)), format!("offset {}s", s), p),
                    }
                    1
                })
                .sum();
            r.add_states(n);
            r.add_validated(n);
            r.count("fixed_offsets", n);
        });

        r.section("schedules", || {
            // program shapes: every script of length <= L over {clone, drop, query, send}
            let ops = [TOp::Clone, TOp::Drop, TOp::Query, TOp::SendBack];
            let mut scripts2: Vec<Vec<TOp>> = vec![];
            for a in ops {
                for b in ops {
                    scripts2.push(vec![a, b]);
                }
            }
            let mut scripts3: Vec<Vec<TOp>> = vec![];
            if r.thorough() {
                for a in ops {
                    for b in ops {
                        for c in ops {
                            scripts3.push(vec![a, b, c]);
                        }
                    }
                }
            }
            let mut n_sched = 0u64;
            let base = my_slot() * NG;
            for heap in [Heap::Tzif, Heap::Posix] {
                // two threads x two ops: 16 x 16 shapes x 6 orders
                let mut shapes: Vec<Vec<Vec<TOp>>> = vec![];
                for s1 in &scripts2 {
                    for s2 in &scripts2 {
                        shapes.push(vec![s1.clone(), s2.clone()]);
                    }
                }
                // three threads x one/two ops (diagonal sample of shapes is NOT used: all shapes of one op each)
                for a in ops {
                    for b in ops {
                        for c in ops {
                            shapes.push(vec![vec![a], vec![b], vec![c]]);
                        }
                    }
                }
                if r.thorough() {
                    for s1 in &scripts3 {
                        for s2 in &scripts3 {
                            shapes.push(vec![s1.clone(), s2.clone()]);
                        }
                    }
                    for s1 in &scripts2 {
                        for s2 in &scripts2 {
                            for c in ops {
                                shapes.push(vec![s1.clone(), s2.clone(), vec![c]]);
                            }
                        }
                    }
                }
                for shape in &shapes {
                    let lens: Vec<usize> = shape.iter().map(|s| s.len()).collect();
                    for order in interleavings(&lens) {
                        n_sched += 1;
                        let g = base + 1 + (n_sched as usize % (NG - 1));
                        LIVE[g].store(0, Ordering::SeqCst);
                        if let Some((sig, d)) = run_schedule(&r, heap, shape, &order, g) {
                            r.viol("schedules", &format!("{}:{:?}", sig, heap), format!("{:?} scripts {:?} order {:?}", heap, shape, order), d);
                        }
                    }
                }
            }
            r.add_states(n_sched);
            r.add_transitions(n_sched * 4);
            r.count("schedules", n_sched);
        });
    }

    r.outcome(if sanitizer { "build:plain-allocator(sanitizer is the oracle)" } else { "build:counting-allocator" }, 1);
    r.sample(json!({"program": format!("{:?}", [Act::NewHeap(0, 0), Act::Clone(0, 1), Act::Drop(0), Act::NewHeap(0, 1), Act::Move(1, 2)]),
        "observers_after_every_step": "live-block accounting per heap group, query(3 probes, iana_name, to_fixed_offset), eq reflexive/symmetric/value for every pair, wrap in Zoned"}));
    if r.only_section.is_none() {
        r.require(st.programs.load(Ordering::Relaxed) > 1000, "more than 1000 programs executed");
    }
    r.finish();
}
