//! C20: TimeZone handles are memory-safe values under clone, drop, compare and
//! sharing.
//!
//! E2 (programs, no state merging): every program over a pool of three handle
//! slots and the mutators {new(maker), clone, clone_from, self-assign, move,
//! swap, drop (, cache reset)} up to the depth bound is executed from scratch
//! on real `TimeZone` values; after *every* step all observers run (query
//! every live handle through every read path, compare every pair, move a
//! clone through `Zoned`) and a counting allocator is compared with a boring
//! reference model: a heap-backed zone's blocks are live iff the model holds
//! at least one handle of its group (the database cache counts as a holder).
//!
//! E3 (schedules at handle-operation granularity): every interleaving of the
//! per-thread scripts of 2-3 threads is executed on real OS threads under a
//! baton that serialises whole operations in the enumerated order. A
//! free-running pass of the same operations (no baton) exists for the builds
//! whose oracle can see a race in the count itself (Miri's data-race detector;
//! ASan for the resulting use-after-free).
//!
//! With `--cfg c20_plain_alloc` (the Miri and AddressSanitizer builds) the
//! counting allocator is replaced by the system allocator and the sanitizer is
//! the memory-safety oracle.
//!
//! Sections (all deterministic, no sampling):
//!   system-local            unnamed TZif handle from `TimeZone::try_system` (TZ=<file>)
//!   programs:<H>+<I>        10 classic pairs: heap kind H in {Tzif, Posix} (two contents) + inline kind I
//!   programs-classic:<..>   thorough: the four original mutators at full depth for the pairs whose wide run stays at the quick depth
//!   programs:Tzif+Posix     both Arc kinds in one pool (+ the static kind)
//!   programs:Db+<I>         handles cloned out of the bundled database cache, `reset` in the alphabet (serial)
//!   fixed-offsets           all 187 199 offsets through every read path; eq against bit-neighbours (quick) / all pairs (thorough)
//!   schedules               baton-serialised interleavings (threads kept between schedules; thread end = scheduled `Exit`)
//!   constructors            every public path that creates a TimeZone, each put through a life-cycle drill
//!   unwind                  panics while handles are live (moved in / borrowed / last handle / Zoned+Vec / other thread)
//!   eq-matrix               every pair/triple of a pool holding every kind (and equal data in different allocations)
//!   free-running            unserialised threads hammering clone/drop/eq/query and the database cache
//!
//! Robustness of the counting build on a broken tree: the allocator's view is
//! consulted before anything is read through a handle a wrong count could
//! have left dangling (also inside the observers, which clone and drop
//! themselves); sections that cannot do so are skipped once there is a
//! verdict; the enumeration runs in a child process and a fatal signal there
//! becomes a `crash/<signal>:<section>` violation (written by the child's
//! handler if its heap still works, by the parent otherwise).
//!
//! Driver invocations this binary is written for:
//!   counting build    c20 --tier T --out F
//!   ASan+LSan build   c20 --tier T --depth 4|5 --out F           (everything; all-pairs offsets left out)
//!   Miri              c20 --tier quick --depth 3 --programs-only --section programs:<pair> --out F
//!                     c20 --tier quick --section free-running --out F   (data-race detector on the unserialised threads)
//!   TSan (optional)   built with -Zsanitizer=thread -Zbuild-std: c20 --tier quick --section free-running --out F

use jiff::tz::{Offset, TimeZone, TimeZoneDatabase};
use jiff::{Timestamp, Zoned};
use rayon::prelude::*;
use serde_json::json;
use std::sync::atomic::{AtomicI64, AtomicU64, AtomicUsize, Ordering};
use vf::{guard, panic_sig, Report};

#[path = "c20/kinds.rs"]
mod kinds;
#[path = "c20/extra.rs"]
mod extra;
#[path = "c20/sched.rs"]
mod sched;

use kinds::{check_handle, make, want, wrap, Desc};

// ---------------------------------------------------------------------------
// counting allocator
// ---------------------------------------------------------------------------

pub const NG: usize = 32; // groups per thread slot
pub const NSLOTS: usize = 512;
pub static LIVE: [AtomicI64; NG * NSLOTS] = [const { AtomicI64::new(0) }; NG * NSLOTS];
/// second frees, per group of the block (index 0: untagged or unrecognisable)
pub static DFREE: [AtomicU64; NG * NSLOTS] = [const { AtomicU64::new(0) }; NG * NSLOTS];
/// `dealloc` called with a layout whose size differs from the one allocated
pub static BADLAYOUT: [AtomicU64; NG * NSLOTS] = [const { AtomicU64::new(0) }; NG * NSLOTS];
static NEXT_SLOT: AtomicUsize = AtomicUsize::new(0);

thread_local! {
    pub static TAG: std::cell::Cell<usize> = const { std::cell::Cell::new(0) };
    static SLOT: std::cell::Cell<usize> = const { std::cell::Cell::new(usize::MAX) };
}

pub fn my_slot() -> usize {
    SLOT.with(|s| {
        if s.get() == usize::MAX {
            s.set(NEXT_SLOT.fetch_add(1, Ordering::SeqCst) % NSLOTS);
        }
        s.get()
    })
}

#[cfg(not(c20_plain_alloc))]
mod counting {
    use super::*;
    use std::alloc::{GlobalAlloc, Layout, System};
    const HDR: usize = 16;
    const MAGIC_LIVE: u64 = 0xA11C_A11C_0000_0000;
    const MAGIC_FREED: u64 = 0xDEAD_F4EE_0000_0000;
    const MASK: u64 = 0xFFFF_FFFF_0000_0000;
    pub struct Counting;
    unsafe impl GlobalAlloc for Counting {
        unsafe fn alloc(&self, l: Layout) -> *mut u8 {
            if l.align() > HDR {
                return System.alloc(l);
            }
            let Ok(l2) = Layout::from_size_align(l.size() + HDR, HDR) else { return std::ptr::null_mut() };
            let p = System.alloc(l2);
            if p.is_null() {
                return p;
            }
            let tag = TAG.try_with(|t| t.get()).unwrap_or(0);
            (p as *mut u64).write(MAGIC_LIVE | tag as u64);
            (p as *mut u64).add(1).write(l.size() as u64);
            if tag != 0 {
                LIVE[tag].fetch_add(1, Ordering::SeqCst);
            }
            p.add(HDR)
        }
        unsafe fn dealloc(&self, p: *mut u8, l: Layout) {
            if l.align() > HDR {
                return System.dealloc(p, l);
            }
            let base = p.sub(HDR);
            let h = (base as *mut u64).read();
            if h & MASK != MAGIC_LIVE {
                // freed twice (or never ours): record against the block's
                // group if the header still says so, do not touch the heap again
                let tag = if h & MASK == MAGIC_FREED { (h & 0xFFFF_FFFF) as usize } else { 0 };
                DFREE[if tag < NG * NSLOTS { tag } else { 0 }].fetch_add(1, Ordering::SeqCst);
                return;
            }
            let tag = (h & 0xFFFF_FFFF) as usize;
            let size = (base as *mut u64).add(1).read() as usize;
            if size != l.size() {
                // freed as a different type than it was allocated as; release
                // with the true size so that the heap stays intact
                BADLAYOUT[tag].fetch_add(1, Ordering::SeqCst);
            }
            if tag != 0 {
                LIVE[tag].fetch_sub(1, Ordering::SeqCst);
                // Quarantine tagged blocks, poisoned: a later use through a
                // dangling handle reads poison instead of recycled memory and
                // a second free is recognised by the header. The oldest
                // quarantined block of this thread is released in exchange.
                (base as *mut u64).write(MAGIC_FREED | tag as u64);
                std::ptr::write_bytes(p, 0xDD, size);
                let old = QUARANTINE.try_with(|q| {
                    let (ring, pos) = &mut *q.get();
                    let old = ring[*pos];
                    ring[*pos] = base;
                    *pos = (*pos + 1) % ring.len();
                    old
                });
                match old {
                    Ok(old) if !old.is_null() => {
                        let size = (old as *mut u64).add(1).read() as usize;
                        System.dealloc(old, Layout::from_size_align_unchecked(size + HDR, HDR));
                    }
                    Ok(_) => {}
                    Err(_) => System.dealloc(base, Layout::from_size_align_unchecked(size + HDR, HDR)),
                }
                return;
            }
            (base as *mut u64).write(MAGIC_FREED);
            System.dealloc(base, Layout::from_size_align_unchecked(size + HDR, HDR));
        }
    }
    thread_local! {
        static QUARANTINE: std::cell::UnsafeCell<([*mut u8; 256], usize)> = const { std::cell::UnsafeCell::new(([std::ptr::null_mut(); 256], 0)) };
    }
    #[global_allocator]
    static A: Counting = Counting;
}

pub fn live(group: usize) -> i64 {
    if cfg!(c20_plain_alloc) {
        return -1;
    }
    LIVE[group].load(Ordering::SeqCst)
}

/// Takes (and clears) the allocator's complaints about one group.
pub fn alloc_complaint(group: usize) -> Option<(String, String)> {
    let d = DFREE[group].swap(0, Ordering::SeqCst);
    if d != 0 {
        return Some(("double-free".into(), format!("{} block(s) of the group freed twice", d)));
    }
    let b = BADLAYOUT[group].swap(0, Ordering::SeqCst);
    if b != 0 {
        return Some(("dealloc-layout-mismatch".into(), format!("{} block(s) freed with another size than allocated", b)));
    }
    None
}

pub fn reset_group(group: usize) {
    LIVE[group].store(0, Ordering::SeqCst);
    DFREE[group].store(0, Ordering::SeqCst);
    BADLAYOUT[group].store(0, Ordering::SeqCst);
}

pub const COUNTING: bool = !cfg!(c20_plain_alloc);

// ---------------------------------------------------------------------------
// a crash is a verdict, not an engine failure
// ---------------------------------------------------------------------------

static REPORT_PTR: std::sync::atomic::AtomicPtr<Report> = std::sync::atomic::AtomicPtr::new(std::ptr::null_mut());
static CUR_SECTION: std::sync::Mutex<String> = std::sync::Mutex::new(String::new());
static CRASHING: std::sync::atomic::AtomicBool = std::sync::atomic::AtomicBool::new(false);

/// SIGSEGV / SIGBUS / SIGILL / SIGABRT while jiff code runs on live handles
/// (a handle read after its zone was freed, one Arc kind read as the other):
/// the property is violated. The result file is written from the handler with
/// a `crash/<signal>:<section>` violation. Best effort: a second fault while
/// doing so ends the process with the signal's conventional exit status.
/// (The sanitizer builds keep their own handlers.)
extern "C" fn on_crash(sig: libc::c_int) {
    let r = REPORT_PTR.load(Ordering::SeqCst);
    if CRASHING.swap(true, Ordering::SeqCst) {
        // a second fault (while writing the result, or in the exit handlers
        // afterwards): the supervising process sorts out what is on disk
        unsafe { libc::_exit(128 + sig) }
    }
    if r.is_null() {
        unsafe { libc::_exit(128 + sig) }
    }
    let name = match sig {
        libc::SIGSEGV => "SIGSEGV",
        libc::SIGBUS => "SIGBUS",
        libc::SIGILL => "SIGILL",
        libc::SIGABRT => "SIGABRT",
        _ => "signal",
    };
    let sec = CUR_SECTION.try_lock().map(|s| s.clone()).unwrap_or_else(|_| "?".into());
    unsafe {
        (*r).viol(&sec, &format!("crash/{}:{}", name, sec), format!("section {}", sec), format!("the process received {} while operating on live TimeZone handles in this section (re-run the section in the AddressSanitizer build for the access)", name));
        std::ptr::read(r).finish()
    }
}

fn install_crash_handler(r: &Report) {
    if cfg!(c20_plain_alloc) || cfg!(miri) {
        return;
    }
    REPORT_PTR.store(r as *const Report as *mut Report, Ordering::SeqCst);
    unsafe {
        for sig in [libc::SIGSEGV, libc::SIGBUS, libc::SIGILL, libc::SIGABRT] {
            let mut sa: libc::sigaction = std::mem::zeroed();
            sa.sa_sigaction = on_crash as *const () as usize;
            sa.sa_flags = libc::SA_ONSTACK | libc::SA_NODEFER;
            libc::sigemptyset(&mut sa.sa_mask);
            libc::sigaction(sig, &sa, std::ptr::null_mut());
        }
    }
}

/// `Report::section` plus the bookkeeping the crash handler and the
/// supervisor need.
pub fn section(r: &Report, name: &str, f: impl FnOnce()) {
    if let Some(s) = &r.only_section {
        if s != name {
            return;
        }
    }
    if let Ok(mut s) = CUR_SECTION.lock() {
        *s = name.to_string();
    }
    if let Some(p) = progress_file(r.out.as_deref()) {
        let _ = std::fs::write(p, name);
    }
    r.section(name, f);
}

fn progress_file(out: Option<&str>) -> Option<String> {
    if cfg!(c20_plain_alloc) || cfg!(miri) {
        return None;
    }
    out.map(|o| format!("{}.section", o))
}

/// The counting build runs the enumeration in a child process. A wrong count
/// in jiff can corrupt the heap badly enough that the in-process crash
/// handler cannot finish writing the result; the parent (whose heap is fine)
/// then writes the verdict: a fatal signal while operating on `TimeZone`
/// handles is a violation of the property, not an engine failure. Other
/// non-zero exits of the child are passed on unchanged.
fn supervise(args: &[String]) {
    use std::os::unix::process::ExitStatusExt;
    let out = args.iter().position(|a| a == "--out").and_then(|i| args.get(i + 1)).cloned();
    let Some(out) = out else {
        // results go to stdout: nothing to salvage, run in-process
        return;
    };
    let exe = std::env::current_exe().expect("current_exe");
    let status = std::process::Command::new(exe).args(&args[1..]).arg("--c20-child").status().expect("spawn child");
    let progress = progress_file(Some(&out)).unwrap();
    let sec = std::fs::read_to_string(&progress).unwrap_or_else(|_| "?".into());
    let _ = std::fs::remove_file(&progress);
    let parsed: Option<serde_json::Value> = std::fs::read_to_string(&out).ok().and_then(|t| serde_json::from_str(&t).ok());
    let complete_with_verdict = parsed.as_ref().map(|v| v["violations"].as_array().map(|a| !a.is_empty()).unwrap_or(false)).unwrap_or(false);
    match status.code() {
        Some(code @ (0 | 3)) if parsed.is_some() => std::process::exit(code),
        Some(0 | 3) => {
            eprintln!("ENGINE-FAILURE: child ended normally but left no readable result");
            std::process::exit(2);
        }
        Some(code) if code <= 128 => std::process::exit(code), // not a crash: passed on as it is
        _ => {}
    }
    if complete_with_verdict {
        // the child's crash handler got the result out before the process died
        std::process::exit(0);
    }
    let signal = status.signal().or(status.code().map(|c| c - 128)).unwrap_or(0);
    let name = match signal {
        libc::SIGSEGV => "SIGSEGV",
        libc::SIGBUS => "SIGBUS",
        libc::SIGILL => "SIGILL",
        libc::SIGABRT => "SIGABRT",
        _ => {
            eprintln!("ENGINE-FAILURE: child ended with {:?} and left no usable result", status);
            std::process::exit(2);
        }
    };
    let r = Report::from_args("C20");
    r.viol(&sec, &format!("crash/{}:{}", name, sec), format!("section {}", sec), format!("the enumeration process died with {} while operating on live TimeZone handles in this section and could not write its own result (violations found before the crash are lost; re-run the section in the AddressSanitizer build for the access)", name));
    r.note("result written by the supervising process after the enumeration process crashed");
    r.finish()
}

// ---------------------------------------------------------------------------
// programs
// ---------------------------------------------------------------------------

#[derive(Clone, Copy, PartialEq, Eq, Debug)]
enum Act {
    New(u8, Desc),     // slot, maker (overwriting drops the old handle)
    Clone(u8, u8),     // from, to:  to = from.clone()
    CloneFrom(u8, u8), // from, to:  to.clone_from(&from)   (both live)
    SelfAssign(u8),    // i = i.clone()
    Move(u8, u8),      // to = take(from)
    Swap(u8, u8),      // mem::swap (both live)
    Drop(u8),
    Reset, // database runs only: TimeZoneDatabase::reset() (the cache lets go of its handles)
}

/// One run = a set of makers over which programs are enumerated.
#[derive(Clone)]
struct Run {
    label: String,
    makers: Vec<Desc>,
    db: bool,
    /// only the four original mutators {new, clone, move, drop} (the deeper thorough run)
    classic: bool,
}

#[derive(Clone, Copy)]
struct ModelSlot {
    desc: Desc,
    group: usize, // 0 for inline kinds
}

/// The boring reference model: what each slot holds and who holds each group.
#[derive(Clone)]
struct Model {
    slots: [Option<ModelSlot>; 3],
    groups_used: usize,
    group_desc: [Option<Desc>; NG],
    cache: [Option<usize>; 2], // database runs: group cached under name c
    base: usize,
}

impl Model {
    fn new(base: usize) -> Model {
        Model { slots: [None; 3], groups_used: 0, group_desc: [None; NG], cache: [None; 2], base }
    }
    fn enabled(&self, run: &Run) -> Vec<Act> {
        let mut v = vec![];
        let first_empty = (0..3).find(|&i| self.slots[i].is_none());
        let target_ok = |j: usize| self.slots[j].is_some() || Some(j) == first_empty;
        for j in 0..3 {
            if target_ok(j) {
                for m in &run.makers {
                    v.push(Act::New(j as u8, *m));
                }
            }
        }
        for i in 0..3 {
            if self.slots[i].is_none() {
                continue;
            }
            for j in 0..3 {
                if i != j && target_ok(j) {
                    v.push(Act::Clone(i as u8, j as u8));
                    v.push(Act::Move(i as u8, j as u8));
                    if self.slots[j].is_some() && !run.classic {
                        v.push(Act::CloneFrom(i as u8, j as u8));
                        if i < j {
                            v.push(Act::Swap(i as u8, j as u8));
                        }
                    }
                }
            }
            if !run.classic {
                v.push(Act::SelfAssign(i as u8));
            }
            v.push(Act::Drop(i as u8));
        }
        if run.db && self.cache.iter().any(|c| c.is_some()) {
            v.push(Act::Reset);
        }
        v
    }
    /// Group for a new handle of `d` (allocating a fresh group id unless the
    /// database cache already holds that zone).
    fn group_for_new(&mut self, d: Desc) -> usize {
        if !d.heap() {
            return 0;
        }
        if let Desc::Db(c) = d {
            if let Some(g) = self.cache[c as usize] {
                return g;
            }
        }
        self.groups_used += 1;
        let g = self.base + self.groups_used;
        self.group_desc[self.groups_used] = Some(d);
        if let Desc::Db(c) = d {
            self.cache[c as usize] = Some(g);
        }
        g
    }
    fn step(&mut self, a: Act) -> usize {
        match a {
            Act::New(j, d) => {
                let g = self.group_for_new(d);
                self.slots[j as usize] = Some(ModelSlot { desc: d, group: g });
                g
            }
            Act::Clone(i, j) | Act::CloneFrom(i, j) => {
                self.slots[j as usize] = self.slots[i as usize];
                0
            }
            Act::SelfAssign(_) => 0,
            Act::Move(i, j) => {
                self.slots[j as usize] = self.slots[i as usize].take();
                0
            }
            Act::Swap(i, j) => {
                self.slots.swap(i as usize, j as usize);
                0
            }
            Act::Drop(i) => {
                self.slots[i as usize] = None;
                0
            }
            Act::Reset => {
                self.cache = [None; 2];
                0
            }
        }
    }
    fn holders(&self, g: usize) -> usize {
        self.slots.iter().flatten().filter(|m| m.group == g).count() + self.cache.iter().filter(|c| **c == Some(g)).count()
    }
}

struct Machine<'a> {
    run: &'a Run,
    real: [Option<TimeZone>; 3],
    model: Model,
    db: Option<&'static TimeZoneDatabase>,
    /// live blocks of each group right after its zone was created
    l0: [i64; NG],
}

impl<'a> Machine<'a> {
    fn new(run: &'a Run) -> Machine<'a> {
        let base = my_slot() * NG;
        if COUNTING {
            for k in 1..NG {
                reset_group(base + k);
            }
        }
        let db = if run.db { Some(kinds::bundled_db_pregrown()) } else { None };
        Machine { run, real: [None, None, None], model: Model::new(base), db, l0: [0; NG] }
    }
    /// Apply one action to the real handles and to the model.
    fn step(&mut self, a: Act) {
        let g = self.model.step(a);
        match a {
            Act::New(j, d) => {
                let before = self.model.groups_used;
                let tz = make(&d, g, self.db);
                if g != 0 && g - self.model.base == before && self.l0[before] == 0 {
                    self.l0[before] = live(g);
                }
                self.real[j as usize] = Some(tz); // drops the old handle, if any
            }
            Act::Clone(i, j) => {
                let c = self.real[i as usize].as_ref().unwrap().clone();
                self.real[j as usize] = Some(c);
            }
            Act::CloneFrom(i, j) => {
                let (i, j) = (i as usize, j as usize);
                let (src, dst) = if i < j {
                    let (a, b) = self.real.split_at_mut(j);
                    (a[i].as_ref().unwrap(), b[0].as_mut().unwrap())
                } else {
                    let (a, b) = self.real.split_at_mut(i);
                    (b[0].as_ref().unwrap(), a[j].as_mut().unwrap())
                };
                dst.clone_from(src);
            }
            Act::SelfAssign(i) => {
                let c = self.real[i as usize].as_ref().unwrap().clone();
                *self.real[i as usize].as_mut().unwrap() = c;
            }
            Act::Move(i, j) => {
                let t = self.real[i as usize].take();
                self.real[j as usize] = t;
            }
            Act::Swap(i, j) => {
                let (a, b) = self.real.split_at_mut(j as usize);
                std::mem::swap(&mut a[i as usize], &mut b[0]);
            }
            Act::Drop(i) => {
                self.real[i as usize] = None;
            }
            Act::Reset => {
                self.db.unwrap().reset();
            }
        }
    }
    fn kind_label(&self, d: Option<Desc>) -> String {
        // classic runs keep their historical suffix (the run's heap kind)
        let heaps: std::collections::BTreeSet<&str> = self.run.makers.iter().filter(|m| m.heap()).map(|m| m.heap_label()).collect();
        if heaps.len() == 1 {
            return heaps.into_iter().next().unwrap().to_string();
        }
        d.map(|d| d.heap_label().to_string()).unwrap_or_else(|| self.run.label.clone())
    }
    /// Invariants after a step. Returns the first violated one as (signature, detail).
    fn check(&self, touched: [bool; 3]) -> Option<(String, String)> {
        self.check_inner(touched).map(|(class, d, detail)| (format!("{}:{}", class, self.kind_label(d)), detail))
    }
    /// The allocator's view of every group somebody holds.
    fn floor(&self, k: usize) -> i64 {
        // While anybody holds the zone none of its blocks may go away (for a
        // zone from the database the cache's own entry may: the name string
        // it keeps is released by `reset`).
        if matches!(self.model.group_desc[k], Some(Desc::Db(_))) {
            1
        } else {
            self.l0[k]
        }
    }
    fn all_alive(&self) -> bool {
        !COUNTING || (1..=self.model.groups_used).all(|k| self.model.holders(self.model.base + k) == 0 || live(self.model.base + k) >= self.floor(k))
    }
    fn check_inner(&self, touched: [bool; 3]) -> Option<(&'static str, Option<Desc>, String)> {
        if COUNTING {
            for k in 1..=self.model.groups_used {
                let g = self.model.base + k;
                let gd = self.model.group_desc[k];
                if let Some((s, d)) = alloc_complaint(g) {
                    let s = if s == "double-free" { "double-free" } else { "dealloc-layout-mismatch" };
                    return Some((s, gd, format!("group {}: {}", k, d)));
                }
                let handles = self.model.holders(g);
                let l = live(g);
                if handles > 0 && l < self.floor(k) {
                    return Some(("freed-while-handles-live", gd, format!("group {}: {} handles in the model but {} live blocks of {}", k, handles, l, self.l0[k])));
                }
                if handles == 0 && l != 0 {
                    return Some(("leak-after-last-handle-dropped", gd, format!("group {}: no handles but {} live blocks", k, l)));
                }
            }
        }
        // observers: query, compare, wrap
        for i in 0..3 {
            let (Some(tz), Some(m)) = (&self.real[i], &self.model.slots[i]) else {
                if self.real[i].is_some() != self.model.slots[i].is_some() {
                    return Some(("slot-mismatch", None, format!("slot {}", i)));
                }
                continue;
            };
            let md = Some(m.desc);
            let w = want(&m.desc);
            // slots the action did not name get the cheap reads only
            if let Err(e) = kinds::check_handle_opt(tz, w, touched[i]) {
                return Some(("query-answer", md, format!("slot {} ({:?}): {}", i, m.desc, e)));
            }
            #[allow(clippy::eq_op)]
            if !(tz == tz) {
                return Some(("eq-not-reflexive", md, format!("slot {}", i)));
            }
            if touched[i] {
                let other = (1..3).find_map(|k| self.real[(i + k) % 3].as_ref());
                if let Err((class, at)) = wrap(tz, other, w, &|| self.all_alive()) {
                    return Some((class, md, format!("slot {} ({:?}): {}", i, m.desc, at)));
                }
            }
            for j in (i + 1)..3 {
                let (Some(tz2), Some(m2)) = (&self.real[j], &self.model.slots[j]) else { continue };
                let want_eq = m.desc == m2.desc;
                let (a, b) = (tz == tz2, tz2 == tz);
                if a != b {
                    return Some(("eq-not-symmetric", md, format!("slots {} {}", i, j)));
                }
                if a != want_eq {
                    return Some(("eq-value", md, format!("slots {} {}: {:?} vs {:?} -> {} (want {})", i, j, m.desc, m2.desc, a, want_eq)));
                }
            }
        }
        None
    }
    fn finish(mut self) -> Option<(String, String)> {
        for i in 0..3 {
            self.real[i] = None;
            self.model.slots[i] = None;
        }
        if let Some(db) = self.db {
            db.reset();
            self.model.cache = [None; 2];
        }
        let r = self.check([true; 3]);
        // reset the group counters of this thread slot for the next program
        if COUNTING {
            for k in 1..NG {
                reset_group(self.model.base + k);
            }
        }
        r
    }
}

/// The slots an action names (they get the full set of observers; the others
/// the cheap reads and the comparisons).
fn touched(a: &Act) -> [bool; 3] {
    let mut t = [false; 3];
    match *a {
        Act::New(j, _) | Act::SelfAssign(j) => t[j as usize] = true,
        Act::Clone(i, j) | Act::CloneFrom(i, j) | Act::Move(i, j) | Act::Swap(i, j) => {
            t[i as usize] = true;
            t[j as usize] = true;
        }
        Act::Drop(_) => {}
        Act::Reset => t = [true; 3],
    }
    t
}

struct Stats {
    /// database runs share one process-wide cache: after the first violation
    /// there the cache itself may be unsound, the rest of the run is skipped
    db_broken: std::sync::atomic::AtomicBool,
    programs: AtomicU64,
    steps: AtomicU64,
    acts: [AtomicU64; 8],
}

fn act_index(a: &Act) -> usize {
    match a {
        Act::New(..) => 0,
        Act::Clone(..) => 1,
        Act::CloneFrom(..) => 2,
        Act::SelfAssign(..) => 3,
        Act::Move(..) => 4,
        Act::Swap(..) => 5,
        Act::Drop(..) => 6,
        Act::Reset => 7,
    }
}
const ACT_NAMES: [&str; 8] = ["new", "clone", "clone_from", "self_assign", "move", "swap", "drop", "cache_reset"];

/// Depth-first enumeration of all maximal programs below `prefix` (the model
/// alone decides which actions are enabled; real handles are only created
/// when a maximal program is executed, from scratch).
fn explore(r: &Report, sec: &str, run: &Run, model: &Model, prefix: &mut Vec<Act>, depth: usize, st: &Stats) {
    if run.db && st.db_broken.load(Ordering::Relaxed) {
        return;
    }
    if prefix.len() == depth {
        run_program(r, sec, run, prefix, st);
        return;
    }
    for a in model.enabled(run) {
        let mut m2 = model.clone();
        m2.step(a);
        prefix.push(a);
        explore(r, sec, run, &m2, prefix, depth, st);
        prefix.pop();
    }
}

fn run_program(r: &Report, sec: &str, run: &Run, prog: &[Act], st: &Stats) {
    st.programs.fetch_add(1, Ordering::Relaxed);
    let case = || format!("{} {:?}", run.label, prog);
    let res = guard(|| {
        let mut m = Machine::new(run);
        for (k, a) in prog.iter().enumerate() {
            m.step(*a);
            st.steps.fetch_add(1, Ordering::Relaxed);
            st.acts[act_index(a)].fetch_add(1, Ordering::Relaxed);
            if let Some((sig, d)) = m.check(touched(a)) {
                let _ = m.finish();
                return Some((sig, format!("after step {} ({:?}): {}", k, a, d)));
            }
        }
        m.finish().map(|(s, d)| (s, format!("after dropping everything: {}", d)))
    });
    match res {
        Err(p) => {
            if run.db {
                st.db_broken.store(true, Ordering::Relaxed);
            }
            r.viol(sec, &format!("program/{}", panic_sig(&p)), case(), p)
        }
        Ok(Some((sig, d))) => {
            if run.db {
                st.db_broken.store(true, Ordering::Relaxed);
                r.note(format!("{}: stopped at the first violation (the database cache is shared by all programs of the section)", sec));
            }
            r.viol(sec, &format!("program/{}", sig), case(), d)
        }
        Ok(None) => {}
    }
}

fn run_section(r: &Report, run: &Run, depth: usize, st: &Stats) {
    let sec = format!("{}:{}", if run.classic { "programs-classic" } else { "programs" }, run.label);
    section(r, &sec, || {
        // reference answers first (for the database kinds this touches the
        // cache, which must not happen in the middle of a program)
        for m in &run.makers {
            let _ = want(m);
        }
        let base = my_slot() * NG;
        let m0 = Model::new(base);
        if depth < 2 || run.db || cfg!(miri) {
            // serial: the database cache is process-wide; no thread pool under
            // Miri (crossbeam-epoch trips Stacked Borrows on its own)
            explore(r, &sec, run, &m0, &mut vec![], depth, st);
            return;
        }
        // parallelise over the first two actions; every worker replays from scratch
        let mut prefixes: Vec<(Vec<Act>, Model)> = vec![];
        for a in m0.enabled(run) {
            let mut m1 = m0.clone();
            m1.step(a);
            for b in m1.enabled(run) {
                let mut m2 = m1.clone();
                m2.step(b);
                prefixes.push((vec![a, b], m2));
            }
        }
        prefixes.par_iter().for_each(|(p, m)| {
            let mut p = p.clone();
            explore(r, &sec, run, m, &mut p, depth, st);
        });
    });
}

fn main() {
    let args: Vec<String> = std::env::args().collect();
    if COUNTING && !cfg!(miri) && !args.iter().any(|a| a == "--c20-child") {
        supervise(&args);
    }
    let r = Report::from_args("C20");
    let depth_override = args.iter().position(|a| a == "--depth").map(|i| args[i + 1].parse::<usize>().unwrap());
    let only_programs = args.iter().any(|a| a == "--programs-only");
    let sanitizer = cfg!(c20_plain_alloc);
    let depth = depth_override.unwrap_or(if r.quick() { 5 } else { 6 });
    install_crash_handler(&r);
    let st = Stats { db_broken: std::sync::atomic::AtomicBool::new(false), programs: AtomicU64::new(0), steps: AtomicU64::new(0), acts: [const { AtomicU64::new(0) }; 8] };

    // must come first: changes TZ in the environment while no other thread exists
    if !only_programs && !cfg!(miri) {
        section(&r, "system-local", || extra::system_local(&r));
    }

    let inlines = [("Utc", Desc::Utc), ("Unknown", Desc::Unknown), ("FixedPlus", Desc::Fixed(1)), ("FixedMinus", Desc::Fixed(-1)), ("Static", Desc::Static)];
    for (hl, h0, h1) in [("Tzif", Desc::Tzif(0), Desc::Tzif(1)), ("Posix", Desc::Posix(0), Desc::Posix(1))] {
        for (il, i) in inlines {
            let run = Run { label: format!("{}+{}", hl, il), makers: vec![h0, h1, i], db: false, classic: false };
            // thorough: one level more for two inline kinds per heap kind (a
            // pointer-like one and a packed negative offset); the inline kind
            // does not take part in the heap accounting, so the other pairs
            // stay at the quick depth
            let deeper = r.thorough() && depth_override.is_none() && matches!((hl, il), ("Tzif", "Static") | ("Tzif", "FixedMinus") | ("Posix", "FixedMinus") | ("Posix", "Utc"));
            if r.thorough() && depth_override.is_none() && !deeper {
                // the other pairs: the wide alphabet at the quick depth, the four
                // original mutators {new, clone, move, drop} at the full depth
                run_section(&r, &run, depth - 1, &st);
                run_section(&r, &Run { classic: true, ..run }, depth, &st);
            } else {
                run_section(&r, &run, depth, &st);
            }
        }
    }
    // both Arc kinds (and the static kind) side by side
    run_section(&r, &Run { label: "Tzif+Posix".into(), makers: vec![Desc::Tzif(0), Desc::Posix(0), Desc::Static], db: false, classic: false }, depth, &st);
    // Everything up to here consults the allocator before it reads through a
    // handle. The sections below are less guarded (the database cache, the
    // constructor paths, the equality matrix, free-running threads); on a
    // tree whose counts are already known to be wrong they could only crash,
    // so the counting build leaves them out once it has a verdict. (The
    // sanitizer builds run everything: there the bad access is the report;
    // and a crash in the counting build is turned into a verdict as well.)
    let broken = || COUNTING && r.n_viol_sigs() > 0 && r.only_section.is_none();
    let already = broken();
    if already {
        r.note("database-cache programs, constructors, unwind, eq-matrix and free-running skipped: earlier sections already report violations");
    }
    // handles cloned out of the bundled database's cache; serial, one level less
    let db_depth = depth_override.unwrap_or(depth).saturating_sub(1).max(1);
    for (il, i) in [("Static", Desc::Static), ("Utc", Desc::Utc)] {
        if (il == "Utc" && r.quick()) || already {
            continue;
        }
        let run = Run { label: format!("Db+{}", il), makers: vec![Desc::Db(0), Desc::Db(1), i], db: true, classic: false };
        run_section(&r, &run, db_depth, &st);
    }
    r.add_states(st.programs.load(Ordering::Relaxed));
    r.add_transitions(st.steps.load(Ordering::Relaxed));
    r.add_validated(st.steps.load(Ordering::Relaxed));
    r.count("programs", st.programs.load(Ordering::Relaxed));
    r.count("program_depth", depth as u64);
    for (k, n) in ACT_NAMES.iter().enumerate() {
        r.outcome(&format!("program-steps:{}", n), st.acts[k].load(Ordering::Relaxed));
    }

    if !only_programs {
        section(&r, "fixed-offsets", || extra::fixed_offsets(&r));
        section(&r, "schedules", || sched::schedules(&r));
    }
    for (name, f) in [("constructors", extra::constructors as fn(&Report)), ("unwind", extra::unwind), ("eq-matrix", extra::eq_matrix), ("free-running", sched::free_running)] {
        // free-running is also reachable on its own under Miri: `--section free-running`
        if only_programs && !(name == "free-running" && r.only_section.as_deref() == Some("free-running")) {
            continue;
        }
        if broken() {
            if !already {
                r.note(format!("{} skipped: earlier sections already report violations", name));
            }
            continue;
        }
        section(&r, name, || f(&r));
    }
    kinds::self_check(&r);

    if COUNTING {
        if let Some((s, d)) = alloc_complaint(0) {
            r.viol("allocator", &format!("allocator/{}:untagged", s), "whole run", d);
        }
    }
    r.outcome(if sanitizer { "build:plain-allocator(sanitizer is the oracle)" } else { "build:counting-allocator" }, 1);
    r.sample(json!({"program": format!("{:?}", [Act::New(0, Desc::Tzif(0)), Act::Clone(0, 1), Act::Drop(0), Act::New(0, Desc::Tzif(1)), Act::Swap(0, 1), Act::CloneFrom(1, 0)]),
        "observers_after_every_step": "live-block accounting per heap group (cache = holder), every read path of every live handle against the reference model and a fresh handle's fingerprint, eq reflexive/symmetric/value for every pair, a clone moved through Zoned (new/clone/with_time_zone/arithmetic/ambiguous)"}));
    if r.only_section.is_none() {
        r.require(st.programs.load(Ordering::Relaxed) > 1000 || depth < 3, "more than 1000 programs executed");
        if depth >= 3 {
            for (k, n) in ACT_NAMES.iter().enumerate() {
                r.require(st.acts[k].load(Ordering::Relaxed) > 0 || (already && *n == "cache_reset"), &format!("program action {} was taken", n));
            }
        }
    }
    let _ = (Offset::UTC, Timestamp::UNIX_EPOCH, Zoned::default);
    r.finish();
}
