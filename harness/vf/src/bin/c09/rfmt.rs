//! R-fmt: a tiny independent reader for RFC 3339 / RFC 9557 text.
//!
//! Grammar accepted (nothing else):
//!
//! ```text
//! date      = year "-" 2DIGIT "-" 2DIGIT
//! year      = 4DIGIT / ("+" / "-") 6DIGIT      ; expanded years as jiff documents
//! time      = 2DIGIT ":" 2DIGIT ":" 2DIGIT ["." 1*9DIGIT]
//! sep       = "T" / "t" / " "
//! offset    = "Z" / "z" / ("+" / "-") 2DIGIT ":" 2DIGIT
//! timestamp = date sep time offset
//! zoned     = timestamp "[" name "]"
//! name      = IANA name (RFC 9557 time-zone-name) or a numeric offset
//! ```
//!
//! `read_pieces` additionally reads the grammar of `Pieces` texts
//! (`date [sep time [offset]] ["[" ["!"] name "]"]`). The second half of the
//! file, W-fmt, *writes* the canonical forms independently (used for the
//! canonical text -> value -> text direction).
//!
//! Offset hours up to 25 are accepted because that is jiff's documented offset
//! range (RFC 3339 proper stops at 23); `+26:00` and beyond are refused.
//! No dependency on jiff; the instant is computed with `refmodel::cal`.

use refmodel::cal;

#[derive(Clone, Debug, PartialEq, Eq)]
pub enum Off {
    Zulu,
    /// seconds east of UTC as printed (whole minutes by grammar), and whether
    /// the sign was '-'
    Num { secs: i64, neg: bool },
}

#[derive(Clone, Debug, PartialEq, Eq)]
pub struct Read {
    pub ymd: Option<(i64, i64, i64)>,
    pub sep: Option<u8>,
    /// (h, m, s, ns, number of fraction digits)
    pub time: Option<(i64, i64, i64, i64, u8)>,
    pub off: Option<Off>,
    pub ann: Option<String>,
    /// the annotation carried the RFC 9557 critical flag `!`
    pub critical: bool,
}

impl Read {
    /// The instant (ns since the epoch) the text denotes, if it carries a
    /// date, time and offset.
    pub fn instant_ns(&self) -> Option<i128> {
        let (y, m, d) = self.ymd?;
        let (h, mi, s, ns, _) = self.time?;
        let off = match self.off.as_ref()? {
            Off::Zulu => 0,
            Off::Num { secs, .. } => *secs,
        };
        let secs = cal::days_from_civil(y, m, d) * 86400 + h * 3600 + mi * 60 + s - off;
        Some(secs as i128 * 1_000_000_000 + ns as i128)
    }
    /// Civil wall clock reading in ns since 1970-01-01T00:00:00 local.
    pub fn civil_ns(&self) -> Option<i128> {
        let (y, m, d) = self.ymd?;
        let (h, mi, s, ns, _) = self.time.unwrap_or((0, 0, 0, 0, 0));
        let secs = cal::days_from_civil(y, m, d) * 86400 + h * 3600 + mi * 60 + s;
        Some(secs as i128 * 1_000_000_000 + ns as i128)
    }
}

struct Cur<'a> {
    b: &'a [u8],
    i: usize,
}

impl<'a> Cur<'a> {
    fn peek(&self) -> Option<u8> {
        self.b.get(self.i).copied()
    }
    fn eat(&mut self, c: u8) -> Result<(), String> {
        if self.peek() == Some(c) {
            self.i += 1;
            Ok(())
        } else {
            Err(format!("expected {:?} at byte {}", c as char, self.i))
        }
    }
    fn digits(&mut self, n: usize) -> Result<i64, String> {
        let mut v = 0i64;
        for _ in 0..n {
            match self.peek() {
                Some(c) if c.is_ascii_digit() => {
                    v = v * 10 + (c - b'0') as i64;
                    self.i += 1;
                }
                _ => return Err(format!("expected digit at byte {}", self.i)),
            }
        }
        Ok(v)
    }
    fn done(&self) -> bool {
        self.i == self.b.len()
    }
}

fn date(c: &mut Cur) -> Result<(i64, i64, i64), String> {
    let y = match c.peek() {
        Some(s @ (b'+' | b'-')) => {
            c.i += 1;
            let y = c.digits(6)?;
            if s == b'-' {
                if y == 0 {
                    return Err("-000000 is not a year".into());
                }
                -y
            } else {
                y
            }
        }
        _ => c.digits(4)?,
    };
    c.eat(b'-')?;
    let m = c.digits(2)?;
    c.eat(b'-')?;
    let d = c.digits(2)?;
    if !cal::valid_date(y, m, d) {
        return Err(format!("no such date {}-{}-{}", y, m, d));
    }
    Ok((y, m, d))
}

fn time(c: &mut Cur) -> Result<(i64, i64, i64, i64, u8), String> {
    let h = c.digits(2)?;
    c.eat(b':')?;
    let m = c.digits(2)?;
    c.eat(b':')?;
    let s = c.digits(2)?;
    if h > 23 || m > 59 || s > 59 {
        return Err(format!("time field out of range {}:{}:{}", h, m, s));
    }
    let mut ns = 0i64;
    let mut nd = 0u8;
    if c.peek() == Some(b'.') {
        c.i += 1;
        while let Some(ch) = c.peek() {
            if !ch.is_ascii_digit() {
                break;
            }
            if nd == 9 {
                return Err("more than 9 fraction digits".into());
            }
            ns = ns * 10 + (ch - b'0') as i64;
            nd += 1;
            c.i += 1;
        }
        if nd == 0 {
            return Err("empty fraction".into());
        }
        for _ in nd..9 {
            ns *= 10;
        }
    }
    Ok((h, m, s, ns, nd))
}

fn numoff(c: &mut Cur) -> Result<Off, String> {
    let neg = match c.peek() {
        Some(b'+') => false,
        Some(b'-') => true,
        _ => return Err(format!("expected offset sign at byte {}", c.i)),
    };
    c.i += 1;
    let h = c.digits(2)?;
    c.eat(b':')?;
    let m = c.digits(2)?;
    if h > 25 || m > 59 {
        return Err(format!("offset out of range {}:{}", h, m));
    }
    let secs = h * 3600 + m * 60;
    Ok(Off::Num { secs: if neg { -secs } else { secs }, neg })
}

fn offset(c: &mut Cur) -> Result<Off, String> {
    match c.peek() {
        Some(b'Z') | Some(b'z') => {
            c.i += 1;
            Ok(Off::Zulu)
        }
        _ => numoff(c),
    }
}

fn annotation(c: &mut Cur) -> Result<String, String> {
    annotation_flag(c, false).map(|(n, _)| n)
}

/// `[name]`, or with `allow_critical` also `[!name]`.
fn annotation_flag(c: &mut Cur, allow_critical: bool) -> Result<(String, bool), String> {
    c.eat(b'[')?;
    let mut critical = false;
    if allow_critical && c.peek() == Some(b'!') {
        c.i += 1;
        critical = true;
    }
    let st = c.i;
    while let Some(ch) = c.peek() {
        if ch == b']' {
            break;
        }
        // time-zone-name characters plus the offset form
        let ok = ch.is_ascii_alphanumeric() || matches!(ch, b'/' | b'_' | b'-' | b'+' | b'.' | b':');
        if !ok {
            return Err(format!("bad annotation byte {:#x}", ch));
        }
        c.i += 1;
    }
    let name = std::str::from_utf8(&c.b[st..c.i]).unwrap().to_string();
    c.eat(b']')?;
    if name.is_empty() {
        return Err("empty annotation".into());
    }
    if matches!(name.as_bytes()[0], b'+' | b'-') {
        let mut oc = Cur { b: name.as_bytes(), i: 0 };
        numoff(&mut oc)?;
        if !oc.done() {
            return Err("trailing bytes in offset annotation".into());
        }
    } else {
        for part in name.split('/') {
            let p = part.as_bytes();
            if p.is_empty() || !(p[0].is_ascii_alphabetic() || p[0] == b'_' || p[0] == b'.') || part == "." || part == ".." {
                return Err(format!("bad time zone name part {:?}", part));
            }
        }
    }
    Ok((name, critical))
}

pub fn read_date(s: &str) -> Result<Read, String> {
    let mut c = Cur { b: s.as_bytes(), i: 0 };
    let ymd = date(&mut c)?;
    if !c.done() {
        return Err("trailing bytes".into());
    }
    Ok(Read { ymd: Some(ymd), sep: None, time: None, off: None, ann: None, critical: false })
}

pub fn read_time(s: &str) -> Result<Read, String> {
    let mut c = Cur { b: s.as_bytes(), i: 0 };
    let t = time(&mut c)?;
    if !c.done() {
        return Err("trailing bytes".into());
    }
    Ok(Read { ymd: None, sep: None, time: Some(t), off: None, ann: None, critical: false })
}

/// `date sep time [offset] [annotation]`; what must be present is chosen by
/// the flags.
pub fn read_full(s: &str, want_offset: bool, want_ann: bool) -> Result<Read, String> {
    let mut c = Cur { b: s.as_bytes(), i: 0 };
    let ymd = date(&mut c)?;
    let sep = match c.peek() {
        Some(x @ (b'T' | b't' | b' ')) => {
            c.i += 1;
            x
        }
        _ => return Err("expected date/time separator".into()),
    };
    let t = time(&mut c)?;
    let off = if want_offset { Some(offset(&mut c)?) } else { None };
    let ann = if want_ann { Some(annotation(&mut c)?) } else { None };
    if !c.done() {
        return Err(format!("trailing bytes at {}", c.i));
    }
    Ok(Read { ymd: Some(ymd), sep: Some(sep), time: Some(t), off, ann, critical: false })
}

/// The grammar of `Pieces` texts: `date [sep time [offset]] [annotation]`
/// where the annotation may carry the critical flag. Everything after the
/// date is optional; an offset needs a time.
pub fn read_pieces(s: &str) -> Result<Read, String> {
    let mut c = Cur { b: s.as_bytes(), i: 0 };
    let ymd = date(&mut c)?;
    let mut rd = Read { ymd: Some(ymd), sep: None, time: None, off: None, ann: None, critical: false };
    if let Some(x @ (b'T' | b't' | b' ')) = c.peek() {
        c.i += 1;
        rd.sep = Some(x);
        rd.time = Some(time(&mut c)?);
        if matches!(c.peek(), Some(b'Z' | b'z' | b'+' | b'-')) {
            rd.off = Some(offset(&mut c)?);
        }
    }
    if c.peek() == Some(b'[') {
        let (name, critical) = annotation_flag(&mut c, true)?;
        rd.ann = Some(name);
        rd.critical = critical;
    }
    if !c.done() {
        return Err(format!("trailing bytes at {}", c.i));
    }
    Ok(rd)
}

// ---------------------------------------------------------------------------
// W-fmt: an independent writer of the canonical forms (no jiff). Used for the
// text -> value -> text direction: the texts of the enumerated grammar are
// produced here, and what jiff prints for the value it parsed from such a text
// must be that text again.
// ---------------------------------------------------------------------------

/// `YYYY-MM-DD`, or `-YYYYYY-MM-DD` for negative years (six digits).
pub fn fmt_date(y: i64, m: i64, d: i64) -> String {
    if y >= 0 {
        format!("{:04}-{:02}-{:02}", y, m, d)
    } else {
        format!("-{:06}-{:02}-{:02}", -y, m, d)
    }
}

/// The fraction (with its leading '.') of `ns` nanoseconds: `prec == None`
/// means as many digits as needed and no trailing zeros (nothing at all for
/// 0); `Some(p)` means exactly `min(p, 9)` digits, truncating (nothing for 0).
pub fn fmt_fraction(ns: i64, prec: Option<u8>) -> String {
    let all = format!("{:09}", ns);
    match prec {
        None => {
            let t = all.trim_end_matches('0');
            if t.is_empty() {
                String::new()
            } else {
                format!(".{}", t)
            }
        }
        Some(0) => String::new(),
        Some(p) => format!(".{}", &all[..(p.min(9) as usize)]),
    }
}

/// `HH:MM:SS[.fraction]` of a nanosecond-of-day.
pub fn fmt_time(day_ns: i128, prec: Option<u8>) -> String {
    let s = (day_ns / 1_000_000_000) as i64;
    let ns = (day_ns % 1_000_000_000) as i64;
    format!("{:02}:{:02}:{:02}{}", s / 3600, (s / 60) % 60, s % 60, fmt_fraction(ns, prec))
}

/// `date sep time` of a civil reading in ns since 1970-01-01T00:00:00 local.
pub fn fmt_civil(civil_ns: i128, sep: u8, prec: Option<u8>) -> String {
    const DAY: i128 = 86_400 * 1_000_000_000;
    let (y, m, d) = cal::civil_from_days(civil_ns.div_euclid(DAY) as i64);
    format!("{}{}{}", fmt_date(y, m, d), sep as char, fmt_time(civil_ns.rem_euclid(DAY), prec))
}

/// An offset (seconds east) rounded to whole minutes the way jiff documents
/// it: to the nearest minute, half away from zero, except that nothing is
/// ever rounded up to 26:00 (the largest printable offset is 25:59).
pub fn round_offset_to_minute(off: i64) -> i64 {
    let a = off.abs();
    let mut mins = a / 60;
    if a % 60 >= 30 && mins < 25 * 60 + 59 {
        mins += 1;
    }
    off.signum() * mins * 60
}

/// `+HH:MM` / `-HH:MM` of an offset, rounded to the minute. The sign is that
/// of the rounded offset (so -20 s prints `+00:00`: `-00:00` is documented as
/// never written for an offset and means "offset unknown" in RFC 3339/9557).
pub fn fmt_offset_min(off: i64) -> String {
    let r = round_offset_to_minute(off);
    let (neg, r) = (r < 0, r.abs());
    format!("{}{:02}:{:02}", if neg { '-' } else { '+' }, r / 3600, (r / 60) % 60)
}

/// `+HH:MM[:SS]`: the full-precision form documented for lone time zones.
pub fn fmt_offset_full(off: i64) -> String {
    let a = off.abs();
    let mut s = format!("{}{:02}:{:02}", if off < 0 { '-' } else { '+' }, a / 3600, (a / 60) % 60);
    if a % 60 != 0 {
        s.push_str(&format!(":{:02}", a % 60));
    }
    s
}
