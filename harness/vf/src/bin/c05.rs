//! C05: fallible operations return errors - no panics, no out-of-range results,
//! and the two build modes (release / relda = release + debug assertions +
//! overflow checks) agree.
//!
//! E1 over a hand-written API CATALOGUE (`c05/catalogue.rs`): one entry per
//! public `fn .. -> Result` (plus the infallible `Offset`/`TimeZone`
//! conversions and the series iterators DESIGN.md names) of
//! `jiff::{civil::{Date, Time, DateTime, ISOWeekDate, Weekday}, Timestamp,
//! Zoned, Span, SignedDuration, tz::{Offset, TimeZone, Ambiguous*}}`. Each entry
//! enumerates the FULL Cartesian product of its typed argument pools
//! (`c05/pools.rs`: type limits, +-1 around them, zero, sign changes).
//!
//! Oracle, per tuple:
//!   (i)   the call does not panic (in this build flavour);
//!   (ii)  an `Ok` value satisfies its type's documented range predicate,
//!         checked with plain integer comparisons on public accessors
//!         (`c05/chk.rs`);
//!   (iii) per entry a digest (FNV-1a 64) of the ordered outcome stream
//!         (`E` | `P` | `O <rendering of the Ok value>`) is written to
//!         `/verif/.build/out/C05-digests-<flavour>.json`; the two flavours
//!         must produce identical digests. `--compare FILE` checks this against
//!         the other flavour's file and `--bisect-with OTHER_BINARY` names the
//!         first differing tuple; `--entry NAME` dumps one entry's stream.
//!
//! Extension (coverage audit): besides the `-> Result` functions the catalogue
//! holds everything public that can be handed an out-of-range / overflowing
//! value and is not documented to panic: `saturating_*` (pinned to the
//! documented identity "the `checked_*` result, else MIN / MAX"; exact `i128`
//! for `SignedDuration`), `wrapping_*` and the wrapping operators of `Time` and
//! `Weekday` (`Weekday`: exact modulo-7 oracle), `a - b` of two datetimes
//! ("never panics or fails"), `duration_until/since`, infallible conversions
//! and accessors at the limits, `From` / `TryFrom` impls, `Display` / `Debug`,
//! transition iterators, and the limit instants / datetimes in EVERY bundled
//! zone. Documented panics are excluded by name (`catalogue::excluded()`), the
//! panicking setters are run on the inputs their documentation allows and the
//! other inputs are counted. A source scan (`scan_api_items`, `--list-api`)
//! reports API items that are neither catalogued nor excluded.
//!
//! Sections are entry names, so `--section <entry> --only-case <case>` replays
//! one tuple.
//!
//! Extra command line: `--list`, `--list-api`, `--entry NAME`, `--digests PATH`,
//! `--compare PATH`, `--bisect-with BINARY`.

use rayon::prelude::*;
use serde_json::json;
use std::collections::{BTreeMap, BTreeSet};
use vf::{guard, panic_sig, Report};

#[path = "c05/chk.rs"]
mod chk;
#[path = "c05/pools.rs"]
mod pools;
#[path = "c05/catalogue.rs"]
mod catalogue;

use chk::Chk;

pub enum Kind {
    Ok,
    Err,
    Panic(String),
    /// Ok value outside its documented range: why
    Bad(String),
}

pub struct Entry {
    pub name: String,
    pub n: usize,
    /// evaluate tuple `i`; the rendering of an Ok value is appended to the buffer
    pub eval: Box<dyn Fn(usize, &mut String) -> Kind + Send + Sync>,
    pub case: Box<dyn Fn(usize) -> String + Send + Sync>,
}

/// Run one call under `guard`, render and range-check the Ok value (also under
/// `guard`: accessors of a corrupt value may themselves panic under debug
/// assertions).
pub fn run<T: Chk, E>(buf: &mut String, f: impl FnOnce() -> Result<T, E>) -> Kind {
    match guard(f) {
        Err(p) => Kind::Panic(p),
        Ok(Err(_)) => Kind::Err,
        Ok(Ok(v)) => {
            let mut s = String::new();
            match guard(|| {
                v.show(&mut s);
                v.bad()
            }) {
                Err(p) => Kind::Panic(format!("(while reading the Ok value) {}", p)),
                Ok(b) => {
                    buf.push_str(&s);
                    match b {
                        None => Kind::Ok,
                        Some(why) => Kind::Bad(why),
                    }
                }
            }
        }
    }
}

const FNV_OFF: u64 = 0xcbf29ce484222325;
const FNV_PRIME: u64 = 0x100000001b3;
fn fnv(h: &mut u64, bytes: &[u8]) {
    for b in bytes {
        *h ^= *b as u64;
        *h = h.wrapping_mul(FNV_PRIME);
    }
}

/// The stream line of one tuple.
fn line(e: &Entry, i: usize, buf: &mut String) -> Kind {
    buf.clear();
    buf.push_str("O ");
    let k = (e.eval)(i, buf);
    match &k {
        Kind::Ok | Kind::Bad(_) => {}
        Kind::Err => {
            buf.clear();
            buf.push('E');
        }
        Kind::Panic(_) => {
            // the discriminant only: the panic *message* differs between the
            // flavours (a ranged-integer assertion vs. the arithmetic fault it
            // guards) without the behaviour being any different
            buf.clear();
            buf.push('P');
        }
    }
    k
}

/// `panic_sig` with the toolchain's source prefix (`/rustc/<commit>/`) removed.
fn stable_panic_sig(p: &str) -> String {
    let s = panic_sig(p);
    match s.find("/rustc/") {
        Some(i) => {
            let rest = &s[i + 7..];
            match rest.find('/') {
                Some(j) => format!("{}rustc:{}", &s[..i], &rest[j + 1..]),
                None => s,
            }
        }
        None => s,
    }
}

/// Input class appended to a signature, derived from the case string: a zero
/// rounding increment is a different failure class from anything that goes
/// wrong with a non-zero one.
fn input_class(case: &str) -> &'static str {
    if case.contains("/inc=0/") {
        ":increment=0"
    } else {
        ""
    }
}

#[derive(Default, Clone)]
struct Tally {
    ok: u64,
    err: u64,
    panic: u64,
    bad: u64,
    digest: u64,
}

const CHUNK: usize = 2048;

fn run_entry(r: &Report, e: &Entry) -> Tally {
    let nchunks = (e.n + CHUNK - 1) / CHUNK;
    let parts: Vec<Tally> = (0..nchunks)
        .into_par_iter()
        .map(|c| {
            let mut t = Tally { digest: FNV_OFF, ..Default::default() };
            let mut buf = String::new();
            for i in c * CHUNK..((c + 1) * CHUNK).min(e.n) {
                let k = line(e, i, &mut buf);
                fnv(&mut t.digest, buf.as_bytes());
                fnv(&mut t.digest, b"\n");
                match k {
                    Kind::Ok => t.ok += 1,
                    Kind::Err => t.err += 1,
                    Kind::Panic(p) => {
                        t.panic += 1;
                        let case = (e.case)(i);
                        r.viol(&e.name, &format!("{}/{}{}", e.name, stable_panic_sig(&p), input_class(&case)), case, p);
                    }
                    Kind::Bad(why) => {
                        t.bad += 1;
                        let case = (e.case)(i);
                        // `[class] text`: a documented-result mismatch with its own failure class
                        let (class, text) = match why.strip_prefix('[').and_then(|x| x.split_once("] ")) {
                            Some((tag, rest)) => (tag.to_string(), rest.to_string()),
                            None => ("ok-out-of-range".to_string(), why.clone()),
                        };
                        r.viol(&e.name, &format!("{}/{}{}", e.name, class, input_class(&case)), case, format!("{}: Ok({})", text, &buf[2..]));
                    }
                }
            }
            t
        })
        .collect();
    let mut tot = Tally { digest: FNV_OFF, ..Default::default() };
    for p in &parts {
        tot.ok += p.ok;
        tot.err += p.err;
        tot.panic += p.panic;
        tot.bad += p.bad;
        fnv(&mut tot.digest, &p.digest.to_le_bytes());
    }
    tot
}

fn arg_value(name: &str) -> Option<String> {
    let args: Vec<String> = std::env::args().collect();
    args.iter().position(|a| a == name).and_then(|i| args.get(i + 1).cloned())
}
fn has_flag(name: &str) -> bool {
    std::env::args().any(|a| a == name)
}

/// `Type::method` names of every `pub fn .. -> Result<..>` in the given jiff
/// source files (a line scanner: enclosing `impl` block + signature up to `{`).
fn scan_public_result_fns(repo: &str) -> BTreeSet<String> {
    let files = [
        "civil/date.rs",
        "civil/time.rs",
        "civil/datetime.rs",
        "civil/iso_week_date.rs",
        "civil/weekday.rs",
        "timestamp.rs",
        "zoned.rs",
        "span.rs",
        "signed_duration.rs",
        "tz/offset.rs",
        "tz/timezone.rs",
        "tz/ambiguous.rs",
    ];
    let mut out = BTreeSet::new();
    for f in files {
        let Ok(src) = std::fs::read_to_string(format!("{}/src/{}", repo, f)) else { continue };
        let lines: Vec<&str> = src.lines().collect();
        let mut ty = String::from("?");
        let mut i = 0;
        while i < lines.len() {
            let l = lines[i];
            if l.starts_with("impl") {
                // `impl<'a> Foo<'a> {` / `impl Trait for Foo {`
                let head = l.trim_end_matches('{').trim();
                let last = head.rsplit(" for ").next().unwrap_or(head);
                let last = last.rsplit(' ').next().unwrap_or(last);
                ty = last.split('<').next().unwrap_or(last).rsplit("::").next().unwrap_or(last).to_string();
            }
            let t = l.trim_start();
            if t.starts_with("pub fn ") || t.starts_with("pub const fn ") {
                let mut sig = String::new();
                let mut j = i;
                while j < lines.len() {
                    sig.push_str(lines[j].trim());
                    sig.push(' ');
                    if lines[j].contains('{') || lines[j].trim_end().ends_with(';') {
                        break;
                    }
                    j += 1;
                }
                let name = t.split("fn ").nth(1).unwrap_or("").split(|c: char| c == '(' || c == '<').next().unwrap_or("").to_string();
                if let Some(ret) = sig.rsplit("->").next() {
                    if sig.contains("->") && ret.trim_start().starts_with("Result<") {
                        out.insert(format!("{}::{}", ty, name));
                    }
                }
            }
            i += 1;
        }
    }
    out
}

/// Every public API item of the same files that can be handed an out-of-range
/// or overflowing value: `pub fn` returning `Result<` / `Option<`, `pub fn
/// saturating_*` / `wrapping_*`, and the trait impls `Add/Sub/Mul/Div/Neg`
/// (+`Assign`), `Sum`, `TryFrom`, and `From` into a value type. Items are spelled `Type::fn`,
/// `Type::op(Rhs)`, `Target::try_from(Source)`.
fn scan_api_items(repo: &str) -> BTreeSet<String> {
    let files = [
        "civil/date.rs",
        "civil/time.rs",
        "civil/datetime.rs",
        "civil/iso_week_date.rs",
        "civil/weekday.rs",
        "timestamp.rs",
        "zoned.rs",
        "span.rs",
        "signed_duration.rs",
        "tz/offset.rs",
        "tz/timezone.rs",
        "tz/ambiguous.rs",
    ];
    fn clean(t: &str) -> String {
        let t = t.trim().trim_start_matches("&'a ").trim_start_matches("&'b ").trim_start_matches('&');
        let t = t.split('<').next().unwrap_or(t);
        match t {
            "std::time::SystemTime" => "SystemTime".to_string(),
            "std::time::Duration" => "std::Duration".to_string(),
            _ => t.rsplit("::").next().unwrap_or(t).to_string(),
        }
    }
    let mut out = BTreeSet::new();
    for f in files {
        let Ok(src) = std::fs::read_to_string(format!("{}/src/{}", repo, f)) else { continue };
        let mut ty = String::from("?");
        let mut in_block_comment = false;
        let mut in_tests = false;
        let lines: Vec<&str> = src.lines().collect();
        for (i, l) in lines.iter().enumerate() {
            if l.trim_start().starts_with("/*") {
                in_block_comment = true;
            }
            if in_block_comment {
                if l.contains("*/") {
                    in_block_comment = false;
                }
                continue;
            }
            if l.starts_with("mod tests") {
                in_tests = true;
            }
            if in_tests {
                continue;
            }
            if l.starts_with("impl") {
                let head = l.trim_end_matches('{').trim();
                // strip the impl's own generics
                let head = if head.starts_with("impl<") { head.splitn(2, "> ").nth(1).unwrap_or(head) } else { head.trim_start_matches("impl ") };
                if let Some((tr, target)) = head.split_once(" for ") {
                    let target = clean(target);
                    let tr = tr.trim_start_matches("core::ops::").trim_start_matches("core::iter::");
                    let (name, arg) = match tr.split_once('<') {
                        Some((n, a)) => (n, Some(a.trim_end_matches('>'))),
                        None => (tr, None),
                    };
                    let op = match name {
                        "Add" => Some("add"),
                        "Sub" => Some("sub"),
                        "Mul" => Some("mul"),
                        "Div" => Some("div"),
                        "AddAssign" => Some("add_assign"),
                        "SubAssign" => Some("sub_assign"),
                        "MulAssign" => Some("mul_assign"),
                        "DivAssign" => Some("div_assign"),
                        _ => None,
                    };
                    if let Some(op) = op {
                        let rhs = arg.map(clean).unwrap_or_else(|| target.clone());
                        out.insert(format!("{}::{}({})", target, op, rhs));
                    } else if name == "Neg" {
                        out.insert(format!("{}::neg", target));
                    } else if name == "Sum" {
                        out.insert(format!("{}::sum", target));
                    } else if name == "From"
                        && ["Date", "Time", "DateTime", "ISOWeekDate", "Timestamp", "Zoned", "Span", "SignedDuration", "Offset", "SystemTime", "std::Duration"]
                            .contains(&target.as_str())
                    {
                        out.insert(format!("{}::from({})", target, arg.map(clean).unwrap_or_default()));
                    } else if name == "TryFrom" {
                        let shown = if target == "UnsignedDuration" || target == "Duration" { "std::Duration".to_string() } else { target.clone() };
                        out.insert(format!("{}::try_from({})", shown, arg.map(clean).unwrap_or_default()));
                    }
                    ty = target;
                } else {
                    ty = clean(head);
                }
            }
            let t = l.trim_start();
            if t.starts_with("pub fn ") || t.starts_with("pub const fn ") {
                let mut sig = String::new();
                let mut j = i;
                while j < lines.len() {
                    sig.push_str(lines[j].trim());
                    sig.push(' ');
                    if lines[j].contains('{') || lines[j].trim_end().ends_with(';') {
                        break;
                    }
                    j += 1;
                }
                let name = t.split("fn ").nth(1).unwrap_or("").split(|c: char| c == '(' || c == '<').next().unwrap_or("").to_string();
                // the arrow after the parameter list (a `where F: Fn(..) -> bool` clause may follow)
                let ret = sig.split_once(") ->").map(|x| x.1.trim_start().to_string()).unwrap_or_default();
                if ret.starts_with("Result<") || ret.starts_with("Option<") || name.starts_with("saturating_") || name.starts_with("wrapping_") {
                    out.insert(format!("{}::{}", ty, name));
                }
            }
        }
    }
    out
}

fn main() {
    let r = Report::from_args("C05");
    let quick = r.quick();
    let cat = catalogue::build(quick);

    // duplicate names would make digests ambiguous
    {
        let mut seen = BTreeSet::new();
        for e in &cat {
            assert!(seen.insert(e.name.clone()), "duplicate catalogue entry {}", e.name);
        }
    }

    if has_flag("--list") {
        for e in &cat {
            println!("{}\t{}", e.n, e.name);
        }
        return;
    }
    if has_flag("--list-api") {
        // every scanned API item and how it is accounted for
        let repo = std::env::var("VERIF_REPO").unwrap_or_else(|_| "/repo".to_string());
        let names: BTreeSet<String> = cat.iter().map(|e| e.name.clone()).collect();
        let have: BTreeSet<String> = cat.iter().map(|e| e.name.split('(').next().unwrap().to_string()).collect();
        let also: BTreeMap<&str, &str> = catalogue::ALSO_COVERED.iter().cloned().collect();
        let excl = catalogue::excluded();
        for it in scan_api_items(&repo) {
            let how = if names.contains(&it) || have.contains(&it) {
                "catalogued".to_string()
            } else if let Some(e) = also.get(it.as_str()) {
                format!("exercised by entry {}", e)
            } else if let Some(x) = excl.iter().find(|x| x.0 == it || it.rsplit("::").next().map_or(false, |f| x.0 == format!("*::{}", f))) {
                format!("EXCLUDED: {}", x.1)
            } else {
                "UNCATALOGUED".to_string()
            };
            println!("{}\t{}", it, how);
        }
        return;
    }
    if let Some(name) = arg_value("--entry") {
        let Some(e) = cat.iter().find(|e| e.name == name) else {
            eprintln!("no such entry: {}", name);
            std::process::exit(2);
        };
        let mut buf = String::new();
        let out = std::io::stdout();
        let mut w = std::io::BufWriter::new(out.lock());
        use std::io::Write;
        for i in 0..e.n {
            let k = line(e, i, &mut buf);
            // 4th column (not part of the digested stream): the panic message
            let extra = match k {
                Kind::Panic(p) => format!("\t# {}", stable_panic_sig(&p)),
                Kind::Bad(w) => format!("\t# out of range: {}", w),
                _ => String::new(),
            };
            let _ = writeln!(w, "{}\t{}\t{}{}", i, (e.case)(i), buf, extra);
        }
        return;
    }

    let mut digests: BTreeMap<String, Tally> = BTreeMap::new();
    let (mut ok, mut err, mut pan, mut bad) = (0u64, 0u64, 0u64, 0u64);
    let mut no_ok = vec![];
    let mut over = vec![];
    for e in &cat {
        if e.n > 1_000_000 {
            over.push(format!("{} ({})", e.name, e.n));
        }
        let mut ran = false;
        r.section(&e.name, || {
            ran = true;
            let t = run_entry(&r, e);
            r.add_states(e.n as u64);
            r.add_transitions(e.n as u64);
            r.add_validated(t.ok + t.bad + t.err);
            ok += t.ok;
            err += t.err;
            pan += t.panic;
            bad += t.bad;
            if t.ok == 0 {
                no_ok.push(e.name.clone());
            }
            digests.insert(e.name.clone(), t);
        });
        let _ = ran;
    }
    r.count("catalogue_entries", cat.len() as u64);
    r.count("tuples", cat.iter().map(|e| e.n as u64).sum());
    r.count("largest_entry_tuples", cat.iter().map(|e| e.n as u64).max().unwrap_or(0));
    r.outcome("ok", ok);
    r.outcome("err", err);
    r.outcome("panic", pan);
    r.outcome("ok_out_of_range", bad);
    r.count("entries_without_any_ok", no_ok.len() as u64);
    if !no_ok.is_empty() {
        r.note(format!("entries whose every tuple returned Err/panicked: {}", no_ok.join(", ")));
    }
    for o in &over {
        r.cap(format!("entry exceeds 10^6 tuples: {}", o));
    }
    r.require(over.is_empty(), "every entry has <= 10^6 tuples");
    r.require(ok > 0 && err > 0, "both Ok and Err outcomes observed");
    r.require(no_ok.is_empty(), "every catalogue entry returned Ok for at least one tuple");
    if r.only_section.is_none() {
        use std::sync::atomic::Ordering::Relaxed;
        let (s_ok, s_min, s_max) =
            (catalogue::SAT_CHECKED_OK.load(Relaxed), catalogue::SAT_TO_MIN.load(Relaxed), catalogue::SAT_TO_MAX.load(Relaxed));
        r.outcome("saturating_expected_checked_result", s_ok);
        r.outcome("saturating_expected_min", s_min);
        r.outcome("saturating_expected_max", s_max);
        r.outcome("weekday_operands_beyond_i64", catalogue::WD_BEYOND_I64.load(Relaxed));
        r.require(s_ok > 0 && s_min > 0 && s_max > 0, "saturating entries saw unsaturated results and both limits");
        r.require(catalogue::WD_BEYOND_I64.load(Relaxed) > 0, "weekday entries saw operands whose exact sum leaves i64");
        r.require(
            catalogue::EXCLUDED_DOC_PANIC_INPUTS.load(Relaxed) > 0,
            "the documented-panic inputs of the partially catalogued constructors were met and counted",
        );
        let nz = cat.iter().find(|e| e.name == "TimeZone::to_zoned(all-zones)").map(|e| e.n).unwrap_or(0);
        r.count("all_zones_x_limit_datetimes", nz as u64);
        r.require(nz >= 400 * 11, "the all-zones entries cover the bundled database (>= 400 zones)");
    }

    let full_run = r.only_section.is_none() && r.only_case.is_none();

    // uncatalogued public `-> Result` functions (reported, never failing)
    if full_run {
        let repo = std::env::var("VERIF_REPO").unwrap_or_else(|_| "/repo".to_string());
        let found = scan_public_result_fns(&repo);
        let have: BTreeSet<String> = cat.iter().map(|e| e.name.split('(').next().unwrap().to_string()).collect();
        let missing: Vec<String> = found.iter().filter(|f| !have.contains(*f)).cloned().collect();
        r.count("public_result_fns_found_by_scan", found.len() as u64);
        r.count("public_result_fns_uncatalogued", missing.len() as u64);
        r.note(format!("uncatalogued public `-> Result` fns: {}", missing.join(", ")));
        let stale: Vec<String> = have.iter().filter(|h| !found.contains(*h)).cloned().collect();
        r.note(format!("catalogue entries that are not `pub fn -> Result` (infallible conversions, Option-returning, trait impls, iterators): {}", stale.join(", ")));
        r.require(found.len() > 100, "the source scan found the public fallible functions");

        // completeness against the wider API surface: every item is catalogued,
        // exercised by a named entry, or excluded by name with a reason
        let items = scan_api_items(&repo);
        let names: BTreeSet<String> = cat.iter().map(|e| e.name.clone()).collect();
        let also: BTreeMap<&str, &str> = catalogue::ALSO_COVERED.iter().cloned().collect();
        for (item, entry) in &also {
            assert!(names.contains(*entry), "ALSO_COVERED: {} names a missing entry {}", item, entry);
        }
        let excl = catalogue::excluded();
        let excl_names: BTreeSet<&str> = excl.iter().map(|x| x.0.as_str()).collect();
        let is_excluded = |item: &str| {
            excl_names.contains(item)
                || item.rsplit("::").next().map_or(false, |f| excl_names.contains(format!("*::{}", f).as_str()))
        };
        let mut unc = vec![];
        let mut n_excl = 0u64;
        for it in &items {
            if names.contains(it) || have.contains(it) || also.contains_key(it.as_str()) {
                continue;
            }
            if is_excluded(it) {
                n_excl += 1;
                continue;
            }
            unc.push(it.clone());
        }
        r.count("api_items_found_by_scan", items.len() as u64);
        r.count("api_items_excluded_by_name", n_excl);
        r.count("api_items_uncatalogued", unc.len() as u64);
        r.count("exclusions_by_name", excl.len() as u64);
        r.count("inputs_excluded_as_documented_panics", catalogue::EXCLUDED_DOC_PANIC_INPUTS.load(std::sync::atomic::Ordering::Relaxed));
        r.note(format!("API items (Result/Option fns, saturating_*/wrapping_*, operator and TryFrom impls) neither catalogued nor excluded: {}", unc.join(", ")));
        r.note(format!(
            "excluded by name (documented panics, parsers): {}",
            excl.iter().map(|x| format!("{} [{}]", x.0, x.1)).collect::<Vec<_>>().join("; ")
        ));
        r.require(items.len() > 250, "the API scan found the operator / conversion impls");
    }

    // (iii) digests
    if full_run {
        let tier = if quick { "quick" } else { "thorough" };
        let path = arg_value("--digests").unwrap_or_else(|| format!("/verif/.build/out/C05-digests-{}.json", r.flavour));
        let mut m = serde_json::Map::new();
        for (k, t) in &digests {
            m.insert(
                k.clone(),
                json!({"n": t.ok + t.err + t.panic + t.bad, "ok": t.ok, "err": t.err, "panic": t.panic, "ok_out_of_range": t.bad, "digest": format!("{:016x}", t.digest)}),
            );
        }
        let doc = json!({"property_id": "C05", "tier": tier, "flavour": r.flavour, "entries": m});
        if let Some(dir) = std::path::Path::new(&path).parent() {
            let _ = std::fs::create_dir_all(dir);
        }
        std::fs::write(&path, serde_json::to_string_pretty(&doc).unwrap()).expect("write digests");
        r.note(format!("digests written to {}", path));
        let mut all = FNV_OFF;
        for (k, t) in &digests {
            fnv(&mut all, k.as_bytes());
            fnv(&mut all, &t.digest.to_le_bytes());
        }
        // 48 bits, so that it survives a round trip through JSON numbers
        r.count("digest_of_all_entries_low48", all & 0xffff_ffff_ffff);

        if let Some(other) = arg_value("--compare") {
            compare(&r, &cat, &digests, tier, &other);
        }
    }
    r.sample(json!({"entry": "Date::new", "tuples": "i16 pool x i8 pool x i8 pool", "stream_line": "E | P | O <rendering>"}));
    r.finish();
}

fn compare(r: &Report, cat: &[Entry], mine: &BTreeMap<String, Tally>, tier: &str, other_path: &str) {
    let text = match std::fs::read_to_string(other_path) {
        Ok(t) => t,
        Err(e) => {
            r.note(format!("NONVACUITY-FAILED: cannot read --compare file {}: {}", other_path, e));
            return;
        }
    };
    let v: serde_json::Value = serde_json::from_str(&text).expect("parse --compare file");
    if v["tier"].as_str() != Some(tier) {
        r.note(format!("NONVACUITY-FAILED: --compare file is for tier {:?}, this run is {}", v["tier"], tier));
        return;
    }
    let other_flavour = v["flavour"].as_str().unwrap_or("?").to_string();
    let ents = v["entries"].as_object().cloned().unwrap_or_default();
    let bis = arg_value("--bisect-with");
    let mut compared = 0u64;
    let mut differ = 0u64;
    for e in cat {
        let Some(t) = mine.get(&e.name) else { continue };
        let md = format!("{:016x}", t.digest);
        let od = ents.get(&e.name).and_then(|x| x["digest"].as_str()).unwrap_or("<missing>").to_string();
        compared += 1;
        if md == od {
            continue;
        }
        differ += 1;
        let sig = format!("{}/build-modes-differ", e.name);
        let mut case = format!("entry {}", e.name);
        let mut detail = format!("{} digest {} vs {} digest {}", r.flavour, md, other_flavour, od);
        if let Some(bin) = &bis {
            let out = std::process::Command::new(bin).args(["--tier", tier, "--entry", &e.name]).output();
            if let Ok(out) = out {
                let theirs = String::from_utf8_lossy(&out.stdout);
                let mut buf = String::new();
                let mut it = theirs.lines();
                for i in 0..e.n {
                    line(e, i, &mut buf);
                    let want = format!("{}\t{}\t{}", i, (e.case)(i), buf);
                    let got = it.next().unwrap_or("<stream ended>");
                    let got = got.split("\t# ").next().unwrap_or(got);
                    if want != got {
                        case = (e.case)(i);
                        detail = format!("first differing tuple #{}: {} -> `{}`; {} -> `{}`", i, r.flavour, buf, other_flavour, got.rsplit('\t').next().unwrap_or(got));
                        break;
                    }
                }
            }
        }
        r.viol(&e.name, &sig, case, detail);
    }
    r.count("entries_compared_with_other_flavour", compared);
    r.count("entries_differing_from_other_flavour", differ);
    r.require(compared as usize == cat.len(), "every entry compared with the other flavour");
}
