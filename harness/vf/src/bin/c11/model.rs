//! C11's own reference addition `r + span`, written against `refmodel::cal` and
//! `refmodel::tz` only (no jiff call): the oracle of C11 is metamorphic in
//! `r + span`, and this module makes that addition independent of jiff's.
//!
//! Civil (`DateTime::checked_add`, documented order, pinned by C08): years and
//! months first (day of month clamped to the target month's length), then weeks
//! and days, then the time units as one nanosecond count.
//!
//! Zoned (`Zoned::checked_add`, pinned by C06): a span without calendar units is
//! exact instant arithmetic; otherwise the calendar units are added to the civil
//! datetime, the result is resolved with the "compatible" strategy (earlier
//! instant of a fold, the reading shifted forward by the gap's length in a gap)
//! and the time units are added to that instant.

use refmodel::cal;
use refmodel::tz as rtz;

pub const NS: i128 = 1_000_000_000;
pub const DAY_NS: i128 = 86_400 * NS;

/// index = `Unit as usize`: ns us ms s min h d w mo y
pub type Sp = [i64; 10];
const TIME_NS: [i128; 6] = [1, 1_000, 1_000_000, NS, 60 * NS, 3_600 * NS];

#[derive(Clone, Copy, Debug, PartialEq, Eq)]
pub enum Madd {
    Ok(i128),
    /// out of range
    Err,
    /// the model does not define the case (tainted window of a POSIX rule
    /// transition outside its own year - F7 -, three pre-images, nested gaps)
    Undef,
}

pub struct ZModel {
    pub zone: rtz::Zone,
    /// merged, sorted windows (seconds; valid on the instant and the civil scale)
    taint: Vec<(i64, i64)>,
    ts_min: i128,
    ts_max: i128,
}

fn off(z: &rtz::Zone, k: usize) -> i64 {
    z.infos[z.pieces[k].info as usize].utoff as i64
}

fn floor_sec(ns: i128) -> i64 {
    ns.div_euclid(NS) as i64
}

fn time_part(f: &Sp) -> i128 {
    (0..6).map(|u| f[u] as i128 * TIME_NS[u]).sum()
}

fn months_part(f: &Sp) -> i64 {
    f[9] * 12 + f[8]
}

fn days_part(f: &Sp) -> i64 {
    f[7] * 7 + f[6]
}

fn has_cal(f: &Sp) -> bool {
    f[6..10].iter().any(|&x| x != 0)
}

/// epoch day of (civil day + months (clamped) + days), unbounded
fn cal_add(day: i64, months: i64, days: i64) -> Option<i128> {
    let (y, m, d) = cal::civil_from_days(day);
    let (y2, m2) = cal::add_months(y, m, months);
    if y2 < cal::MIN_YEAR - 1 || y2 > cal::MAX_YEAR + 1 {
        // days of the same sign cannot bring it back
        return None;
    }
    let d2 = d.min(cal::days_in_month(y2, m2));
    Some(cal::days_from_civil(y2, m2, d2) as i128 + days as i128)
}

fn day_in_range(e: i128) -> bool {
    e >= cal::min_day() as i128 && e <= cal::max_day() as i128
}

/// `DateTime + span` on the civil nanosecond line
pub fn civil_add(civil: i128, f: &Sp) -> Madd {
    let day = civil.div_euclid(DAY_NS) as i64;
    let tod = civil.rem_euclid(DAY_NS);
    let Some(e) = cal_add(day, months_part(f), days_part(f)) else { return Madd::Err };
    let total = tod + time_part(f);
    let e = e + total.div_euclid(DAY_NS);
    if day_in_range(e) {
        Madd::Ok(e * DAY_NS + total.rem_euclid(DAY_NS))
    } else {
        Madd::Err
    }
}

/// Windows around rule transitions whose exact UTC instant, or one of whose
/// wall-clock readings, lies outside the rule's own year (same test as C04/C06).
fn taint_windows(z: &rtz::Zone) -> Vec<(i64, i64)> {
    let mut v: Vec<(i64, i64)> = vec![];
    for j in 1..z.pieces.len() {
        let p = &z.pieces[j];
        if p.recorded {
            continue;
        }
        let o1 = off(z, j - 1);
        let o2 = off(z, j);
        let y0 = cal::days_from_civil(p.rule_year, 1, 1) * 86_400;
        let y1 = cal::days_from_civil(p.rule_year + 1, 1, 1) * 86_400;
        let pts = [p.start, p.start + o1, p.start + o2];
        let mn = *pts.iter().min().unwrap();
        let mx = *pts.iter().max().unwrap();
        let (a, b) = if mn < y0 {
            (mn, mx.max(y0))
        } else if mx >= y1 - 1 {
            (mn.min(y1 - 1), mx)
        } else {
            continue;
        };
        v.push((a - 200_000, b + 200_000));
    }
    v.sort();
    let mut out: Vec<(i64, i64)> = vec![];
    for w in v {
        match out.last_mut() {
            Some(l) if w.0 <= l.1 => l.1 = l.1.max(w.1),
            _ => out.push(w),
        }
    }
    out
}

impl ZModel {
    pub fn new(zone: rtz::Zone, ts_min: i128, ts_max: i128) -> ZModel {
        let taint = taint_windows(&zone);
        ZModel { zone, taint, ts_min, ts_max }
    }
    pub fn tainted(&self, sec: i64) -> bool {
        if self.taint.is_empty() {
            return false;
        }
        let i = self.taint.partition_point(|w| w.0 <= sec);
        i > 0 && self.taint[i - 1].1 >= sec
    }
    /// the civil reading (ns on the wall clock) of an instant
    pub fn local(&self, t: i128) -> i128 {
        t + self.zone.utoff_at(floor_sec(t)) as i128 * NS
    }
    /// "compatible" resolution of a civil reading
    fn compat(&self, civil: i128) -> Madd {
        if civil < cal::min_day() as i128 * DAY_NS || civil >= (cal::max_day() as i128 + 1) * DAY_NS {
            return Madd::Err;
        }
        let c_sec = floor_sec(civil);
        if self.tainted(c_sec) {
            return Madd::Undef;
        }
        let frac = civil.rem_euclid(NS);
        let z = &self.zone;
        let pre = z.preimages(c_sec);
        let t = match pre.len() {
            0 => {
                let g = z.gap_around(c_sec);
                if g.len() != 1 {
                    return Madd::Undef;
                }
                c_sec - off(z, g[0] - 1)
            }
            1 => pre[0].0,
            2 => pre[0].0.min(pre[1].0),
            _ => return Madd::Undef,
        };
        let t = t as i128 * NS + frac;
        if t < self.ts_min || t > self.ts_max {
            Madd::Err
        } else if self.tainted(floor_sec(t)) {
            Madd::Undef
        } else {
            Madd::Ok(t)
        }
    }
    /// `Zoned + span` on the instant line
    pub fn add(&self, start: i128, f: &Sp) -> Madd {
        self.add_stepped(start, f, 0)
    }
    /// `Zoned + (span with `step` more days)`: lets a neighbour be built whose
    /// day count would have the other sign than the rest of the span. A zero
    /// calendar displacement (no calendar unit, no step) is the start itself.
    pub fn add_stepped(&self, start: i128, f: &Sp, step: i64) -> Madd {
        if self.tainted(floor_sec(start)) {
            return Madd::Undef;
        }
        let base = if !has_cal(f) && step == 0 {
            start
        } else {
            let civil = self.local(start);
            let day = civil.div_euclid(DAY_NS) as i64;
            let tod = civil.rem_euclid(DAY_NS);
            let Some(day2) = cal_add(day, months_part(f), days_part(f)) else { return Madd::Err };
            let day2 = day2 + step as i128;
            if !day_in_range(day2) {
                return Madd::Err;
            }
            let civil2 = day2 * DAY_NS + tod;
            if civil2 == civil && step != 0 {
                // the civil reading of r itself is r (r may be the later instant of a fold)
                start
            } else {
                match self.compat(civil2) {
                    Madd::Ok(t) => t,
                    w => return w,
                }
            }
        };
        let res = base + time_part(f);
        if res < self.ts_min || res > self.ts_max {
            Madd::Err
        } else if self.tainted(floor_sec(res)) {
            Madd::Undef
        } else {
            Madd::Ok(res)
        }
    }
    /// no change of UTC offset takes effect in `[lo, hi]` (instants, ns)
    pub fn offset_constant_in(&self, lo: i128, hi: i128) -> bool {
        let z = &self.zone;
        let a = z.piece_index_at(floor_sec(lo));
        let b = z.piece_index_at(floor_sec(hi));
        let o = off(z, a);
        (a..=b).all(|k| off(z, k) == o)
    }
}
