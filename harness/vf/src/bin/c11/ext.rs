//! C11 coverage extension: the other ways of saying the same thing, absolute
//! durations as operands, and the whole increment alphabet.
//!
//! * `forms`: every documented way of building the options of `Span::round`
//!   (`From<Unit>`, `From<(Unit, i64)>`, `SpanRound::default()`, the builder in
//!   the opposite order, options set twice, `days_are_24_hours()`, a reference
//!   handed over as `Date` / `DateTime` / `&Zoned`), of `Span::total`
//!   (`SpanTotal::from`, the four tuple forms, `days_are_24_hours()`), of
//!   `Span::compare` and of `Span::checked_add` / `checked_sub` (by value and
//!   by reference, the four tuple forms each, `days_are_24_hours()`) must give
//!   the result of the form the main sections judge against the model (a
//!   differential identity: the documentation defines each of them as a
//!   shorthand of that form). Signatures name the form, so a defect of one
//!   `From` implementation cannot hide behind a known finding of the rounding
//!   itself, and a known finding (which all forms share) is not reported twice.
//! * `arith_durations`: `checked_add` / `checked_sub` with a `SignedDuration`
//!   or a `std::time::Duration` operand: `r + result` is `(r + a)` moved by
//!   exactly that many nanoseconds (civil nanoseconds / instants / the exact
//!   count without a reference), and days or calendar units in `a` are refused
//!   without a reference exactly as for spans.
//! * `round_increments`: every increment 1..=24 / 1..=60 for hours, minutes and
//!   seconds, every divisor of 1000 and its two neighbours for the sub-second
//!   units, 1..=13 for the calendar units, through the same oracle as the main
//!   sections (`round_one`).

use super::*;
use jiff::{SpanArithmetic, SpanCompare, SpanTotal};

type RoundOut = Result<Sp, ()>;

fn rnd(x: Result<Result<Span, jiff::Error>, String>) -> Result<RoundOut, String> {
    x.map(|v| v.map(|s| fields(&s)).map_err(|_| ()))
}

/// does `form` give what the builder form gives?
fn same<T: PartialEq + std::fmt::Debug>(r: &Report, lc: &mut Loc, sig_op: &str, form: &str, canon: &Result<T, String>, got: Result<T, String>, case: &dyn Fn() -> String) {
    match (&got, canon) {
        (Err(p), _) => {
            lc.add("form_panic");
            // a panic of the builder form itself is reported by the main sections
            if canon.is_ok() {
                r.viol("forms", &format!("{}[{}]/{}", sig_op, form, panic_sig(p)), case(), p.clone());
            }
        }
        (Ok(_), Err(_)) => lc.add("form_ok_builder_panicked"),
        (Ok(a), Ok(b)) => {
            if a == b {
                lc.add("form_same");
            } else {
                lc.add("form_differs");
                r.viol("forms", &format!("{}[{}]/differs-from-builder-form", sig_op, form), case(), format!("this form {:?}; builder form {:?}", a, b));
            }
        }
    }
}

pub fn section_forms(r: &Report, refs: &[&Rf], sub: &[Sp]) {
    let spans: Vec<Span> = sub.iter().map(|f| try_span(f).unwrap()).collect();
    refs.par_iter().for_each(|rf| {
        let mut lc = Loc::default();
        let mut n = 0u64;
        // ------------------------------------------------------------ round
        for (f, &span) in sub.iter().zip(&spans) {
            if let Some(c) = &r.only_case {
                if !c.contains(&format!("span={} ref={} ", fmt_sp(f), rf.name)) {
                    continue;
                }
            }
            for s in 0..10 {
                let lmax = rf.allowed().max(s);
                for l in [None, Some(s), Some(lmax)] {
                    for inc in [1, increments(s)[2]] {
                        for m in [6usize, 1] {
                            let (jmode, _, mname) = MODES[m];
                            let cs = || format!("forms round span={} ref={} smallest={} largest={} inc={} mode={}", fmt_sp(f), rf.name, UN[s], l.map(|l| UN[l]).unwrap_or("unset"), inc, mname);
                            let canon = rnd(guard(|| {
                                let mut cfg = SpanRound::new().smallest(UNITS[s]).increment(inc).mode(jmode);
                                if let Some(l) = l {
                                    cfg = cfg.largest(UNITS[l]);
                                }
                                if let Some(rel) = rf.rel() {
                                    cfg = cfg.relative(rel);
                                }
                                span.round(cfg)
                            }));
                            lc.add(match &canon {
                                Ok(Ok(_)) => "round_builder_ok",
                                Ok(Err(_)) => "round_builder_err",
                                Err(_) => "round_builder_panic",
                            });
                            // (a) the builder in the opposite order
                            n += 1;
                            let got = rnd(guard(|| {
                                let mut cfg = SpanRound::new();
                                if let Some(rel) = rf.rel() {
                                    cfg = cfg.relative(rel);
                                }
                                if let Some(l) = l {
                                    cfg = cfg.largest(UNITS[l]);
                                }
                                span.round(cfg.mode(jmode).increment(inc).smallest(UNITS[s]))
                            }));
                            same(r, &mut lc, "Span::round", "builder-in-reverse-order", &canon, got, &cs);
                            // (b) every option set twice: the last setting counts
                            if l.is_some() {
                                n += 1;
                                let got = rnd(guard(|| {
                                    let mut cfg = SpanRound::new().smallest(Unit::Year).increment(77).mode(RoundMode::Ceil).largest(Unit::Nanosecond);
                                    if rf.rel().is_some() {
                                        cfg = cfg.days_are_24_hours();
                                    }
                                    cfg = cfg.smallest(UNITS[s]).increment(inc).mode(jmode).largest(UNITS[l.unwrap()]);
                                    if let Some(rel) = rf.rel() {
                                        cfg = cfg.relative(rel);
                                    }
                                    span.round(cfg)
                                }));
                                same(r, &mut lc, "Span::round", "options-set-twice", &canon, got, &cs);
                            }
                            // (c) From<Unit>: increment 1, HalfExpand
                            if inc == 1 && m == 6 {
                                n += 1;
                                let got = rnd(guard(|| {
                                    let mut cfg = SpanRound::from(UNITS[s]);
                                    if let Some(l) = l {
                                        cfg = cfg.largest(UNITS[l]);
                                    }
                                    match rf.rel() {
                                        Some(rel) => span.round(cfg.relative(rel)),
                                        None => span.round(cfg),
                                    }
                                }));
                                same(r, &mut lc, "Span::round", "From<Unit>", &canon, got, &cs);
                                if l.is_none() && rf.rel().is_none() {
                                    n += 1;
                                    let got = rnd(guard(|| span.round(UNITS[s])));
                                    same(r, &mut lc, "Span::round", "round(Unit)", &canon, got, &cs);
                                }
                            }
                            // (d) From<(Unit, i64)>: HalfExpand
                            if m == 6 {
                                n += 1;
                                let got = rnd(guard(|| {
                                    let mut cfg = SpanRound::from((UNITS[s], inc));
                                    if let Some(l) = l {
                                        cfg = cfg.largest(UNITS[l]);
                                    }
                                    match rf.rel() {
                                        Some(rel) => span.round(cfg.relative(rel)),
                                        None => span.round(cfg),
                                    }
                                }));
                                same(r, &mut lc, "Span::round", "From<(Unit,i64)>", &canon, got, &cs);
                                if l.is_none() && rf.rel().is_none() {
                                    n += 1;
                                    let got = rnd(guard(|| span.round((UNITS[s], inc))));
                                    same(r, &mut lc, "Span::round", "round((Unit,i64))", &canon, got, &cs);
                                }
                            }
                            // (e) the defaults: smallest nanosecond, increment 1, HalfExpand
                            if s == 0 && inc == 1 && m == 6 {
                                n += 2;
                                for (form, dflt) in [("SpanRound::new()-defaults", false), ("SpanRound::default()", true)] {
                                    let got = rnd(guard(|| {
                                        let mut cfg = if dflt { SpanRound::default() } else { SpanRound::new() };
                                        if let Some(l) = l {
                                            cfg = cfg.largest(UNITS[l]);
                                        }
                                        match rf.rel() {
                                            Some(rel) => span.round(cfg.relative(rel)),
                                            None => span.round(cfg),
                                        }
                                    }));
                                    same(r, &mut lc, "Span::round", form, &canon, got, &cs);
                                }
                            }
                            // (f) the reference handed over in its own type / the marker by its shorthand
                            n += 1;
                            let got = rnd(guard(|| {
                                let mut cfg = SpanRound::new().smallest(UNITS[s]).increment(inc).mode(jmode);
                                if let Some(l) = l {
                                    cfg = cfg.largest(UNITS[l]);
                                }
                                match &rf.k {
                                    RfK::None => span.round(cfg),
                                    RfK::Marker => span.round(cfg.days_are_24_hours()),
                                    RfK::Civil(dt, true) => span.round(cfg.relative(dt.date())),
                                    RfK::Civil(dt, false) => span.round(cfg.relative(*dt)),
                                    RfK::Zoned(z, _) => span.round(cfg.relative(z)),
                                }
                            }));
                            let form = match &rf.k {
                                RfK::None => "no-relative",
                                RfK::Marker => "days_are_24_hours()",
                                RfK::Civil(_, true) => "relative(Date)",
                                RfK::Civil(_, false) => "relative(DateTime)",
                                RfK::Zoned(..) => "relative(&Zoned)",
                            };
                            same(r, &mut lc, "Span::round", form, &canon, got, &cs);
                        }
                    }
                }
            }
        }
        // ------------------------------------------------------------ total
        for (f, &span) in sub.iter().zip(&spans) {
            for u in 0..10 {
                let cs = || format!("forms total span={} ref={} unit={}", fmt_sp(f), rf.name, UN[u]);
                let bits = |x: Result<Result<f64, jiff::Error>, String>| x.map(|v| v.map(|t| t.to_bits()).map_err(|_| ()));
                let canon = bits(guard(|| match rf.rel() {
                    Some(rel) => span.total((UNITS[u], rel)),
                    None => span.total(UNITS[u]),
                }));
                n += 2;
                let got = bits(guard(|| match rf.rel() {
                    Some(rel) => span.total(SpanTotal::from((UNITS[u], rel))),
                    None => span.total(SpanTotal::from(UNITS[u])),
                }));
                same(r, &mut lc, "Span::total", "SpanTotal::from", &canon, got, &cs);
                let got = bits(guard(|| match &rf.k {
                    RfK::None => span.total(UNITS[u]),
                    RfK::Marker => span.total(SpanTotal::from(UNITS[u]).days_are_24_hours()),
                    RfK::Civil(dt, true) => span.total((UNITS[u], dt.date())),
                    RfK::Civil(dt, false) => span.total((UNITS[u], *dt)),
                    RfK::Zoned(z, _) => span.total((UNITS[u], z)),
                }));
                let form = match &rf.k {
                    RfK::None => "Unit",
                    RfK::Marker => "days_are_24_hours()",
                    RfK::Civil(_, true) => "(Unit,Date)",
                    RfK::Civil(_, false) => "(Unit,DateTime)",
                    RfK::Zoned(..) => "(Unit,&Zoned)",
                };
                same(r, &mut lc, "Span::total", form, &canon, got, &cs);
                if matches!(rf.k, RfK::Civil(..) | RfK::Zoned(..)) {
                    // the conversion spelled out
                    n += 1;
                    let got = bits(guard(|| match &rf.k {
                        RfK::Civil(dt, _) => span.total(SpanTotal::from((UNITS[u], *dt))),
                        RfK::Zoned(z, _) => span.total(SpanTotal::from((UNITS[u], z))),
                        _ => unreachable!(),
                    }));
                    same(r, &mut lc, "Span::total", "SpanTotal::from((Unit,ref))", &canon, got, &cs);
                }
            }
        }
        // ------------------------------------------------------ to_duration
        if rf.rel().is_some() {
            for (f, &span) in sub.iter().zip(&spans) {
                let cs = || format!("forms to_duration span={} ref={}", fmt_sp(f), rf.name);
                let dur = |x: Result<Result<SignedDuration, jiff::Error>, String>| x.map(|v| v.map_err(|_| ()));
                let canon = dur(guard(|| span.to_duration(rf.rel().unwrap())));
                n += 1;
                let got = dur(guard(|| match &rf.k {
                    RfK::None => unreachable!(),
                    RfK::Marker => span.to_duration(SpanRelativeTo::days_are_24_hours()),
                    RfK::Civil(dt, true) => span.to_duration(dt.date()),
                    RfK::Civil(dt, false) => span.to_duration(*dt),
                    RfK::Zoned(z, _) => span.to_duration(z),
                }));
                let form = match &rf.k {
                    RfK::Civil(_, true) => "Date",
                    RfK::Civil(_, false) => "DateTime",
                    RfK::Zoned(..) => "&Zoned",
                    _ => "days_are_24_hours()",
                };
                same(r, &mut lc, "Span::to_duration", form, &canon, got, &cs);
            }
        }
        // -------------------------------------------- compare, checked_add/sub
        for (fa, &a) in sub.iter().zip(&spans) {
            for (fb, &b) in sub.iter().zip(&spans) {
                let cs = || format!("forms pair a={} b={} ref={}", fmt_sp(fa), fmt_sp(fb), rf.name);
                let ord = |x: Result<Result<Ordering, jiff::Error>, String>| x.map(|v| v.map_err(|_| ()));
                let canon = ord(guard(|| match rf.rel() {
                    Some(rel) => a.compare((b, rel)),
                    None => a.compare(b),
                }));
                n += 3;
                let got = ord(guard(|| match rf.rel() {
                    Some(rel) => a.compare((&b, rel)),
                    None => a.compare(&b),
                }));
                same(r, &mut lc, "Span::compare", "&Span", &canon, got, &cs);
                let got = ord(guard(|| match &rf.k {
                    RfK::None => a.compare(SpanCompare::from(b)),
                    RfK::Marker => a.compare(SpanCompare::from(b).days_are_24_hours()),
                    RfK::Civil(dt, true) => a.compare((b, dt.date())),
                    RfK::Civil(dt, false) => a.compare((b, *dt)),
                    RfK::Zoned(z, _) => a.compare((b, z)),
                }));
                same(r, &mut lc, "Span::compare", typed_form(rf, false), &canon, got, &cs);
                let got = ord(guard(|| match &rf.k {
                    RfK::None => a.compare(SpanCompare::from(&b)),
                    RfK::Marker => a.compare(SpanCompare::from(&b).days_are_24_hours()),
                    RfK::Civil(dt, true) => a.compare((&b, dt.date())),
                    RfK::Civil(dt, false) => a.compare((&b, *dt)),
                    RfK::Zoned(z, _) => a.compare((&b, z)),
                }));
                same(r, &mut lc, "Span::compare", typed_form(rf, true), &canon, got, &cs);
                for sub_op in [false, true] {
                    let opn = if sub_op { "Span::checked_sub" } else { "Span::checked_add" };
                    let go = |o: SpanArithmetic<'_>| if sub_op { a.checked_sub(o) } else { a.checked_add(o) };
                    let canon = rnd(guard(|| match rf.rel() {
                        Some(rel) => go((b, rel).into()),
                        None => go(b.into()),
                    }));
                    n += 3;
                    let got = rnd(guard(|| match rf.rel() {
                        Some(rel) => go((&b, rel).into()),
                        None => go((&b).into()),
                    }));
                    same(r, &mut lc, opn, "&Span", &canon, got, &cs);
                    let got = rnd(guard(|| match &rf.k {
                        RfK::None => go(SpanArithmetic::from(b)),
                        RfK::Marker => go(SpanArithmetic::from(b).days_are_24_hours()),
                        RfK::Civil(dt, true) => go((b, dt.date()).into()),
                        RfK::Civil(dt, false) => go((b, *dt).into()),
                        RfK::Zoned(z, _) => go((b, z).into()),
                    }));
                    same(r, &mut lc, opn, typed_form(rf, false), &canon, got, &cs);
                    let got = rnd(guard(|| match &rf.k {
                        RfK::None => go(SpanArithmetic::from(&b)),
                        RfK::Marker => go(SpanArithmetic::from(&b).days_are_24_hours()),
                        RfK::Civil(dt, true) => go((&b, dt.date()).into()),
                        RfK::Civil(dt, false) => go((&b, *dt).into()),
                        RfK::Zoned(z, _) => go((&b, z).into()),
                    }));
                    same(r, &mut lc, opn, typed_form(rf, true), &canon, got, &cs);
                }
            }
        }
        r.add_states(sub.len() as u64);
        r.add_transitions(n);
        r.add_validated(n);
        lc.flush(r, "forms:");
    });
}

fn typed_form(rf: &Rf, by_ref: bool) -> &'static str {
    match (&rf.k, by_ref) {
        (RfK::None, false) => "From<Span>",
        (RfK::None, true) => "From<&Span>",
        (RfK::Marker, false) => "From<Span>.days_are_24_hours()",
        (RfK::Marker, true) => "From<&Span>.days_are_24_hours()",
        (RfK::Civil(_, true), false) => "(Span,Date)",
        (RfK::Civil(_, true), true) => "(&Span,Date)",
        (RfK::Civil(_, false), false) => "(Span,DateTime)",
        (RfK::Civil(_, false), true) => "(&Span,DateTime)",
        (RfK::Zoned(..), false) => "(Span,&Zoned)",
        (RfK::Zoned(..), true) => "(&Span,&Zoned)",
    }
}

// ---------------------------------------------------------------------------
// absolute durations as the second operand
// ---------------------------------------------------------------------------

/// nanosecond counts of the duration pool (each also negated)
fn duration_pool() -> Vec<SignedDuration> {
    let h = 3_600i64;
    let mut v = vec![SignedDuration::ZERO];
    let pos: [(i64, i32); 16] = [
        (0, 1),
        (0, 999_999_999),
        (1, 0),
        (59, 999_999_999),
        (h, 0),
        (24 * h - 1, 999_999_999),
        (24 * h, 0),
        (25 * h, 0),
        (7 * 24 * h, 0),
        (28 * 24 * h, 0),
        (30 * 24 * h, 0),
        (31 * 24 * h, 0),
        (366 * 24 * h, 1),
        (1 << 53, 0),
        (i64::MAX, 999_999_999),
        (631_107_417_600, 0),
    ];
    for (s, n) in pos {
        v.push(SignedDuration::new(s, n));
        v.push(SignedDuration::new(-s, -n));
    }
    v.push(SignedDuration::MIN);
    v
}

pub fn section_durations(r: &Report, refs: &[&Rf], sub: &[Sp]) {
    let sec = "arith_durations";
    let durs = duration_pool();
    refs.par_iter().for_each(|rf| {
        let mut lc = Loc::default();
        let mut n = 0u64;
        for fa in sub {
            let a = try_span(fa).unwrap();
            let own = own_largest(fa);
            let start = rf.point(r, fa);
            let refuse = match rf.k {
                RfK::None => own >= D,
                RfK::Marker => own >= MO,
                _ => false,
            };
            for &d in &durs {
                let dn = d.as_nanos();
                // kind 0: SignedDuration; kind 1: std::time::Duration (d >= 0)
                for kind in 0..2 {
                    if kind == 1 && d.is_negative() {
                        continue;
                    }
                    let ud = std::time::Duration::new(d.as_secs().unsigned_abs(), d.subsec_nanos().unsigned_abs());
                    for sub_op in [false, true] {
                        n += 1;
                        let opn = if sub_op { "checked_sub" } else { "checked_add" };
                        let kn = if kind == 0 { "SignedDuration" } else { "std::Duration" };
                        let cs = || format!("{} a={} d={}s{}ns[{}] ref={}", opn, fmt_sp(fa), d.as_secs(), d.subsec_nanos(), kn, rf.name);
                        let got = guard(|| {
                            let o: SpanArithmetic<'_> = match (&rf.k, kind) {
                                (RfK::None, 0) => d.into(),
                                (RfK::None, _) => ud.into(),
                                (RfK::Marker, 0) => SpanArithmetic::from(d).days_are_24_hours(),
                                (RfK::Marker, _) => SpanArithmetic::from(ud).days_are_24_hours(),
                                (RfK::Civil(dt, true), 0) => (d, dt.date()).into(),
                                (RfK::Civil(dt, true), _) => (ud, dt.date()).into(),
                                (RfK::Civil(dt, false), 0) => (d, *dt).into(),
                                (RfK::Civil(dt, false), _) => (ud, *dt).into(),
                                (RfK::Zoned(z, _), 0) => (d, z).into(),
                                (RfK::Zoned(z, _), _) => (ud, z).into(),
                            };
                            if sub_op {
                                a.checked_sub(o)
                            } else {
                                a.checked_add(o)
                            }
                        });
                        // (r + a) moved by exactly d nanoseconds
                        let end = start.map(|x| if sub_op { x - dn } else { x + dn }).filter(|&x| rf.in_range(x));
                        let zc = match (&rf.k, end) {
                            (RfK::Zoned(z, _), _) if rf.r_later => {
                                let _ = z;
                                "zoned:reference-on-later-side-of-fold"
                            }
                            (RfK::Zoned(z, _), Some(e)) => {
                                if conv::ts_from_ns(e).map(|t| later_side_of_fold(&t.to_zoned(z.time_zone().clone()))).unwrap_or(false) {
                                    "zoned:(r+a)+d-on-later-side-of-fold"
                                } else {
                                    "zoned"
                                }
                            }
                            _ => rf.kind(),
                        };
                        match got {
                            Err(p) => r.viol(sec, &format!("Span::{}({})/{}:{}", opn, kn, panic_sig(&p), zc), cs(), p),
                            Ok(Ok(s)) if refuse => r.viol(sec, &format!("Span::{}({})/accepted-without-reference:{}", opn, kn, rf.kind()), cs(), format!("jiff Ok({}) model: must be an error", fmt_sp(&fields(&s)))),
                            Ok(Err(_)) if refuse => lc.add("refused_as_required"),
                            Ok(Ok(s)) => {
                                let g = fields(&s);
                                if g.iter().any(|&x| x < 0) && g.iter().any(|&x| x > 0) {
                                    r.viol(sec, &format!("Span::{}({})/mixed-signs:{}", opn, kn, zc), cs(), format!("jiff {}", fmt_sp(&g)));
                                }
                                // documented ("for an absolute duration, its largest unit is
                                // considered to be nanoseconds"); recorded, not demanded
                                lc.add(if own_largest(&g) <= own { "result_units_within_a" } else { "result_unit_above_a" });
                                match (rf.point(r, &g), end) {
                                    (Some(x), Some(y)) => {
                                        if x == y {
                                            lc.add("ok");
                                            if dn != 0 {
                                                lc.add("ok_nonzero_duration");
                                            }
                                            if own >= D {
                                                lc.add("ok_calendar_a");
                                            }
                                        } else {
                                            r.viol(sec, &format!("Span::{}({})/endpoint:{}", opn, kn, zc), cs(), format!("jiff {}: r+result = {}, (r+a){}d = {}", fmt_sp(&g), conv::fmt_ns(x), if sub_op { "-" } else { "+" }, conv::fmt_ns(y)));
                                        }
                                    }
                                    _ => lc.add("ok_endpoint_unrepresentable"),
                                }
                            }
                            Ok(Err(e)) => {
                                let short = match (start, end) {
                                    (Some(s0), Some(e0)) => (s0 - rf.origin()).abs() < (1i128 << 62) && (e0 - rf.origin()).abs() < (1i128 << 62),
                                    _ => false,
                                };
                                if short && rf.mid {
                                    r.viol(sec, &format!("Span::{}({})/unexpected-error:{}", opn, kn, zc), cs(), format!("jiff Err({}) although (r+a) and (r+a)+-d exist and are less than 2^62 ns from r", e));
                                } else {
                                    lc.add("error_out_of_range");
                                }
                            }
                        }
                    }
                }
            }
        }
        r.add_states(sub.len() as u64);
        r.add_transitions(n);
        r.add_validated(n);
        lc.flush(r, "durations:");
    });
}

// ---------------------------------------------------------------------------
// the whole increment alphabet
// ---------------------------------------------------------------------------

fn all_increments(s: usize) -> Vec<i64> {
    match s {
        0 | 1 | 2 => {
            let mut v = BTreeSet::new();
            for d in num::divisors(1_000) {
                for x in [d - 1, d, d + 1] {
                    if x >= 1 {
                        v.insert(x);
                    }
                }
            }
            v.into_iter().collect()
        }
        3 | 4 => (1..=61).collect(),
        5 => (1..=25).collect(),
        _ => (1..=13).collect(),
    }
}

pub fn section_increments(r: &Report, refs: &[&Rf], pool: &[Sp]) {
    let sec = "round_increments";
    let items: Vec<(&Rf, &Sp)> = refs.iter().flat_map(|rf| pool.iter().map(move |f| (*rf, f))).collect();
    items.par_iter().for_each(|&(rf, f)| {
        if !wanted(r, rf, f) {
            return;
        }
        let c = mk_case(r, rf, f);
        let mut lc = Loc::default();
        let mut n = 0u64;
        for s in 0..10 {
            let lmax = rf.allowed().max(s);
            for inc in all_increments(s) {
                if time_inc_legal(s, inc) {
                    lc.add("legal_increment");
                } else {
                    lc.add("illegal_increment");
                }
                for l in [None, Some(lmax)] {
                    for m in 0..9 {
                        n += 1;
                        round_one(r, sec, &c, s, l, inc, m, &mut lc);
                    }
                }
            }
        }
        r.add_states(1);
        r.add_transitions(n);
        r.add_validated(n);
        lc.flush(r, "round_increments:");
    });
}
