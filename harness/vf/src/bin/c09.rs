//! C09: datetimes print to RFC 3339 / RFC 9557 text that parses back to the
//! same value. E1: complete enumeration of the declared alphabets; oracle =
//! round trip through jiff's own parser (same instant, civil fields, offset,
//! time zone) plus an independent reader (R-fmt, `c09/rfmt.rs`) that must
//! decode the printed text to the same instant via `refmodel::cal`.
//!
//! Both directions are covered: value -> text -> value for every value of the
//! pools, and canonical text -> value -> text (the independent writer W-fmt of
//! `c09/rfmt.rs` produces the text; what jiff prints must be that text). The
//! sections after `options` cover the remaining entry points: the
//! `offset_conflict` x `disambiguation` matrix of `DateTimeParser` on printed
//! zoned datetimes, `Pieces` (every combination of date/time/offset/annotation
//! presence), an enumerated grammar of canonical texts, lone time zones and
//! zones that cannot be named (POSIX, fixed offsets with seconds,
//! Etc/Unknown), and the `std::fmt` flags and `Write` adapters.

use jiff::civil::{Date, DateTime, Time};
use jiff::fmt::temporal::{DateTimeParser, DateTimePrinter, Pieces, PiecesNumericOffset, PiecesOffset, TimeZoneAnnotationKind};
use jiff::tz::{Disambiguation, Offset, OffsetConflict, TimeZone, TimeZoneDatabase};
use jiff::{Timestamp, Zoned};
use rayon::prelude::*;
use refmodel::cal;
use refmodel::tz as rtz;
use serde_json::json;
use std::collections::BTreeSet;
use std::sync::Mutex;
use vf::conv::{self, NS};
use vf::{guard, panic_sig, zones, Report};

#[path = "c09/rfmt.rs"]
mod rfmt;
use rfmt::Off;

/// All ten sub-second precisions plus three mixed values.
const SUBSEC: [i64; 13] = [
    0,
    1,
    10,
    100,
    1_000,
    10_000,
    100_000,
    1_000_000,
    10_000_000,
    100_000_000,
    999_999_999,
    123_456_789,
    500_000_000,
];

static PARSER: DateTimeParser = DateTimeParser::new();

fn main() {
    let r = Report::from_args("C09");
    sec_date(&r);
    sec_time(&r);
    sec_datetime(&r);
    sec_timestamp(&r);
    sec_ts_offset(&r);
    sec_zoned_sys(&r);
    sec_zoned_bundled(&r);
    sec_zoned_fixed(&r);
    sec_options(&r);
    sec_parser_options(&r);
    sec_pieces(&r);
    sec_canon(&r);
    sec_time_zone(&r);
    sec_fmt_flags(&r);

    if r.only_section.is_none() {
        r.require(r.get_count("dates") == (cal::max_day() - cal::min_day() + 1) as u64, "all 7304484 dates printed and parsed");
        r.require(r.get_count("dates_6digit_year") > 0 && r.get_count("dates_4digit_year") > 0, "both year formats seen");
        r.require(r.get_count("zoned_in_fold") > 0, "zoned instants inside folds probed");
        r.require(r.get_count("zoned_subminute_offset") > 0, "zoned instants with sub-minute offsets probed");
        r.require(r.get_count("zoned_fold_and_subminute") > 0, "zoned instants inside sub-minute folds probed");
        r.require(r.get_count("ts_offset_subminute") > 0 && r.get_count("ts_offset_whole_minute") > 0, "both offset kinds printed");
        r.require(r.get_count("options_lossy") > 0 && r.get_count("options_lossless") > 0, "lossy and lossless option cases");
        r.require(r.get_count("zoned_canonical_texts_compared") > 0 && r.get_count("zoned_text_parsed_as_other_types") > 0, "zoned texts compared with the canonical text and read as the smaller types");
        r.require(
            r.get_count("parser_options_ambiguity_errors_expected") > 0
                && r.get_count("parser_options_result_differs_from_original_in_fold") > 0
                && r.get_count("parser_options_always_offset_shifted_by_rounding") > 0,
            "parser options: ambiguity errors, fold sides and rounding shifts all occur",
        );
        r.require(
            r.get_count("pieces_values") > 100_000 && r.get_count("pieces_subminute_offset") > 0 && r.get_count("pieces_midnight_forced_by_offset") > 0,
            "pieces: all presence combinations, sub-minute offsets, forced midnight",
        );
        r.require(r.get_count("canon_pieces_texts_with_critical_flag") > 0 && r.get_count("canon_texts_refused_as_out_of_range") > 0 && r.get_count("canon_leap_second_texts") > 0, "canonical grammar: critical flags, out-of-range texts, second 60");
        r.require(
            r.get_count("time_zone_fixed_offsets") == 187_199 && r.get_count("time_zone_iana_names") > 500 && r.get_count("time_zone_posix_zoned_cases") > 0 && r.get_count("time_zone_unknown_zoned_cases") > 0,
            "lone time zones: all fixed offsets, all names, POSIX and unknown zones",
        );
        r.require(r.get_count("fmt_flags_cases") > 10_000 && r.get_count("fmt_flags_writer_cases") > 0, "format flags and writers exercised");
    }
    for k in [
        "dates_4digit_year",
        "dates_6digit_year",
        "zoned_in_fold",
        "zoned_subminute_offset",
        "zoned_fold_and_subminute",
        "zoned_f2_class",
        "zoned_distinct_printed_offsets",
        "ts_offset_subminute",
        "ts_offset_whole_minute",
        "options_lossy",
        "options_lossless",
        "reader_instants_compared",
        "zoned_canonical_texts_compared",
        "zoned_text_parsed_as_other_types",
        "parser_options_cases",
        "parser_options_excluded_known_or_undefined",
        "parser_options_ambiguity_errors_expected",
        "parser_options_result_differs_from_original_in_fold",
        "parser_options_always_offset_shifted_by_rounding",
        "pieces_values",
        "pieces_option_cases",
        "canon_texts",
        "canon_pieces_texts_with_critical_flag",
        "canon_texts_refused_as_out_of_range",
        "time_zone_fixed_offsets_with_seconds",
        "time_zone_text_instant_shifted_by_rounding",
        "fmt_flags_cases",
    ] {
        r.outcome(k, r.get_count(k));
    }
    r.finish();
}

// ---------------------------------------------------------------------------
// civil Date: all 7.3 M
// ---------------------------------------------------------------------------

fn sec_date(r: &Report) {
    r.section("date", || {
        let min = cal::min_day();
        let max = cal::max_day();
        let nch = 256i64;
        let total = max - min + 1;
        (0..nch).into_par_iter().for_each(|c| {
            let lo = min + total * c / nch;
            let hi = min + total * (c + 1) / nch - 1;
            let (mut n4, mut n6) = (0u64, 0u64);
            for e in lo..=hi {
                let (y, m, d) = cal::civil_from_days(e);
                let case = || format!("date {}-{:02}-{:02}", y, m, d);
                let res = guard(|| {
                    let v = Date::new(y as i16, m as i8, d as i8).unwrap();
                    let text = v.to_string();
                    let back = text.parse::<Date>();
                    (v, text, back)
                });
                let (v, text, back) = match res {
                    Err(p) => {
                        r.viol("date", &format!("Date::to_string->from_str/{}", panic_sig(&p)), case(), p);
                        continue;
                    }
                    Ok(x) => x,
                };
                match back {
                    Err(e) => r.viol("date", "Date::from_str(to_string)/parse-error", case(), format!("text {:?}: {}", text, e)),
                    Ok(b) => {
                        if b != v || conv::date_ymd(b) != (y, m, d) {
                            r.viol("date", "Date::from_str(to_string)/value", case(), format!("text {:?} parsed {:?}", text, b));
                        }
                    }
                }
                match rfmt::read_date(&text) {
                    Err(e) => r.viol("date", "Date::to_string/reader-grammar", case(), format!("text {:?}: {}", text, e)),
                    Ok(rd) => {
                        if rd.ymd != Some((y, m, d)) {
                            r.viol("date", "Date::to_string/reader-value", case(), format!("text {:?} read {:?}", text, rd.ymd));
                        }
                    }
                }
                // text -> value -> text: the independently written canonical
                // text of this date is what jiff printed (and just re-parsed)
                if text != rfmt::fmt_date(y, m, d) {
                    r.viol("date", "Date::to_string/not-the-canonical-text", case(), format!("jiff {:?} canonical {:?}", text, rfmt::fmt_date(y, m, d)));
                }
                if text.len() == 10 {
                    n4 += 1;
                } else {
                    n6 += 1;
                }
            }
            let n = (hi - lo + 1) as u64;
            r.add_states(n);
            r.add_transitions(3 * n);
            r.add_validated(2 * n);
            r.count("dates", n);
            r.count("dates_4digit_year", n4);
            r.count("dates_6digit_year", n6);
        });
        r.sample(json!({"section": "date", "example": Date::new(-9999, 1, 1).unwrap().to_string()}));
    });
}

// ---------------------------------------------------------------------------
// civil Time: every second x 13 sub-second values
// ---------------------------------------------------------------------------

fn sec_time(r: &Report) {
    r.section("time", || {
        (0..86_400i64).into_par_iter().for_each(|s| {
            for &ns in &SUBSEC {
                let (h, mi, ss) = (s / 3600, (s / 60) % 60, s % 60);
                let case = || format!("time {:02}:{:02}:{:02}.{:09}", h, mi, ss, ns);
                let res = guard(|| {
                    let v = Time::new(h as i8, mi as i8, ss as i8, ns as i32).unwrap();
                    let text = v.to_string();
                    let back = text.parse::<Time>();
                    (v, text, back)
                });
                let (v, text, back) = match res {
                    Err(p) => {
                        r.viol("time", &format!("Time::to_string->from_str/{}", panic_sig(&p)), case(), p);
                        continue;
                    }
                    Ok(x) => x,
                };
                match back {
                    Err(e) => r.viol("time", "Time::from_str(to_string)/parse-error", case(), format!("text {:?}: {}", text, e)),
                    Ok(b) => {
                        if b != v || conv::time_ns(b) != (s as i128) * NS + ns as i128 {
                            r.viol("time", "Time::from_str(to_string)/value", case(), format!("text {:?} parsed {:?}", text, b));
                        }
                    }
                }
                let canon = rfmt::fmt_time((s as i128) * NS + ns as i128, None);
                if text != canon {
                    r.viol("time", "Time::to_string/not-the-canonical-text", case(), format!("jiff {:?} canonical {:?}", text, canon));
                }
                match rfmt::read_time(&text) {
                    Err(e) => r.viol("time", "Time::to_string/reader-grammar", case(), format!("text {:?}: {}", text, e)),
                    Ok(rd) => {
                        let t = rd.time.unwrap();
                        if (t.0, t.1, t.2, t.3) != (h, mi, ss, ns) {
                            r.viol("time", "Time::to_string/reader-value", case(), format!("text {:?} read {:?}", text, t));
                        }
                    }
                }
            }
            let n = SUBSEC.len() as u64;
            r.add_states(n);
            r.add_transitions(3 * n);
            r.add_validated(2 * n);
        });
        r.count("times", 86_400 * SUBSEC.len() as u64);
    });
}

// ---------------------------------------------------------------------------
// civil DateTime: date pool x (every second x 13 sub-second values)
// ---------------------------------------------------------------------------

fn check_datetime(r: &Report, section: &str, v: DateTime) {
    let civil = conv::dt_civil_ns(v);
    let case = || format!("datetime civil_ns={}", civil);
    let res = guard(|| {
        let text = v.to_string();
        let back = text.parse::<DateTime>();
        (text, back)
    });
    let (text, back) = match res {
        Err(p) => {
            r.viol(section, &format!("DateTime::to_string->from_str/{}", panic_sig(&p)), case(), p);
            return;
        }
        Ok(x) => x,
    };
    match back {
        Err(e) => r.viol(section, "DateTime::from_str(to_string)/parse-error", case(), format!("text {:?}: {}", text, e)),
        Ok(b) => {
            if b != v || conv::dt_civil_ns(b) != civil {
                r.viol(section, "DateTime::from_str(to_string)/value", case(), format!("text {:?} parsed {:?}", text, b));
            }
        }
    }
    let canon = rfmt::fmt_civil(civil, b'T', None);
    if text != canon {
        r.viol(section, "DateTime::to_string/not-the-canonical-text", case(), format!("jiff {:?} canonical {:?}", text, canon));
    }
    match rfmt::read_full(&text, false, false) {
        Err(e) => r.viol(section, "DateTime::to_string/reader-grammar", case(), format!("text {:?}: {}", text, e)),
        Ok(rd) => {
            if rd.civil_ns() != Some(civil) || rd.sep != Some(b'T') {
                r.viol(section, "DateTime::to_string/reader-value", case(), format!("text {:?} read {:?}", text, rd));
            }
        }
    }
}

fn sec_datetime(r: &Report) {
    r.section("datetime", || {
        let dates = vf::pools::dates();
        // quick: every second of the day x {0, 1ns, .5, 999999999} and every
        // minute x all 13; thorough: every second x all 13.
        let quick = r.quick();
        let n: u64 = (0..86_400i64)
            .into_par_iter()
            .map(|s| {
                let mut n = 0u64;
                let subs: &[i64] = if quick && s % 60 != 0 { &[0, 1, 500_000_000, 999_999_999] } else { &SUBSEC };
                for d in &dates {
                    for &ns in subs {
                        let t = Time::new((s / 3600) as i8, ((s / 60) % 60) as i8, (s % 60) as i8, ns as i32).unwrap();
                        check_datetime(r, "datetime", DateTime::from_parts(*d, t));
                        n += 1;
                    }
                }
                n
            })
            .sum();
        // pool x pool as well (cheap)
        let mut m = 0;
        for dt in vf::pools::datetimes() {
            check_datetime(r, "datetime", dt);
            m += 1;
        }
        r.add_states(n + m);
        r.add_transitions(3 * (n + m));
        r.add_validated(2 * (n + m));
        r.count("datetimes", n + m);
    });
}

// ---------------------------------------------------------------------------
// Timestamp: pool + P(z) of Z-rep
// ---------------------------------------------------------------------------

/// The F13 input classes, computed from the text alone: the fraction is
/// non-zero and the civil date written in the text lies on the other side of
/// 1970-01-01 than the instant denoted (`IDateTime::to_timestamp` decides the
/// sign of the nanosecond from the civil day instead of the resulting second).
fn f13_class_of(civil_ns: i128, inst_ns: i128) -> Option<&'static str> {
    if inst_ns.rem_euclid(NS) == 0 {
        None
    } else if civil_ns < 0 && inst_ns >= 0 {
        Some("text-date<1970,fraction!=0,instant>=epoch")
    } else if civil_ns >= 0 && inst_ns < 0 {
        Some("text-date>=1970,fraction!=0,instant<epoch")
    } else {
        None
    }
}

fn f13_class(rd: &rfmt::Read) -> Option<&'static str> {
    match (rd.civil_ns(), rd.instant_ns()) {
        (Some(c), Some(i)) => f13_class_of(c, i),
        _ => None,
    }
}

/// Compare a parsed Timestamp with the expected instant. Returns the failure
/// class, if any.
fn ts_mismatch(parsed: Timestamp, want_ns: i128) -> Option<&'static str> {
    let want = Timestamp::from_nanosecond(want_ns).unwrap();
    if parsed.as_nanosecond() != want_ns {
        Some("instant")
    } else if parsed != want || parsed.as_second() != want.as_second() || parsed.subsec_nanosecond() != want.subsec_nanosecond() {
        // same instant by as_nanosecond() but not an equal value
        Some("not-equal-value")
    } else {
        None
    }
}

fn check_timestamp(r: &Report, section: &str, t_ns: i128) {
    let case = || format!("timestamp t={}", conv::fmt_ns(t_ns));
    let res = guard(|| {
        let v = Timestamp::from_nanosecond(t_ns).unwrap();
        let text = v.to_string();
        let back = text.parse::<Timestamp>();
        (text, back)
    });
    let (text, back) = match res {
        Err(p) => {
            r.viol(section, &format!("Timestamp::to_string->from_str/{}", panic_sig(&p)), case(), p);
            return;
        }
        Ok(x) => x,
    };
    match back {
        Err(e) => r.viol(section, "Timestamp::from_str(to_string)/parse-error", case(), format!("text {:?}: {}", text, e)),
        Ok(b) => {
            if let Some(cl) = ts_mismatch(b, t_ns) {
                r.viol(section, &format!("Timestamp::from_str(to_string)/{}", cl), case(), format!("text {:?} parsed {:?} ({}s {}ns)", text, b, b.as_second(), b.subsec_nanosecond()));
            }
        }
    }
    let canon = format!("{}Z", rfmt::fmt_civil(t_ns, b'T', None));
    if text != canon {
        r.viol(section, "Timestamp::to_string/not-the-canonical-text", case(), format!("jiff {:?} canonical {:?}", text, canon));
    }
    match rfmt::read_full(&text, true, false) {
        Err(e) => r.viol(section, "Timestamp::to_string/reader-grammar", case(), format!("text {:?}: {}", text, e)),
        Ok(rd) => {
            r.count("reader_instants_compared", 1);
            if rd.instant_ns() != Some(t_ns) || rd.off != Some(Off::Zulu) {
                r.viol(section, "Timestamp::to_string/reader-instant", case(), format!("text {:?} read {:?} -> {:?}", text, rd, rd.instant_ns()));
            }
        }
    }
}

fn ts_min() -> i128 {
    conv::ts_min_ns()
}
fn ts_max() -> i128 {
    conv::ts_max_ns()
}

/// P(z) around piece boundary k (k >= 1) of the model zone, plus the fold/gap
/// window edges and the interior point of piece k.
fn probes_for_piece(z: &rtz::Zone, k: usize, out: &mut Vec<i128>) {
    let t = z.pieces[k].start;
    out.extend(zones::instants_around(t));
    let ob = z.infos[z.pieces[k - 1].info as usize].utoff as i64;
    let oa = z.infos[z.pieces[k].info as usize].utoff as i64;
    let d = (oa - ob).abs();
    if d > 0 {
        for x in [t - d, t + d] {
            let b = x as i128 * NS;
            out.extend([b - 1, b, b + 1, b + 500_000_000]);
        }
        // a point strictly inside each half of the window
        out.push((t as i128 * NS) - (d as i128 * NS) / 2);
        out.push((t as i128 * NS) + (d as i128 * NS) / 2);
    }
    let end = z.piece_end(k).min(zones::TS_MAX_SEC);
    if end > t {
        out.push(((t as i128 + end as i128) / 2) * NS + 123_456_789);
    }
}

fn clip(v: &mut Vec<i128>) {
    let (lo, hi) = (ts_min(), ts_max());
    v.retain(|&x| x >= lo && x <= hi);
}

fn zone_edge_probes(z: &rtz::Zone) -> Vec<i128> {
    let mut v = vec![ts_min(), ts_min() + 1, ts_max() - 1, ts_max()];
    if z.pieces.len() > 1 {
        let first = z.pieces[1].start.max(zones::TS_MIN_SEC);
        v.push(((zones::TS_MIN_SEC as i128 + first as i128) / 2) * NS + 1);
    } else {
        v.push(1_700_000_000_123_456_789);
    }
    v
}

fn sec_timestamp(r: &Report) {
    r.section("timestamp", || {
        let mut all: BTreeSet<i128> = vf::pools::timestamps().into_iter().map(|t| t.as_nanosecond()).collect();
        for z in zones::rep() {
            let m = match rtz::zone_from_tzif(&z.bytes) {
                Ok(m) => m,
                Err(e) => {
                    r.note(format!("model refused {}: {}", z.name, e));
                    continue;
                }
            };
            let mut v = zone_edge_probes(&m);
            for k in zones::probe_pieces(&m, &|_| true) {
                probes_for_piece(&m, k, &mut v);
            }
            clip(&mut v);
            all.extend(v);
        }
        // every sub-second precision on both sides of the epoch
        for base in [0i128, -1, 1, -86_400, 1_700_000_000] {
            for &ns in &SUBSEC {
                all.insert(base * NS + ns as i128);
            }
        }
        let all: Vec<i128> = all.into_iter().collect();
        all.par_iter().for_each(|&t| check_timestamp(r, "timestamp", t));
        let n = all.len() as u64;
        r.add_states(n);
        r.add_transitions(3 * n);
        r.add_validated(2 * n);
        r.count("timestamps", n);
        r.sample(json!({"section": "timestamp", "example": Timestamp::MIN.to_string()}));
    });
}

// ---------------------------------------------------------------------------
// Timestamp::display_with_offset: all 187,199 offsets on four timestamps
// ---------------------------------------------------------------------------

fn check_ts_offset(r: &Report, section: &str, t_ns: i128, off: i32) {
    let case = || format!("display_with_offset t={} offset={}", conv::fmt_ns(t_ns), off);
    let whole = off % 60 == 0;
    // input class of F10: the offset rounds (half away from zero) to 26:00
    let rounds_to_26 = off.abs() >= 25 * 3600 + 59 * 60 + 30;
    let res = guard(|| {
        let v = Timestamp::from_nanosecond(t_ns).unwrap();
        let o = Offset::from_seconds(off).unwrap();
        let text = v.display_with_offset(o).to_string();
        let back = text.parse::<Timestamp>();
        (text, back)
    });
    let (text, back) = match res {
        Err(p) => {
            r.viol(section, &format!("Timestamp::display_with_offset->from_str/{}", panic_sig(&p)), case(), p);
            return;
        }
        Ok(x) => x,
    };
    let cls = if rounds_to_26 { "[|offset|>=25:59:30]" } else if whole { "" } else { "[subminute-offset]" };
    // documented form: the civil reading at the exact offset, followed by the
    // offset rounded to the minute (never Z, never -00:00 for a zero offset)
    // An offset in (-30 s, 0) rounds to zero: "the offset is known and is
    // zero" is written +00:00; the documentation rules -00:00 out ("will
    // never write either Z or -00:00"). That input class has its own name.
    let negzero = off < 0 && off > -30;
    let canon = format!("{}{}", rfmt::fmt_civil(t_ns + off as i128 * NS, b'T', None), if negzero { "+00:00".to_string() } else { rfmt::fmt_offset_min(off as i64) });
    if text != canon {
        let k = if negzero { "[-30s<offset<0:printed-as--00:00]" } else { cls };
        r.viol(section, &format!("Timestamp::display_with_offset/not-the-canonical-text{}", k), case(), format!("jiff {:?} canonical {:?}", text, canon));
    }
    let rd = match rfmt::read_full(&text, true, false) {
        Err(e) => {
            r.viol(section, &format!("Timestamp::display_with_offset/reader-grammar{}", cls), case(), format!("text {:?}: {}", text, e));
            None
        }
        Ok(rd) => Some(rd),
    };
    if let Some(rd) = &rd {
        if whole {
            r.count("reader_instants_compared", 1);
            let want_off = Off::Num { secs: off as i64, neg: off < 0 };
            if rd.instant_ns() != Some(t_ns) || rd.off != Some(want_off) {
                r.viol(section, "Timestamp::display_with_offset/reader-instant", case(), format!("text {:?} read {:?} -> {:?}", text, rd, rd.instant_ns()));
            }
        }
    }
    // A sub-minute offset is printed rounded (by design); within 30 s of
    // Timestamp::MIN/MAX the text may then denote an instant outside the
    // range, which the parser rightly refuses.
    let text_out_of_range = !whole && rd.as_ref().and_then(|x| x.instant_ns()).map(|i| i < ts_min() || i > ts_max()).unwrap_or(false);
    match back {
        Err(_) if text_out_of_range => {}
        Err(e) => r.viol(section, &format!("Timestamp::from_str(display_with_offset)/parse-error{}", cls), case(), format!("text {:?}: {}", text, e)),
        Ok(b) => {
            // whole-minute offsets: the original instant. Sub-minute offsets
            // are rounded by design, so there the text is the authority: what
            // the independent reader decodes from it.
            let want = if whole { Some(t_ns) } else { rd.as_ref().and_then(|x| x.instant_ns()) };
            if let Some(want) = want {
                if want >= ts_min() && want <= ts_max() {
                    if let Some(cl) = ts_mismatch(b, want) {
                        let f13 = rd.as_ref().and_then(f13_class).filter(|_| cl == "not-equal-value");
                        let k = match f13 {
                            Some(c) => format!("[{}]", c),
                            None => cls.to_string(),
                        };
                        r.viol(
                            section,
                            &format!("Timestamp::from_str(display_with_offset)/{}{}", cl, k),
                            case(),
                            format!("text {:?} parsed {:?} (second={} subsec={}) want ns={}", text, b, b.as_second(), b.subsec_nanosecond(), want),
                        );
                    }
                }
            }
        }
    }
}

fn sec_ts_offset(r: &Report) {
    r.section("ts_offset", || {
        let tss: [i128; 4] = [0, 1, 1_718_454_896_789_000_000, -1_500_000_000];
        let max = 25 * 3600 + 59 * 60 + 59;
        (-max..=max).into_par_iter().for_each(|off| {
            for &t in &tss {
                check_ts_offset(r, "ts_offset", t, off);
            }
        });
        let n_off = (2 * max + 1) as u64;
        let whole = (2 * (max / 60) + 1) as u64;
        r.count("ts_offset_whole_minute", whole * 4);
        r.count("ts_offset_subminute", (n_off - whole) * 4);
        // pool timestamps x boundary offsets
        let offs: [i32; 16] = [-max, -max + 29, -max + 30, -3600, -61, -60, -31, -30, -29, -1, 0, 1, 19_800, 45_900, max - 30, max];
        let mut m = 0u64;
        for t in vf::pools::timestamps() {
            for &o in &offs {
                check_ts_offset(r, "ts_offset", t.as_nanosecond(), o);
                m += 1;
            }
        }
        let n = n_off * 4 + m;
        r.add_states(n);
        r.add_transitions(3 * n);
        r.add_validated(2 * n);
        r.count("ts_offset_cases", n);
    });
}

// ---------------------------------------------------------------------------
// Zoned
// ---------------------------------------------------------------------------

#[derive(Default, Clone, Copy)]
struct Cls {
    fold: bool,
    submin: bool,
    f2: bool,
    f7: bool,
    f13: Option<&'static str>,
    /// in a fold whose two offsets are printed as the same whole minute: the
    /// RFC 9557 text then carries no information about which side is meant
    same_minute: bool,
    /// the model's offset at the instant (seconds east)
    off: i64,
    /// more than two instants share the civil reading (pathological data)
    many_preimages: bool,
    /// the earliest and latest instant (unix seconds) with this civil reading
    pre_first: i64,
    pre_last: i64,
}

impl Cls {
    fn suffix(&self) -> String {
        let mut v = vec![];
        if self.fold {
            v.push("fold");
        }
        if self.submin {
            v.push("subminute-offset");
        }
        if self.same_minute {
            v.push("both-fold-offsets-print-as-the-same-minute");
        }
        // the F2 class is named only outside sub-minute folds (there F3's
        // class already explains a failure; F2 would show at every other
        // pre-1970 transition as well)
        if self.f2 && !(self.fold && self.submin) {
            v.push("fraction!=0,within-1s-before-pre1970-transition");
        }
        if self.f7 {
            v.push("between-posix-rule-transition-outside-its-rule-year-and-new-year");
        }
        if let Some(c) = self.f13 {
            v.push(c);
        }
        if v.is_empty() {
            String::new()
        } else {
            format!("[{}]", v.join(","))
        }
    }
}

/// Input class of an instant in a zone, from the reference model only.
/// `printed_ns` is the instant after truncation to the printed precision.
fn classify(z: &rtz::Zone, t_ns: i128, printed_ns: i128) -> Cls {
    let sec = t_ns.div_euclid(NS) as i64;
    let frac = t_ns.rem_euclid(NS);
    let i = z.piece_index_at(sec);
    let off = z.infos[z.pieces[i].info as usize].utoff as i64;
    let pre = z.preimages(sec + off);
    let fold = pre.len() >= 2;
    let submin = off % 60 != 0 || pre.iter().any(|&(_, k)| z.infos[z.pieces[k].info as usize].utoff % 60 != 0);
    let f2 = frac != 0
        && t_ns < 0
        && i + 1 < z.pieces.len()
        && z.pieces[i + 1].start == sec + 1
        && z.infos[z.pieces[i + 1].info as usize].utoff as i64 != off;
    // F7 class: a rule-generated transition whose exact UTC instant falls in
    // the year next to the rule's own year (necessarily within a day or so of
    // New Year); the instant lies between that transition and the New Year.
    let mut f7 = false;
    for k in i.saturating_sub(3)..(i + 4).min(z.pieces.len()) {
        let p = &z.pieces[k];
        if !p.crosses_year {
            continue;
        }
        let day = p.start.div_euclid(86400);
        let (y, m, _) = cal::civil_from_days(day);
        let (lo, hi) = if m == 12 {
            (p.start, cal::days_from_civil(y + 1, 1, 1) * 86400)
        } else {
            (cal::days_from_civil(y, 1, 1) * 86400, p.start)
        };
        if sec >= lo && sec < hi {
            f7 = true;
        }
    }
    let f13 = f13_class_of(printed_ns + off as i128 * NS, printed_ns);
    let round_min = |o: i32| -> i32 { o.signum() * ((o.abs() + 30) / 60) };
    let same_minute = pre.len() == 2
        && round_min(z.infos[z.pieces[pre[0].1].info as usize].utoff) == round_min(z.infos[z.pieces[pre[1].1].info as usize].utoff);
    let pre_first = pre.iter().map(|p| p.0).min().unwrap_or(sec);
    let pre_last = pre.iter().map(|p| p.0).max().unwrap_or(sec);
    Cls { fold, submin, f2, f7, f13, same_minute, off, many_preimages: pre.len() > 2, pre_first, pre_last }
}

#[derive(Default)]
struct ZStats {
    n: u64,
    fold: u64,
    submin: u64,
    both: u64,
    f2: u64,
    reader: u64,
    canon: u64,
    smaller: u64,
}

/// One Zoned round trip. `want_ann` is the annotation the text must carry.
/// `prec`: None = default printer (lossless); Some((printer, digits)) = lossy.
#[allow(clippy::too_many_arguments)]
fn check_zoned(
    r: &Report,
    section: &str,
    zname: &str,
    want_ann: &str,
    tz: &TimeZone,
    model: Option<&rtz::Zone>,
    t_ns: i128,
    parse: &(dyn Fn(&str) -> Result<Zoned, String> + Sync),
    opt: Option<&Opt>,
    st: &mut ZStats,
    offsets_seen: Option<&Mutex<BTreeSet<String>>>,
    extras: bool,
) {
    // expected value: the original truncated to the printed precision
    let want_ns = match opt {
        None => t_ns,
        Some(o) => o.truncate(t_ns),
    };
    let cls = model.map(|m| classify(m, t_ns, want_ns)).unwrap_or_default();
    st.n += 1;
    st.fold += cls.fold as u64;
    st.submin += cls.submin as u64;
    st.both += (cls.fold && cls.submin) as u64;
    st.f2 += cls.f2 as u64;
    let sfx = cls.suffix();
    let optname = opt.map(|o| o.name()).unwrap_or_default();
    let case = || format!("zoned zone={} t={}{}", zname, conv::fmt_ns(t_ns), optname);
    let op = if opt.is_some() { "DateTimePrinter::zoned_to_string" } else { "Zoned::to_string" };
    let res = guard(|| {
        let ts = Timestamp::from_nanosecond(t_ns).unwrap();
        let z = ts.to_zoned(tz.clone());
        let text = match opt {
            None => z.to_string(),
            Some(o) => o.printer().zoned_to_string(&z),
        };
        let back = parse(&text);
        (z, text, back)
    });
    let (z, text, back) = match res {
        Err(p) => {
            r.viol(section, &format!("{}->parse/{}{}", op, panic_sig(&p), sfx), case(), p);
            return;
        }
        Ok(x) => x,
    };
    match &back {
        Err(e) => r.viol(section, &format!("{}->parse/parse-error{}", op, sfx), case(), format!("text {:?}: {}", text, e)),
        Ok(b) => {
            let mut bad = vec![];
            if b.timestamp().as_nanosecond() != want_ns {
                bad.push("instant");
            } else if b.timestamp() != Timestamp::from_nanosecond(want_ns).unwrap() {
                bad.push("timestamp-not-equal-value");
            }
            if b.offset() != z.offset() {
                bad.push("offset");
            }
            let want_civil = conv::dt_civil_ns(z.datetime()) - (t_ns - want_ns);
            if conv::dt_civil_ns(b.datetime()) != want_civil {
                bad.push("civil");
            }
            if b.time_zone() != z.time_zone() {
                bad.push("time-zone");
            }
            if let Some(first) = bad.first() {
                r.viol(
                    section,
                    &format!("{}->parse/{}{}", op, first, sfx),
                    case(),
                    format!(
                        "text {:?}; original {} ns offset {}s; parsed {:?} = {} ns offset {}s; differs in {:?}",
                        text,
                        t_ns,
                        z.offset().seconds(),
                        b,
                        b.timestamp().as_nanosecond(),
                        b.offset().seconds(),
                        bad
                    ),
                );
            }
        }
    }
    // text -> value -> text: the canonical text written independently from the
    // model (civil reading at the model's offset, that offset rounded to the
    // minute, the annotation) is what jiff printed and has just re-parsed.
    // Not judged inside the F7 window, where jiff's offset is the known wrong one.
    if model.is_some() && !cls.f7 {
        let (sep, prec) = match opt {
            None => (b'T', None),
            Some(o) => (o.printed_sep(), o.precision),
        };
        let negzero = cls.off < 0 && cls.off > -30;
        let offs = if negzero { "+00:00".to_string() } else { rfmt::fmt_offset_min(cls.off) };
        let canon = format!("{}{}[{}]", rfmt::fmt_civil(want_ns + cls.off as i128 * NS, sep, prec), offs, want_ann);
        st.canon += 1;
        if text != canon {
            let k = if negzero { "[-30s<offset<0:printed-as--00:00]" } else { "" };
            r.viol(section, &format!("{}/not-the-canonical-text{}", op, k), case(), format!("jiff {:?} canonical {:?}", text, canon));
        }
    }
    let rdres = rfmt::read_full(&text, true, true);
    if extras && opt.is_none() {
        if let Ok(rd) = &rdres {
            smaller_types_from_text(r, section, "Zoned::to_string", &case(), &text, rd);
            st.smaller += 4;
        }
        pieces_from_zoned(r, section, &case(), &z, &text);
        st.smaller += 1;
        // "we also support parsing the actual fractional minute offset": the
        // same text with the offset at full precision denotes the original
        // instant exactly, on either side of any fold
        if model.is_some() && !cls.f7 && cls.off % 60 != 0 {
            let full = format!("{}{}[{}]", rfmt::fmt_civil(t_ns + cls.off as i128 * NS, b'T', None), rfmt::fmt_offset_full(cls.off), want_ann);
            st.smaller += 1;
            match guard(|| parse(&full).map(|b| (b.timestamp().as_nanosecond(), b.offset().seconds() as i64))) {
                Err(p) => r.viol(section, &format!("Zoned::from_str(text-with-full-precision-offset)/{}", panic_sig(&p)), case(), p),
                Ok(Err(e)) => r.viol(section, "Zoned::from_str(text-with-full-precision-offset)/parse-error", case(), format!("text {:?}: {}", full, e)),
                Ok(Ok((g, goff))) => {
                    if g != t_ns || goff != cls.off {
                        r.viol(section, "Zoned::from_str(text-with-full-precision-offset)/instant", case(), format!("text {:?} parsed {} ns offset {} want {} ns offset {}", full, g, goff, t_ns, cls.off));
                    }
                }
            }
        }
    }
    match &rdres {
        Err(e) => r.viol(section, &format!("{}/reader-grammar{}", op, sfx), case(), format!("text {:?}: {}", text, e)),
        Ok(rd) => {
            if rd.ann.as_deref() != Some(want_ann) {
                r.viol(section, &format!("{}/reader-annotation", op), case(), format!("text {:?} want annotation {:?}", text, want_ann));
            }
            if let Some(o) = opt {
                if rd.sep != Some(o.printed_sep()) || rd.time.map(|t| t.4) != o.want_digits(t_ns) {
                    r.viol(section, &format!("{}/reader-options", op), case(), format!("text {:?} read {:?}", text, rd));
                }
            }
            if z.offset().seconds() % 60 == 0 {
                st.reader += 1;
                if rd.instant_ns() != Some(want_ns) {
                    r.viol(section, &format!("{}/reader-instant{}", op, sfx), case(), format!("text {:?} read instant {:?} want {}", text, rd.instant_ns(), want_ns));
                }
            }
            if let (Some(set), Some(Off::Num { secs, .. })) = (offsets_seen, &rd.off) {
                let key = format!("{}", secs);
                let mut g = set.lock().unwrap();
                if !g.contains(&key) {
                    g.insert(key);
                }
            }
        }
    }
}


/// "Smaller types can generally be parsed from strings representing a bigger
/// type": the printed text of a zoned datetime (or of a timestamp with a
/// numeric offset) read as a Timestamp (the offset is used, the annotation
/// ignored), a civil DateTime, Date and Time. Expected values are what the
/// independent reader decodes from the text.
fn smaller_types_from_text(r: &Report, section: &str, src: &str, case: &str, text: &str, rd: &rfmt::Read) {
    // Timestamp
    if let Some(inst) = rd.instant_ns() {
        let in_range = inst >= ts_min() && inst <= ts_max();
        match guard(|| text.parse::<Timestamp>()) {
            Err(p) => r.viol(section, &format!("Timestamp::from_str({})/{}", src, panic_sig(&p)), case, p),
            Ok(Err(e)) => {
                if in_range {
                    r.viol(section, &format!("Timestamp::from_str({})/parse-error", src), case, format!("text {:?}: {}", text, e));
                }
            }
            Ok(Ok(b)) => {
                if !in_range {
                    r.viol(section, &format!("Timestamp::from_str({})/accepted-out-of-range", src), case, format!("text {:?} parsed {:?}", text, b));
                } else if let Some(cl) = ts_mismatch(b, inst) {
                    let k = f13_class(rd).filter(|_| cl == "not-equal-value").map(|c| format!("[{}]", c)).unwrap_or_default();
                    r.viol(section, &format!("Timestamp::from_str({})/{}{}", src, cl, k), case, format!("text {:?} parsed {:?} want ns {}", text, b, inst));
                }
            }
        }
    }
    // civil types
    let civil = rd.civil_ns().unwrap();
    match guard(|| text.parse::<DateTime>()) {
        Err(p) => r.viol(section, &format!("DateTime::from_str({})/{}", src, panic_sig(&p)), case, p),
        Ok(Err(e)) => r.viol(section, &format!("DateTime::from_str({})/parse-error", src), case, format!("text {:?}: {}", text, e)),
        Ok(Ok(b)) => {
            if conv::dt_civil_ns(b) != civil {
                r.viol(section, &format!("DateTime::from_str({})/value", src), case, format!("text {:?} parsed {}", text, b));
            }
        }
    }
    match guard(|| text.parse::<Date>()) {
        Err(p) => r.viol(section, &format!("Date::from_str({})/{}", src, panic_sig(&p)), case, p),
        Ok(Err(e)) => r.viol(section, &format!("Date::from_str({})/parse-error", src), case, format!("text {:?}: {}", text, e)),
        Ok(Ok(b)) => {
            if Some(conv::date_ymd(b)) != rd.ymd {
                r.viol(section, &format!("Date::from_str({})/value", src), case, format!("text {:?} parsed {}", text, b));
            }
        }
    }
    match guard(|| text.parse::<Time>()) {
        Err(p) => r.viol(section, &format!("Time::from_str({})/{}", src, panic_sig(&p)), case, p),
        Ok(Err(e)) => r.viol(section, &format!("Time::from_str({})/parse-error", src), case, format!("text {:?}: {}", text, e)),
        Ok(Ok(b)) => {
            if conv::time_ns(b) != civil.rem_euclid(conv::DAY_NS) {
                r.viol(section, &format!("Time::from_str({})/value", src), case, format!("text {:?} parsed {}", text, b));
            }
        }
    }
}

/// `Pieces::from(&Zoned)` "populates all fields": its text is the zoned
/// datetime's own text, and it parses back to equal pieces (whole-minute
/// offsets) resp. to pieces that print the same text again (sub-minute
/// offsets, rounded by design).
fn pieces_from_zoned(r: &Report, section: &str, case: &str, z: &Zoned, text: &str) {
    let whole = z.offset().seconds() % 60 == 0;
    let res = guard(|| {
        let p = Pieces::from(z);
        let s = p.to_string();
        let back = match Pieces::parse(&s) {
            Err(e) => Err(e.to_string()),
            Ok(b) => Ok((b == p, b.to_string() == s)),
        };
        (s, back)
    });
    match res {
        Err(p) => r.viol(section, &format!("Pieces::from(&Zoned)::to_string->parse/{}", panic_sig(&p)), case, p),
        Ok((s, back)) => {
            if s != text {
                r.viol(section, "Pieces::from(&Zoned)::to_string/differs-from-Zoned::to_string", case, format!("pieces {:?} zoned {:?}", s, text));
            }
            match back {
                Err(e) => r.viol(section, "Pieces::parse(Pieces::from(&Zoned)::to_string)/parse-error", case, format!("text {:?}: {}", s, e)),
                Ok((eq, fix)) => {
                    if whole && !eq {
                        r.viol(section, "Pieces::parse(Pieces::from(&Zoned)::to_string)/value", case, format!("text {:?} parses to different pieces", s));
                    }
                    if !fix {
                        r.viol(section, "Pieces::parse(Pieces::from(&Zoned)::to_string)/reprints-differently", case, format!("text {:?}", s));
                    }
                }
            }
        }
    }
}

fn flush_stats(r: &Report, st: &ZStats) {
    r.add_states(st.n);
    r.add_transitions(3 * st.n);
    r.add_validated(st.n + st.reader + st.canon + st.smaller);
    r.add_transitions(st.smaller);
    r.count("zoned_canonical_texts_compared", st.canon);
    r.count("zoned_text_parsed_as_other_types", st.smaller);
    r.count("zoned_cases", st.n);
    r.count("zoned_in_fold", st.fold);
    r.count("zoned_subminute_offset", st.submin);
    r.count("zoned_fold_and_subminute", st.both);
    r.count("zoned_f2_class", st.f2);
    r.count("reader_instants_compared", st.reader);
}

struct ZJob {
    name: String,
    model: rtz::Zone,
    tz: TimeZone,
    pieces: Vec<usize>,
}

/// Run the Zoned round trip over P(z) of every job.
fn run_zone_jobs(r: &Report, section: &str, jobs: &[ZJob], parse: &(dyn Fn(&str) -> Result<Zoned, String> + Sync)) {
    let seen: Mutex<BTreeSet<String>> = Mutex::new(BTreeSet::new());
    // tasks: (job, chunk of pieces); chunk None = the zone's edge probes
    let mut tasks: Vec<(usize, Option<(usize, usize)>)> = vec![];
    for (j, job) in jobs.iter().enumerate() {
        tasks.push((j, None));
        let mut i = 0;
        while i < job.pieces.len() {
            let e = (i + 256).min(job.pieces.len());
            tasks.push((j, Some((i, e))));
            i = e;
        }
    }
    tasks.par_iter().for_each(|&(j, ch)| {
        let job = &jobs[j];
        let mut v = vec![];
        match ch {
            None => {
                v = zone_edge_probes(&job.model);
                v.extend(vf::pools::timestamps().into_iter().map(|t| t.as_nanosecond()));
            }
            Some((a, b)) => {
                for &k in &job.pieces[a..b] {
                    probes_for_piece(&job.model, k, &mut v);
                }
            }
        }
        clip(&mut v);
        v.sort_unstable();
        v.dedup();
        let mut st = ZStats::default();
        for &t in &v {
            check_zoned(r, section, &job.name, &job.name, &job.tz, Some(&job.model), t, parse, None, &mut st, Some(&seen), true);
        }
        flush_stats(r, &st);
    });
    r.count("zoned_distinct_printed_offsets", seen.lock().unwrap().len() as u64);
    r.count("zoned_zones", jobs.len() as u64);
}

fn sec_zoned_sys(r: &Report) {
    r.section("zoned_sys", || {
        let db = jiff::tz::db();
        let mut names: Vec<String> = match guard(|| db.available().map(|n| n.as_str().to_string()).collect::<Vec<_>>()) {
            Ok(v) => v,
            Err(p) => {
                r.viol("zoned_sys", &format!("TimeZoneDatabase::available/{}", panic_sig(&p)), "db()", p);
                return;
            }
        };
        names.sort();
        r.require(names.len() > 500, "system tzdb visible through jiff::tz::db()");
        let quick = r.quick();
        let jobs: Vec<ZJob> = names
            .par_iter()
            .filter_map(|name| {
                let bytes = std::fs::read(format!("{}/{}", zones::SYS_DIR, name)).ok()?;
                let model = match rtz::zone_from_tzif(&bytes) {
                    Ok(m) => m,
                    Err(e) => {
                        r.note(format!("model refused {}: {}", name, e));
                        return None;
                    }
                };
                let tz = match guard(|| db.get(name)) {
                    Err(p) => {
                        r.viol("zoned_sys", &format!("TimeZoneDatabase::get/{}", panic_sig(&p)), format!("zone={}", name), p);
                        return None;
                    }
                    Ok(Err(e)) => {
                        r.viol("zoned_sys", "TimeZoneDatabase::get/error-for-available-name", format!("zone={}", name), e.to_string());
                        return None;
                    }
                    Ok(Ok(tz)) => tz,
                };
                if tz.iana_name() != Some(name.as_str()) {
                    r.note(format!("zone {} reports iana_name {:?}; skipped", name, tz.iana_name()));
                    return None;
                }
                // quick: representative zones get every transition to year
                // 9999, all other names their recorded transitions.
                // thorough: every name, every transition.
                let is_rep = zones::REP.contains(&name.as_str());
                let pieces = if !quick || is_rep { zones::probe_pieces(&model, &|_| true) } else { zones::probe_pieces(&model, &|_| false) };
                Some(ZJob { name: name.clone(), model, tz, pieces })
            })
            .collect();
        r.count("zoned_sys_names", jobs.len() as u64);
        let dirdb = TimeZoneDatabase::from_dir(zones::SYS_DIR).expect("from_dir");
        // FromStr (global database) and, in lockstep, an explicit from_dir
        // database: both must give the same value.
        let parse = move |s: &str| -> Result<Zoned, String> {
            let a = s.parse::<Zoned>();
            let b = PARSER.parse_zoned_with(&dirdb, s);
            match (a, b) {
                (Ok(a), Ok(b)) => {
                    if a.timestamp() != b.timestamp() || a.time_zone() != b.time_zone() {
                        Err(format!("FromStr gives {:?} but parse_zoned_with(from_dir) gives {:?}", a, b))
                    } else {
                        Ok(a)
                    }
                }
                (Err(a), Err(_)) => Err(a.to_string()),
                (Ok(a), Err(b)) => Err(format!("FromStr gives {:?} but parse_zoned_with(from_dir) fails: {}", a, b)),
                (Err(a), Ok(b)) => Err(format!("parse_zoned_with(from_dir) gives {:?} but FromStr fails: {}", b, a)),
            }
        };
        run_zone_jobs(r, "zoned_sys", &jobs, &parse);
        r.sample(json!({"section": "zoned_sys", "zones": jobs.len(), "pieces": jobs.iter().map(|j| j.pieces.len()).sum::<usize>()}));
    });
}

fn sec_zoned_bundled(r: &Report) {
    r.section("zoned_bundled", || {
        let db = TimeZoneDatabase::bundled();
        let quick = r.quick();
        let mut names: Vec<&'static str> = jiff_tzdb::available().collect();
        names.sort();
        if quick {
            names.retain(|n| zones::REP.contains(n));
        }
        let jobs: Vec<ZJob> = names
            .par_iter()
            .filter_map(|name| {
                let (_, bytes) = jiff_tzdb::get(name)?;
                let model = match rtz::zone_from_tzif(bytes) {
                    Ok(m) => m,
                    Err(e) => {
                        r.note(format!("model refused bundled {}: {}", name, e));
                        return None;
                    }
                };
                let tz = match guard(|| db.get(name)) {
                    Err(p) => {
                        r.viol("zoned_bundled", &format!("TimeZoneDatabase::get/{}", panic_sig(&p)), format!("zone={}", name), p);
                        return None;
                    }
                    Ok(Err(e)) => {
                        r.viol("zoned_bundled", "TimeZoneDatabase::get/error-for-available-name", format!("zone={}", name), e.to_string());
                        return None;
                    }
                    Ok(Ok(tz)) => tz,
                };
                // quick: recorded transitions and rule years up to 2100
                let pieces = if quick { zones::probe_pieces(&model, &|y| y <= 2100) } else { zones::probe_pieces(&model, &|_| true) };
                Some(ZJob { name: name.to_string(), model, tz, pieces })
            })
            .collect();
        r.count("zoned_bundled_names", jobs.len() as u64);
        let parse = move |s: &str| PARSER.parse_zoned_with(&db, s).map_err(|e| e.to_string());
        run_zone_jobs(r, "zoned_bundled", &jobs, &parse);
    });
}

fn fixed_name(off: i32) -> String {
    if off == 0 {
        return "UTC".to_string();
    }
    let a = off.abs();
    format!("{}{:02}:{:02}", if off < 0 { '-' } else { '+' }, a / 3600, (a % 3600) / 60)
}

fn sec_zoned_fixed(r: &Report) {
    r.section("zoned_fixed", || {
        let maxm = 25 * 60 + 59;
        let tss: Vec<i128> = vf::pools::timestamps().into_iter().map(|t| t.as_nanosecond()).collect();
        let parse = |s: &str| s.parse::<Zoned>().map_err(|e| e.to_string());
        (-maxm..=maxm).into_par_iter().for_each(|m: i32| {
            let off = m * 60;
            let tz = match guard(|| TimeZone::fixed(Offset::from_seconds(off).unwrap())) {
                Ok(tz) => tz,
                Err(p) => {
                    r.viol("zoned_fixed", &format!("TimeZone::fixed/{}", panic_sig(&p)), format!("offset={}", off), p);
                    return;
                }
            };
            let name = fixed_name(off);
            let fm = rtz::zone_fixed(off, "");
            let mut st = ZStats::default();
            for &t in &tss {
                check_zoned(r, "zoned_fixed", &format!("fixed{}", off), &name, &tz, Some(&fm), t, &parse, None, &mut st, None, true);
            }
            flush_stats(r, &st);
        });
        r.count("zoned_fixed_offsets", (2 * maxm + 1) as u64);
    });
}

// ---------------------------------------------------------------------------
// printer options
// ---------------------------------------------------------------------------

#[derive(Clone, Copy, Debug)]
struct Opt {
    precision: Option<u8>,
    sep: u8,
    lower: bool,
}

impl Opt {
    fn all() -> Vec<Opt> {
        let mut v = vec![];
        let mut precs: Vec<Option<u8>> = vec![None];
        precs.extend((0..=9).map(Some));
        for &precision in &precs {
            for sep in [b'T', b't', b' '] {
                for lower in [false, true] {
                    v.push(Opt { precision, sep, lower });
                }
            }
        }
        v
    }
    fn name(&self) -> String {
        format!(" precision={:?} sep={:?} lowercase={}", self.precision, self.sep as char, self.lower)
    }
    fn printer(&self) -> DateTimePrinter {
        DateTimePrinter::new().precision(self.precision).separator(self.sep).lowercase(self.lower)
    }
    fn printed_sep(&self) -> u8 {
        if self.lower {
            self.sep.to_ascii_lowercase()
        } else {
            self.sep
        }
    }
    /// floor to the printed precision (the civil fraction is the floor
    /// fraction of the instant because offsets are whole seconds)
    fn truncate(&self, ns: i128) -> i128 {
        match self.precision {
            None => ns,
            Some(p) => {
                let unit = 10i128.pow(9 - p.min(9) as u32);
                ns.div_euclid(unit) * unit
            }
        }
    }
    fn lossy(&self, ns: i128) -> bool {
        self.truncate(ns) != ns
    }
    /// number of fraction digits the text must carry
    fn want_digits(&self, ns: i128) -> Option<u8> {
        match self.precision {
            Some(p) => Some(p.min(9)),
            None => {
                let mut f = ns.rem_euclid(NS);
                if f == 0 {
                    return Some(0);
                }
                let mut d = 9u8;
                while f % 10 == 0 {
                    f /= 10;
                    d -= 1;
                }
                Some(d)
            }
        }
    }
}

fn sec_options(r: &Report) {
    r.section("options", || {
        let opts = Opt::all();
        let quick = r.quick();
        let n_lossy = std::sync::atomic::AtomicU64::new(0);
        let n_lossless = std::sync::atomic::AtomicU64::new(0);
        let tally = |o: &Opt, ns: i128| {
            use std::sync::atomic::Ordering::Relaxed;
            if o.lossy(ns) {
                n_lossy.fetch_add(1, Relaxed);
            } else {
                n_lossless.fetch_add(1, Relaxed);
            }
        };

        // --- Time and DateTime pools ---------------------------------------
        let mut times: Vec<Time> = vf::pools::times();
        for &ns in &SUBSEC {
            times.push(Time::new(7, 8, 9, ns as i32).unwrap());
            times.push(Time::new(23, 59, 59, ns as i32).unwrap());
        }
        let mut dts: Vec<DateTime> = vf::pools::datetimes();
        for d in vf::pools::dates() {
            for t in &times {
                dts.push(DateTime::from_parts(d, *t));
            }
        }
        opts.par_iter().for_each(|o| {
            let pr = o.printer();
            for t in &times {
                let tn = conv::time_ns(*t);
                tally(o, tn);
                let case = || format!("time {}{}", t, o.name());
                match guard(|| {
                    let text = pr.time_to_string(t);
                    let back = PARSER.parse_time(&text);
                    (text, back)
                }) {
                    Err(p) => r.viol("options", &format!("DateTimePrinter::time_to_string->parse_time/{}", panic_sig(&p)), case(), p),
                    Ok((text, back)) => {
                        let want = o.truncate(tn);
                        let canon = rfmt::fmt_time(tn, o.precision);
                        if text != canon {
                            r.viol("options", "DateTimePrinter::time_to_string/not-the-documented-text", case(), format!("jiff {:?} documented {:?}", text, canon));
                        }
                        match back {
                            Err(e) => r.viol("options", "DateTimePrinter::time_to_string->parse_time/parse-error", case(), format!("text {:?}: {}", text, e)),
                            Ok(b) => {
                                if conv::time_ns(b) != want {
                                    r.viol("options", "DateTimePrinter::time_to_string->parse_time/value", case(), format!("text {:?} parsed {}", text, b));
                                }
                            }
                        }
                        match rfmt::read_time(&text) {
                            Err(e) => r.viol("options", "DateTimePrinter::time_to_string/reader-grammar", case(), format!("text {:?}: {}", text, e)),
                            Ok(rd) => {
                                let tt = rd.time.unwrap();
                                let got = ((tt.0 * 3600 + tt.1 * 60 + tt.2) as i128) * NS + tt.3 as i128;
                                if got != want || Some(tt.4) != o.want_digits(tn) {
                                    r.viol("options", "DateTimePrinter::time_to_string/reader-value", case(), format!("text {:?} read {:?}", text, tt));
                                }
                            }
                        }
                    }
                }
            }
            for dt in &dts {
                let cn = conv::dt_civil_ns(*dt);
                tally(o, cn);
                let case = || format!("datetime {}{}", dt, o.name());
                match guard(|| {
                    let text = pr.datetime_to_string(dt);
                    let back = PARSER.parse_datetime(&text);
                    (text, back)
                }) {
                    Err(p) => r.viol("options", &format!("DateTimePrinter::datetime_to_string->parse_datetime/{}", panic_sig(&p)), case(), p),
                    Ok((text, back)) => {
                        let want = o.truncate(cn);
                        let canon = rfmt::fmt_civil(cn, o.printed_sep(), o.precision);
                        if text != canon {
                            r.viol("options", "DateTimePrinter::datetime_to_string/not-the-documented-text", case(), format!("jiff {:?} documented {:?}", text, canon));
                        }
                        match back {
                            Err(e) => r.viol("options", "DateTimePrinter::datetime_to_string->parse_datetime/parse-error", case(), format!("text {:?}: {}", text, e)),
                            Ok(b) => {
                                if conv::dt_civil_ns(b) != want {
                                    r.viol("options", "DateTimePrinter::datetime_to_string->parse_datetime/value", case(), format!("text {:?} parsed {}", text, b));
                                }
                            }
                        }
                        match rfmt::read_full(&text, false, false) {
                            Err(e) => r.viol("options", "DateTimePrinter::datetime_to_string/reader-grammar", case(), format!("text {:?}: {}", text, e)),
                            Ok(rd) => {
                                if rd.civil_ns() != Some(want) || rd.sep != Some(o.printed_sep()) || rd.time.map(|t| t.4) != o.want_digits(cn) {
                                    r.viol("options", "DateTimePrinter::datetime_to_string/reader-value", case(), format!("text {:?} read {:?}", text, rd));
                                }
                            }
                        }
                    }
                }
            }
            let n = (times.len() + dts.len()) as u64;
            r.add_states(n);
            r.add_transitions(3 * n);
            r.add_validated(2 * n);
        });

        // --- Timestamp pool (with and without offset) ------------------------
        let mut tss: Vec<i128> = vf::pools::timestamps().into_iter().map(|t| t.as_nanosecond()).collect();
        for base in [0i128, -1, 1_700_000_000] {
            for &ns in &SUBSEC {
                tss.push(base * NS + ns as i128);
            }
        }
        tss.sort_unstable();
        tss.dedup();
        let offs: [Option<i32>; 7] = [None, Some(0), Some(-18_000), Some(19_800), Some(45_900), Some(-93_540), Some(93_540)];
        opts.par_iter().for_each(|o| {
            let pr = o.printer();
            let mut n = 0u64;
            for &t in &tss {
                for &off in &offs {
                    n += 1;
                    tally(o, t);
                    let case = || format!("timestamp t={} offset={:?}{}", conv::fmt_ns(t), off, o.name());
                    let op = if off.is_some() { "DateTimePrinter::timestamp_with_offset_to_string" } else { "DateTimePrinter::timestamp_to_string" };
                    match guard(|| {
                        let ts = Timestamp::from_nanosecond(t).unwrap();
                        let text = match off {
                            None => pr.timestamp_to_string(&ts),
                            Some(s) => pr.timestamp_with_offset_to_string(&ts, Offset::from_seconds(s).unwrap()),
                        };
                        let back = PARSER.parse_timestamp(&text);
                        (text, back)
                    }) {
                        Err(p) => r.viol("options", &format!("{}->parse_timestamp/{}", op, panic_sig(&p)), case(), p),
                        Ok((text, back)) => {
                            let want = o.truncate(t);
                            // separator and Z follow `lowercase`; a numeric offset is
                            // rounded to the minute; the fraction has the set precision
                            let canon = match off {
                                None => format!("{}{}", rfmt::fmt_civil(t, o.printed_sep(), o.precision), if o.lower { 'z' } else { 'Z' }),
                                Some(s) => format!("{}{}", rfmt::fmt_civil(t + s as i128 * NS, o.printed_sep(), o.precision), rfmt::fmt_offset_min(s as i64)),
                            };
                            if text != canon {
                                r.viol("options", &format!("{}/not-the-documented-text", op), case(), format!("jiff {:?} documented {:?}", text, canon));
                            }
                            let rd = rfmt::read_full(&text, true, false);
                            match &rd {
                                Err(e) => r.viol("options", &format!("{}/reader-grammar", op), case(), format!("text {:?}: {}", text, e)),
                                Ok(rd) => {
                                    r.count("reader_instants_compared", 1);
                                    let zulu_ok = off.is_some() || rd.off == Some(Off::Zulu);
                                    if rd.instant_ns() != Some(want) || rd.sep != Some(o.printed_sep()) || rd.time.map(|t| t.4) != o.want_digits(t) || !zulu_ok {
                                        r.viol("options", &format!("{}/reader-instant", op), case(), format!("text {:?} read {:?} -> {:?} want {}", text, rd, rd.instant_ns(), want));
                                    }
                                }
                            }
                            match back {
                                Err(e) => r.viol("options", &format!("{}->parse_timestamp/parse-error", op), case(), format!("text {:?}: {}", text, e)),
                                Ok(b) => {
                                    if let Some(cl) = ts_mismatch(b, want) {
                                        let f13 = rd.as_ref().ok().and_then(f13_class).filter(|_| cl == "not-equal-value");
                                        let k = match f13 {
                                            Some(c) => format!("[{}]", c),
                                            None => String::new(),
                                        };
                                        r.viol(
                                            "options",
                                            &format!("{}->parse_timestamp/{}{}", op, cl, k),
                                            case(),
                                            format!("text {:?} parsed {:?} (second={} subsec={}) want ns={}", text, b, b.as_second(), b.subsec_nanosecond(), want),
                                        );
                                    }
                                }
                            }
                        }
                    }
                }
            }
            r.add_states(n);
            r.add_transitions(3 * n);
            r.add_validated(2 * n);
        });

        // --- std::fmt precision ({:.N}) on Timestamp ---------------------------
        for &t in &tss {
            for p in [0usize, 1, 3, 6, 9, 12] {
                let o = Opt { precision: Some(p.min(9) as u8), sep: b'T', lower: false };
                let case = || format!("timestamp t={} fmt-precision={}", conv::fmt_ns(t), p);
                match guard(|| {
                    let ts = Timestamp::from_nanosecond(t).unwrap();
                    let text = format!("{:.*}", p, ts);
                    let back = text.parse::<Timestamp>();
                    (text, back)
                }) {
                    Err(pn) => r.viol("options", &format!("Timestamp::fmt(precision)->from_str/{}", panic_sig(&pn)), case(), pn),
                    Ok((text, back)) => match back {
                        Err(e) => r.viol("options", "Timestamp::fmt(precision)->from_str/parse-error", case(), format!("text {:?}: {}", text, e)),
                        Ok(b) => {
                            if ts_mismatch(b, o.truncate(t)).is_some() {
                                r.viol("options", "Timestamp::fmt(precision)->from_str/value", case(), format!("text {:?} parsed {:?}", text, b));
                            }
                        }
                    },
                }
                r.add_states(1);
                r.add_validated(1);
            }
        }

        // --- Zoned: representative zones ---------------------------------------
        let db = jiff::tz::db();
        let parse = |s: &str| PARSER.parse_zoned(s).map_err(|e| e.to_string());
        let reps = zones::rep();
        // (zone, option) pairs in parallel
        let mut work: Vec<(usize, Opt)> = vec![];
        for zi in 0..reps.len() {
            for o in &opts {
                work.push((zi, *o));
            }
        }
        let loaded: Vec<Option<(rtz::Zone, TimeZone, Vec<i128>)>> = reps
            .iter()
            .map(|z| {
                let model = rtz::zone_from_tzif(&z.bytes).ok()?;
                let tz = guard(|| db.get(&z.name)).ok()?.ok()?;
                // probes: pool timestamps + P(z) of the recorded transitions
                // (quick: the last 12 recorded + first 4; thorough: all
                // recorded and rule years to 2040)
                let mut v: Vec<i128> = vf::pools::timestamps().into_iter().map(|t| t.as_nanosecond()).collect();
                v.extend(zone_edge_probes(&model));
                let ks = if quick { zones::probe_pieces(&model, &|_| false) } else { zones::probe_pieces(&model, &|y| y <= 2040) };
                let pick: Vec<usize> = if quick && ks.len() > 16 {
                    ks[..4].iter().chain(ks[ks.len() - 12..].iter()).copied().collect()
                } else {
                    ks
                };
                for k in pick {
                    probes_for_piece(&model, k, &mut v);
                }
                clip(&mut v);
                v.sort_unstable();
                v.dedup();
                Some((model, tz, v))
            })
            .collect();
        work.par_iter().for_each(|(zi, o)| {
            let Some((model, tz, probes)) = &loaded[*zi] else { return };
            let name = &reps[*zi].name;
            let mut st = ZStats::default();
            for &t in probes {
                tally(o, t);
                check_zoned(r, "options", name, name, tz, Some(model), t, &parse, Some(o), &mut st, None, false);
            }
            flush_stats(r, &st);
        });
        use std::sync::atomic::Ordering::Relaxed;
        r.count("options_lossy", n_lossy.load(Relaxed));
        r.count("options_lossless", n_lossless.load(Relaxed));
        r.count("options_configs", opts.len() as u64);
    });
}

// ---------------------------------------------------------------------------
// DateTimeParser options: offset_conflict x disambiguation on printed Zoned
// ---------------------------------------------------------------------------

const CONFLICTS: [(OffsetConflict, &str); 4] = [
    (OffsetConflict::Reject, "Reject"),
    (OffsetConflict::PreferOffset, "PreferOffset"),
    (OffsetConflict::AlwaysOffset, "AlwaysOffset"),
    (OffsetConflict::AlwaysTimeZone, "AlwaysTimeZone"),
];
const DISAMBS: [(Disambiguation, &str); 4] = [
    (Disambiguation::Compatible, "Compatible"),
    (Disambiguation::Earlier, "Earlier"),
    (Disambiguation::Later, "Later"),
    (Disambiguation::Reject, "Reject"),
];

/// What the documentation of the two options says a printed zoned datetime
/// (civil reading c of instant t, offset o printed rounded to the minute as
/// p, zone z) parses to:
///
/// * Reject / PreferOffset: p is valid for (c, z) under the rounding-tolerant
///   comparison, so the result is unambiguous: t, whatever the disambiguation;
/// * AlwaysOffset: the instant the text itself denotes, c - p (= t when o is a
///   whole minute), whatever the disambiguation;
/// * AlwaysTimeZone: the offset is ignored; c is resolved in z: unique -> t; in
///   a fold Compatible/Earlier -> the earliest instant reading c, Later -> the
///   latest, Reject -> an error. (c is never in a gap: it was read off a clock.)
enum Want {
    Instant(i128),
    Error,
    Skip,
}

fn sec_parser_options(r: &Report) {
    r.section("parser_options", || {
        let db = jiff::tz::db();
        let quick = r.quick();
        let mut reps = zones::rep();
        // a zone with a fold whose two offsets print as the same minute (F31):
        // there only Reject/PreferOffset are excluded, the other strategies are defined
        if let Ok(bytes) = std::fs::read(format!("{}/Israel", zones::SYS_DIR)) {
            reps.push(zones::ZoneSrc { name: "Israel".into(), origin: "sys".into(), bytes, aliases: vec![] });
        }
        let parsers: Vec<(DateTimeParser, &str, &str, usize, usize)> = CONFLICTS
            .iter()
            .enumerate()
            .flat_map(|(ci, (c, cn))| DISAMBS.iter().enumerate().map(move |(di, (d, dn))| (DateTimeParser::new().offset_conflict(*c).disambiguation(*d), *cn, *dn, ci, di)))
            .collect();
        // tasks: (zone, chunk of probe instants)
        let mut loaded: Vec<(String, rtz::Zone, TimeZone, Vec<i128>)> = vec![];
        for z in &reps {
            let Ok(model) = rtz::zone_from_tzif(&z.bytes) else { continue };
            let Ok(Ok(tz)) = guard(|| db.get(&z.name)) else { continue };
            let mut v = zone_edge_probes(&model);
            v.extend(vf::pools::timestamps().into_iter().map(|t| t.as_nanosecond()));
            let ks = if quick { zones::probe_pieces(&model, &|y| y <= 2100) } else { zones::probe_pieces(&model, &|_| true) };
            for k in ks {
                probes_for_piece(&model, k, &mut v);
            }
            clip(&mut v);
            v.sort_unstable();
            v.dedup();
            loaded.push((z.name.clone(), model, tz, v));
        }
        let mut tasks: Vec<(usize, usize, usize)> = vec![];
        for (zi, l) in loaded.iter().enumerate() {
            let mut i = 0;
            while i < l.3.len() {
                let e = (i + 2048).min(l.3.len());
                tasks.push((zi, i, e));
                i = e;
            }
        }
        tasks.par_iter().for_each(|&(zi, a, b)| {
            let (name, model, tz, probes) = &loaded[zi];
            let (mut n, mut n_skip, mut n_err, mut n_fold_later, mut n_shift) = (0u64, 0u64, 0u64, 0u64, 0u64);
            for &t in &probes[a..b] {
                let cls = classify(model, t, t);
                let Ok((text, ztz)) = guard(|| {
                    let z = Timestamp::from_nanosecond(t).unwrap().to_zoned(tz.clone());
                    (z.to_string(), z.time_zone().clone())
                }) else {
                    continue; // reported by the zoned sections
                };
                let Ok(rd) = rfmt::read_full(&text, true, true) else { continue };
                let frac = t.rem_euclid(NS);
                for (parser, cn, dn, ci, di) in &parsers {
                    n += 1;
                    let want = if cls.f7 {
                        Want::Skip
                    } else {
                        match ci {
                            0 | 1 => {
                                if cls.same_minute {
                                    Want::Skip // F31: the text cannot say which side
                                } else {
                                    Want::Instant(t)
                                }
                            }
                            2 => match rd.instant_ns() {
                                Some(i) if i >= ts_min() && i <= ts_max() => Want::Instant(i),
                                _ => Want::Skip,
                            },
                            _ => {
                                if cls.many_preimages {
                                    Want::Skip
                                } else if !cls.fold {
                                    Want::Instant(t)
                                } else {
                                    match di {
                                        0 | 1 => Want::Instant(cls.pre_first as i128 * NS + frac),
                                        2 => Want::Instant(cls.pre_last as i128 * NS + frac),
                                        _ => Want::Error,
                                    }
                                }
                            }
                        }
                    };
                    // non-vacuity counters come from the model's expectation, not from jiff
                    match want {
                        Want::Skip => n_skip += 1,
                        Want::Error => n_err += 1,
                        Want::Instant(w) if w != t => {
                            if *ci == 2 {
                                n_shift += 1;
                            } else {
                                n_fold_later += 1;
                            }
                        }
                        _ => {}
                    }
                    let op = format!("DateTimeParser[offset_conflict={},disambiguation={}]::parse_zoned(Zoned::to_string)", cn, dn);
                    let case = || format!("zoned zone={} t={} offset_conflict={} disambiguation={}", name, conv::fmt_ns(t), cn, dn);
                    let sfx = cls.suffix();
                    let got = guard(|| parser.parse_zoned(&text).map(|b| (b.timestamp().as_nanosecond(), b.time_zone() == &ztz, b.offset().seconds())));
                    match (want, got) {
                        (_, Err(p)) => r.viol("parser_options", &format!("{}/{}{}", op, panic_sig(&p), sfx), case(), p),
                        (Want::Skip, Ok(_)) | (Want::Error, Ok(Err(_))) => {}
                        (Want::Error, Ok(Ok(b))) => r.viol("parser_options", &format!("{}/ambiguous-civil-time-accepted{}", op, sfx), case(), format!("text {:?} parsed to {} ns", text, b.0)),
                        (Want::Instant(_), Ok(Err(e))) => r.viol("parser_options", &format!("{}/parse-error{}", op, sfx), case(), format!("text {:?}: {}", text, e)),
                        (Want::Instant(w), Ok(Ok((g, same_tz, _)))) => {
                            if g != w {
                                r.viol("parser_options", &format!("{}/instant{}", op, sfx), case(), format!("text {:?} parsed to {} ns, documented result {} ns (original {} ns)", text, g, w, t));
                            } else if !same_tz {
                                r.viol("parser_options", &format!("{}/time-zone", op), case(), format!("text {:?}", text));
                            }
                        }
                    }
                }
            }
            r.add_states((b - a) as u64);
            r.add_transitions(n);
            r.add_validated(n - n_skip);
            r.count("parser_options_cases", n);
            r.count("parser_options_excluded_known_or_undefined", n_skip);
            r.count("parser_options_ambiguity_errors_expected", n_err);
            r.count("parser_options_result_differs_from_original_in_fold", n_fold_later);
            r.count("parser_options_always_offset_shifted_by_rounding", n_shift);
        });
        r.count("parser_options_zones", loaded.len() as u64);
    });
}

// ---------------------------------------------------------------------------
// Pieces: value -> text -> value over every combination of presence
// ---------------------------------------------------------------------------

#[derive(Clone, Copy, Debug, PartialEq, Eq)]
enum MOff {
    Zulu,
    /// seconds east; `negzero` = "written -00:00" (meaningful only for 0)
    Num { secs: i64, negzero: bool },
}

#[derive(Clone, Debug, PartialEq, Eq)]
enum MAnn {
    Name(String),
    Off(i64),
}

/// A model of a `Pieces` value, and also what is compared: everything the
/// public accessors of `Pieces` expose.
#[derive(Clone, Debug, PartialEq, Eq)]
struct MPieces {
    ymd: (i64, i64, i64),
    time: Option<i128>,
    off: Option<MOff>,
    ann: Option<MAnn>,
    critical: bool,
}

impl MPieces {
    /// The jiff value (the critical flag cannot be set through the API).
    fn build(&self) -> Pieces<'_> {
        let d = Date::new(self.ymd.0 as i16, self.ymd.1 as i8, self.ymd.2 as i8).unwrap();
        let mut p = Pieces::from(d);
        if let Some(t) = self.time {
            p = p.with_time(conv::time_from_ns(t));
        }
        match self.off {
            None => {}
            Some(MOff::Zulu) => p = p.with_offset(PiecesOffset::Zulu),
            Some(MOff::Num { secs, negzero }) => {
                let o = Offset::from_seconds(secs as i32).unwrap();
                if negzero {
                    p = p.with_offset(PiecesNumericOffset::from(o).with_negative_zero());
                } else {
                    p = p.with_offset(o);
                }
            }
        }
        match &self.ann {
            None => p,
            Some(MAnn::Name(n)) => p.with_time_zone_name(n),
            Some(MAnn::Off(s)) => p.with_time_zone_offset(Offset::from_seconds(*s as i32).unwrap()),
        }
    }
    /// What the accessors of a jiff `Pieces` show.
    fn view(p: &Pieces) -> MPieces {
        let off = p.offset().map(|o| match o {
            PiecesOffset::Zulu => MOff::Zulu,
            PiecesOffset::Numeric(n) => {
                let secs = n.offset().seconds() as i64;
                MOff::Num { secs, negzero: secs == 0 && n.is_negative() }
            }
            _ => MOff::Num { secs: i64::MIN, negzero: false },
        });
        let (ann, critical) = match p.time_zone_annotation() {
            None => (None, false),
            Some(a) => (
                Some(match a.kind() {
                    TimeZoneAnnotationKind::Named(n) => MAnn::Name(n.as_str().to_string()),
                    TimeZoneAnnotationKind::Offset(o) => MAnn::Off(o.seconds() as i64),
                    _ => MAnn::Name("<unknown kind>".into()),
                }),
                a.is_critical(),
            ),
        };
        MPieces { ymd: conv::date_ymd(p.date()), time: p.time().map(conv::time_ns), off, ann, critical }
    }
    /// The documented text: the time is written when present or when an
    /// offset is (midnight then); offsets are rounded to the minute, the sign
    /// being the offset's own (the recorded sign for zero).
    fn text(&self, sep: u8, lower: bool, prec: Option<u8>) -> String {
        let mut s = rfmt::fmt_date(self.ymd.0, self.ymd.1, self.ymd.2);
        if self.time.is_some() || self.off.is_some() {
            s.push(sep as char);
            s.push_str(&rfmt::fmt_time(self.time.unwrap_or(0), prec));
        }
        match self.off {
            None => {}
            Some(MOff::Zulu) => s.push(if lower { 'z' } else { 'Z' }),
            Some(MOff::Num { secs: 0, negzero: true }) => s.push_str("-00:00"),
            Some(MOff::Num { secs, .. }) => s.push_str(&rfmt::fmt_offset_min(secs)),
        }
        match &self.ann {
            None => {}
            Some(a) => {
                s.push('[');
                if self.critical {
                    s.push('!');
                }
                match a {
                    MAnn::Name(n) => s.push_str(n),
                    MAnn::Off(o) => s.push_str(&rfmt::fmt_offset_min(*o)),
                }
                s.push(']');
            }
        }
        s
    }
    /// What the printed text parses back to (documented losses only: the
    /// forced midnight, minute rounding of offsets, fraction truncation).
    fn after_round_trip(&self, prec: Option<u8>) -> MPieces {
        let trunc = |t: i128| match prec {
            None => t,
            Some(p) => {
                let u = 10i128.pow(9 - p.min(9) as u32);
                t / u * u
            }
        };
        let time = match (self.time, self.off) {
            (Some(t), _) => Some(trunc(t)),
            (None, Some(_)) => Some(0),
            (None, None) => None,
        };
        let off = self.off.map(|o| match o {
            MOff::Zulu => MOff::Zulu,
            MOff::Num { secs, negzero } => {
                let r = rfmt::round_offset_to_minute(secs);
                MOff::Num { secs: r, negzero: secs == 0 && negzero }
            }
        });
        let ann = self.ann.clone().map(|a| match a {
            MAnn::Off(s) => MAnn::Off(rfmt::round_offset_to_minute(s)),
            n => n,
        });
        MPieces { ymd: self.ymd, time, off, ann, critical: self.critical }
    }
    fn describe(&self) -> String {
        format!("pieces date={:?} time={:?} offset={:?} annotation={:?} critical={}", self.ymd, self.time, self.off, self.ann, self.critical)
    }
}

const PIECES_OFFS: [i64; 28] = [
    60, -60, 19_800, -19_800, -18_000, 50_400, 93_540, -93_540, 45_240, 1, -1, 29, -29, 30, -30, 59, -59, -2_670, 3_599, -3_599, 86_370, 93_569, 93_570, -93_570, 93_599,
    -93_599, 86_340, -86_340,
];

fn pieces_alphabet(small: bool) -> Vec<MPieces> {
    let dates: Vec<(i64, i64, i64)> = if small {
        vec![(2024, 2, 29), (-9999, 1, 1), (0, 1, 1)]
    } else {
        vf::pools::dates().into_iter().map(conv::date_ymd).collect()
    };
    let mut times: Vec<Option<i128>> = vec![None];
    if small {
        for t in [0i128, 25_689 * NS + 1, 25_689 * NS + 120_000_000, 86_399 * NS + 999_999_999, 43_200 * NS + 500_000_000] {
            times.push(Some(t));
        }
    } else {
        times.extend(vf::pools::times().into_iter().map(|t| Some(conv::time_ns(t))));
        times.extend(SUBSEC.iter().map(|&ns| Some(25_689 * NS + ns as i128)));
    }
    let mut offs: Vec<Option<MOff>> = vec![None, Some(MOff::Zulu), Some(MOff::Num { secs: 0, negzero: false }), Some(MOff::Num { secs: 0, negzero: true })];
    let olist: &[i64] = if small { &[19_800, -18_000, -20, -2_670] } else { &PIECES_OFFS };
    offs.extend(olist.iter().map(|&s| Some(MOff::Num { secs: s, negzero: false })));
    let mut anns: Vec<Option<MAnn>> = vec![None, Some(MAnn::Name("America/New_York".into())), Some(MAnn::Off(19_800)), Some(MAnn::Off(-2_670))];
    if !small {
        for n in ["UTC", "Australia/Bluey", "Etc/GMT+5", "America/Argentina/ComodRivadavia"] {
            anns.push(Some(MAnn::Name(n.into())));
        }
        for o in [0i64, -18_000, 93_599, -20, -93_570, 86_370] {
            anns.push(Some(MAnn::Off(o)));
        }
    }
    let mut v = vec![];
    for &ymd in &dates {
        for &time in &times {
            for &off in &offs {
                for ann in &anns {
                    v.push(MPieces { ymd, time, off, ann: ann.clone(), critical: false });
                }
            }
        }
    }
    v
}

/// One print -> parse trip of a `Pieces`. `how` names the printing entry
/// point; `text` is what it produced.
fn check_pieces_text(r: &Report, op: &str, m: &MPieces, text: &str, sep: u8, lower: bool, prec: Option<u8>, extra: &str) {
    let case = || format!("{}{}", m.describe(), extra);
    let canon = m.text(sep, lower, prec);
    if text != canon {
        r.viol("pieces", &format!("{}/not-the-documented-text", op), case(), format!("jiff {:?} documented {:?}", text, canon));
    }
    let want = m.after_round_trip(prec);
    // the independent reader
    match rfmt::read_pieces(text) {
        Err(e) => r.viol("pieces", &format!("{}/reader-grammar", op), case(), format!("text {:?}: {}", text, e)),
        Ok(rd) => {
            let off = rd.off.as_ref().map(|o| match o {
                Off::Zulu => MOff::Zulu,
                Off::Num { secs, neg } => MOff::Num { secs: *secs, negzero: *secs == 0 && *neg },
            });
            let ann = rd.ann.as_ref().map(|a| {
                if a.starts_with('+') || a.starts_with('-') {
                    let neg = a.starts_with('-');
                    let h: i64 = a[1..3].parse().unwrap();
                    let mi: i64 = a[4..6].parse().unwrap();
                    MAnn::Off((h * 3600 + mi * 60) * if neg { -1 } else { 1 })
                } else {
                    MAnn::Name(a.clone())
                }
            });
            let got = MPieces { ymd: rd.ymd.unwrap(), time: rd.time.map(|t| ((t.0 * 3600 + t.1 * 60 + t.2) as i128) * NS + t.3 as i128), off, ann, critical: rd.critical };
            if got != want {
                r.viol("pieces", &format!("{}/reader-value", op), case(), format!("text {:?} read {:?} want {:?}", text, got, want));
            }
        }
    }
    // jiff's two parsing entry points
    for (pname, which) in [("Pieces::parse", 0), ("DateTimeParser::parse_pieces", 1)] {
        let got = guard(|| {
            let b = if which == 0 { Pieces::parse(text) } else { PARSER.parse_pieces(text) };
            b.map(|b| (MPieces::view(&b), b.to_string())).map_err(|e| e.to_string())
        });
        match got {
            Err(p) => r.viol("pieces", &format!("{}({})/{}", pname, op, panic_sig(&p)), case(), p),
            Ok(Err(e)) => r.viol("pieces", &format!("{}({})/parse-error", pname, op), case(), format!("text {:?}: {}", text, e)),
            Ok(Ok((v, again))) => {
                if v != want {
                    r.viol("pieces", &format!("{}({})/value", pname, op), case(), format!("text {:?} parsed {:?} want {:?}", text, v, want));
                } else if again != want.text(b'T', false, None) {
                    r.viol("pieces", &format!("{}({})/reprints-differently", pname, op), case(), format!("text {:?} reprinted {:?}", text, again));
                }
            }
        }
    }
}

fn sec_pieces(r: &Report) {
    r.section("pieces", || {
        let all = pieces_alphabet(false);
        all.par_iter().for_each(|m| {
            let res = guard(|| {
                let p = m.build();
                let view = MPieces::view(&p);
                let a = p.to_string();
                let b = DateTimePrinter::new().pieces_to_string(&p);
                let mut c: Vec<u8> = vec![];
                let cres = DateTimePrinter::new().print_pieces(&p, &mut c).map_err(|e| e.to_string());
                (view, a, b, c, cres)
            });
            match res {
                Err(p) => r.viol("pieces", &format!("Pieces::to_string/{}", panic_sig(&p)), m.describe(), p),
                Ok((view, a, b, c, cres)) => {
                    if &view != m {
                        r.viol("pieces", "Pieces::with_*/accessors-differ-from-what-was-set", m.describe(), format!("accessors show {:?}", view));
                    }
                    if a != b || cres.is_err() || c != a.as_bytes() {
                        r.viol("pieces", "DateTimePrinter::print_pieces/differs-from-Pieces::to_string", m.describe(), format!("Display {:?} pieces_to_string {:?} print_pieces {:?} ({:?})", a, b, String::from_utf8_lossy(&c), cres));
                    }
                    check_pieces_text(r, "Pieces::to_string", m, &a, b'T', false, None, "");
                }
            }
            r.add_states(1);
            r.add_transitions(5);
            r.add_validated(4);
        });
        r.count("pieces_values", all.len() as u64);
        let n_sub = all.iter().filter(|m| matches!(m.off, Some(MOff::Num { secs, .. }) if secs % 60 != 0)).count();
        let n_forced = all.iter().filter(|m| m.time.is_none() && m.off.is_some()).count();
        r.count("pieces_subminute_offset", n_sub as u64);
        r.count("pieces_midnight_forced_by_offset", n_forced as u64);

        // printer options and {:.N} on the small alphabet
        let small = pieces_alphabet(true);
        let opts = Opt::all();
        let fmt_precs: [usize; 16] = FMT_PRECS;
        small.par_iter().for_each(|m| {
            for o in &opts {
                match guard(|| o.printer().pieces_to_string(&m.build())) {
                    Err(p) => r.viol("pieces", &format!("DateTimePrinter::pieces_to_string/{}", panic_sig(&p)), format!("{}{}", m.describe(), o.name()), p),
                    Ok(text) => check_pieces_text(r, "DateTimePrinter::pieces_to_string", m, &text, o.printed_sep(), o.lower, o.precision, &o.name()),
                }
            }
            for &p in &fmt_precs {
                match guard(|| format!("{:.*}", p, m.build())) {
                    Err(pn) => r.viol("pieces", &format!("Pieces::fmt(precision)/{}", panic_sig(&pn)), format!("{} fmt-precision={}", m.describe(), p), pn),
                    Ok(text) => check_pieces_text(r, "Pieces::fmt(precision)", m, &text, b'T', false, Some(p.min(9) as u8), &format!(" fmt-precision={}", p)),
                }
            }
            let n = (opts.len() + fmt_precs.len()) as u64;
            r.add_states(n);
            r.add_transitions(3 * n);
            r.add_validated(3 * n);
        });
        r.count("pieces_option_cases", (small.len() * (opts.len() + fmt_precs.len())) as u64);

        // the From impls: documented equivalences with the dedicated printers
        let offs: [i32; 9] = [0, 60, -60, 19_800, -18_000, -2_670, 93_599, -93_570, -20];
        for t in vf::pools::timestamps() {
            let tn = t.as_nanosecond();
            let case = format!("timestamp t={}", conv::fmt_ns(tn));
            match guard(|| (Pieces::from(t).to_string(), t.to_string(), MPieces::view(&Pieces::from(t)))) {
                Err(p) => r.viol("pieces", &format!("Pieces::from(Timestamp)/{}", panic_sig(&p)), &case, p),
                Ok((a, b, v)) => {
                    let d = cal::civil_from_days(tn.div_euclid(conv::DAY_NS) as i64);
                    let want = MPieces { ymd: d, time: Some(tn.rem_euclid(conv::DAY_NS)), off: Some(MOff::Zulu), ann: None, critical: false };
                    if a != b || v != want {
                        r.viol("pieces", "Pieces::from(Timestamp)/differs-from-Timestamp::to_string", &case, format!("pieces {:?} {:?} timestamp {:?}", a, v, b));
                    }
                }
            }
            for &o in &offs {
                let case = format!("timestamp t={} offset={}", conv::fmt_ns(tn), o);
                match guard(|| {
                    let off = Offset::from_seconds(o).unwrap();
                    let p = Pieces::from((t, off));
                    (p.to_string(), t.display_with_offset(off).to_string(), MPieces::view(&p))
                }) {
                    Err(p) => r.viol("pieces", &format!("Pieces::from((Timestamp,Offset))/{}", panic_sig(&p)), &case, p),
                    Ok((a, b, v)) => {
                        let c = tn + o as i128 * NS;
                        let d = cal::civil_from_days(c.div_euclid(conv::DAY_NS) as i64);
                        let want = MPieces { ymd: d, time: Some(c.rem_euclid(conv::DAY_NS)), off: Some(MOff::Num { secs: o as i64, negzero: false }), ann: None, critical: false };
                        if a != b || v != want {
                            r.viol("pieces", "Pieces::from((Timestamp,Offset))/differs-from-display_with_offset", &case, format!("pieces {:?} {:?} display_with_offset {:?}", a, v, b));
                        }
                    }
                }
                r.add_states(1);
                r.add_validated(1);
            }
        }
        for dt in vf::pools::datetimes() {
            let case = format!("datetime {}", dt);
            match guard(|| (Pieces::from(dt).to_string(), dt.to_string(), Pieces::from(dt.date()).to_string(), dt.date().to_string())) {
                Err(p) => r.viol("pieces", &format!("Pieces::from(DateTime)/{}", panic_sig(&p)), &case, p),
                Ok((a, b, c, d)) => {
                    if a != b || c != d {
                        r.viol("pieces", "Pieces::from(DateTime|Date)/differs-from-to_string", &case, format!("{:?} vs {:?}; {:?} vs {:?}", a, b, c, d));
                    }
                }
            }
            r.add_states(1);
            r.add_validated(2);
        }
    });
}

/// Values for `{:.N}`: every meaningful precision, the clamp boundary, and
/// values on both sides of the u8 range the implementation converts through.
const FMT_PRECS: [usize; 16] = [0, 1, 2, 3, 4, 5, 6, 7, 8, 9, 10, 12, 255, 256, 300, 65_535];

// ---------------------------------------------------------------------------
// canonical text -> value -> text over an enumerated grammar
// ---------------------------------------------------------------------------

const G_DATES: [(i64, i64, i64); 12] =
    [(-9999, 1, 1), (-1, 12, 31), (0, 1, 1), (0, 2, 29), (1, 1, 1), (999, 12, 31), (1000, 1, 1), (1969, 12, 31), (1970, 1, 1), (2024, 2, 29), (2024, 11, 3), (9999, 12, 31)];
const G_HMS: [i64; 5] = [0, 1, 5_400, 43_200, 86_399];
/// canonical fractions: no trailing zero, every length 1..=9
const G_FRAC: [&str; 15] =
    ["", ".1", ".01", ".001", ".0001", ".00001", ".000001", ".0000001", ".00000001", ".000000001", ".123456789", ".5", ".999999999", ".10203", ".000000009"];
const G_FRAC_SMALL: [&str; 4] = ["", ".5", ".000000001", ".10203"];
const G_OFFS: [i64; 12] = [0, 60, -60, 19_800, -19_800, 43_200, -43_200, 50_400, 86_340, -86_340, 93_540, -93_540];

fn frac_ns(f: &str) -> i64 {
    if f.is_empty() {
        return 0;
    }
    let d = &f[1..];
    d.parse::<i64>().unwrap() * 10i64.pow(9 - d.len() as u32)
}

fn g_time_text(hms: i64, f: &str) -> String {
    format!("{:02}:{:02}:{:02}{}", hms / 3600, (hms / 60) % 60, hms % 60, f)
}

fn g_date_text(d: (i64, i64, i64)) -> String {
    // the grammar's DateYear: four digits, or a sign and six digits (only
    // used for negative years in canonical texts)
    if d.0 < 0 {
        format!("-{:06}-{:02}-{:02}", -d.0, d.1, d.2)
    } else {
        format!("{:04}-{:02}-{:02}", d.0, d.1, d.2)
    }
}

fn g_off_text(o: i64) -> String {
    format!("{}{:02}:{:02}", if o < 0 { '-' } else { '+' }, o.abs() / 3600, (o.abs() / 60) % 60)
}

fn civil_of(d: (i64, i64, i64), hms: i64, f: &str) -> i128 {
    (cal::days_from_civil(d.0, d.1, d.2) as i128 * 86_400 + hms as i128) * NS + frac_ns(f) as i128
}

/// Parse `text` as T with FromStr, compare with `want` (None = must be
/// refused as out of range), print the value again: must be `text`.
fn canon_trip<T: std::str::FromStr + ToString, K: PartialEq + std::fmt::Debug>(r: &Report, ty: &str, text: &str, want: Option<K>, key: impl Fn(&T) -> K + std::panic::RefUnwindSafe, n: &mut (u64, u64))
where
    T::Err: std::fmt::Display,
{
    let case = format!("text {}", text);
    n.0 += 1;
    match guard(|| text.parse::<T>().map(|v| (key(&v), v.to_string())).map_err(|e| e.to_string())) {
        Err(p) => r.viol("canon", &format!("{}::from_str(canonical-text)/{}", ty, panic_sig(&p)), case, p),
        Ok(Err(e)) => {
            if want.is_some() {
                r.viol("canon", &format!("{}::from_str(canonical-text)/parse-error", ty), case, e);
            } else {
                n.1 += 1;
            }
        }
        Ok(Ok((k, again))) => match want {
            None => r.viol("canon", &format!("{}::from_str(canonical-text)/accepted-out-of-range", ty), case, format!("parsed {:?}", k)),
            Some(w) => {
                if k != w {
                    r.viol("canon", &format!("{}::from_str(canonical-text)/value", ty), case, format!("parsed {:?} want {:?}", k, w));
                } else if again != text {
                    r.viol("canon", &format!("{}::from_str(canonical-text)->to_string/not-the-same-text", ty), case, format!("reprinted {:?}", again));
                }
            }
        },
    }
}

fn sec_canon(r: &Report) {
    r.section("canon", || {
        let mut n = (0u64, 0u64);
        // Date, Time, DateTime, Timestamp (Z)
        for d in G_DATES {
            canon_trip::<Date, _>(r, "Date", &g_date_text(d), Some(d), |v| conv::date_ymd(*v), &mut n);
        }
        for hms in G_HMS {
            for f in G_FRAC {
                let want = hms as i128 * NS + frac_ns(f) as i128;
                canon_trip::<Time, _>(r, "Time", &g_time_text(hms, f), Some(want), |v| conv::time_ns(*v), &mut n);
                for d in G_DATES {
                    let c = civil_of(d, hms, f);
                    let dt = format!("{}T{}", g_date_text(d), g_time_text(hms, f));
                    canon_trip::<DateTime, _>(r, "DateTime", &dt, Some(c), |v| conv::dt_civil_ns(*v), &mut n);
                    // the separator may be a space or lowercase (value only:
                    // those are not what the printer writes by default)
                    for sep in [' ', 't'] {
                        let alt = format!("{}{}{}", g_date_text(d), sep, g_time_text(hms, f));
                        match guard(|| alt.parse::<DateTime>().map(conv::dt_civil_ns).map_err(|e| e.to_string())) {
                            Ok(Ok(k)) if k == c => {}
                            other => r.viol("canon", "DateTime::from_str(separator-variant)/value", format!("text {}", alt), format!("{:?} want {}", other, c)),
                        }
                    }
                    let in_range = c >= ts_min() && c <= ts_max();
                    canon_trip::<Timestamp, _>(r, "Timestamp", &format!("{}Z", dt), if in_range { Some(c) } else { None }, |v| v.as_nanosecond(), &mut n);
                }
            }
        }
        r.count("canon_texts_refused_as_out_of_range", n.1);

        // Timestamp with a numeric offset -> display_with_offset; Zoned with
        // the offset repeated as annotation
        let mut m = 0u64;
        for d in G_DATES {
            for hms in G_HMS {
                for f in G_FRAC_SMALL {
                    for o in G_OFFS {
                        let c = civil_of(d, hms, f);
                        let inst = c - o as i128 * NS;
                        let in_range = inst >= ts_min() && inst <= ts_max();
                        let base = format!("{}T{}{}", g_date_text(d), g_time_text(hms, f), g_off_text(o));
                        let case = format!("text {}", base);
                        m += 2;
                        match guard(|| base.parse::<Timestamp>().map(|t| (t.as_nanosecond(), t.display_with_offset(Offset::from_seconds(o as i32).unwrap()).to_string())).map_err(|e| e.to_string())) {
                            Err(p) => r.viol("canon", &format!("Timestamp::from_str(canonical-text-with-offset)/{}", panic_sig(&p)), &case, p),
                            Ok(Err(e)) => {
                                if in_range {
                                    r.viol("canon", "Timestamp::from_str(canonical-text-with-offset)/parse-error", &case, e);
                                }
                            }
                            Ok(Ok((k, again))) => {
                                if !in_range {
                                    r.viol("canon", "Timestamp::from_str(canonical-text-with-offset)/accepted-out-of-range", &case, format!("{}", k));
                                } else if k != inst {
                                    r.viol("canon", "Timestamp::from_str(canonical-text-with-offset)/instant", &case, format!("parsed {} want {}", k, inst));
                                } else if again != base {
                                    r.viol("canon", "Timestamp::from_str(canonical-text-with-offset)->display_with_offset/not-the-same-text", &case, format!("reprinted {:?}", again));
                                }
                            }
                        }
                        // zoned: +00:00 is annotated [UTC] (what a zero fixed offset is called)
                        let ztext = if o == 0 { format!("{}[UTC]", base) } else { format!("{}[{}]", base, g_off_text(o)) };
                        let zcase = format!("text {}", ztext);
                        match guard(|| {
                            ztext.parse::<Zoned>().map(|z| (z.timestamp().as_nanosecond(), z.offset().seconds() as i64, z.time_zone() == &TimeZone::fixed(Offset::from_seconds(o as i32).unwrap()), z.to_string())).map_err(|e| e.to_string())
                        }) {
                            Err(p) => r.viol("canon", &format!("Zoned::from_str(canonical-text-fixed-offset)/{}", panic_sig(&p)), &zcase, p),
                            Ok(Err(e)) => {
                                if in_range {
                                    r.viol("canon", "Zoned::from_str(canonical-text-fixed-offset)/parse-error", &zcase, e);
                                }
                            }
                            Ok(Ok((k, off, tz_ok, again))) => {
                                if !in_range {
                                    r.viol("canon", "Zoned::from_str(canonical-text-fixed-offset)/accepted-out-of-range", &zcase, format!("{}", k));
                                } else if k != inst || off != o || !tz_ok {
                                    r.viol("canon", "Zoned::from_str(canonical-text-fixed-offset)/value", &zcase, format!("parsed {} ns offset {} tz_ok {} want {} ns", k, off, tz_ok, inst));
                                } else if again != ztext {
                                    r.viol("canon", "Zoned::from_str(canonical-text-fixed-offset)->to_string/not-the-same-text", &zcase, format!("reprinted {:?}", again));
                                }
                            }
                        }
                    }
                }
            }
        }

        // Pieces: every canonical combination of the optional parts
        let anns: Vec<(String, MAnn)> = vec![
            ("UTC".into(), MAnn::Name("UTC".into())),
            ("America/New_York".into(), MAnn::Name("America/New_York".into())),
            ("Etc/GMT+5".into(), MAnn::Name("Etc/GMT+5".into())),
            ("Australia/Bluey".into(), MAnn::Name("Australia/Bluey".into())),
            ("+05:30".into(), MAnn::Off(19_800)),
            ("-00:01".into(), MAnn::Off(-60)),
            ("+25:59".into(), MAnn::Off(93_540)),
        ];
        let mut offs: Vec<(String, MOff)> = vec![("Z".into(), MOff::Zulu), ("-00:00".into(), MOff::Num { secs: 0, negzero: true })];
        offs.extend(G_OFFS.iter().map(|&o| (g_off_text(o), MOff::Num { secs: o, negzero: false })));
        let mut texts: Vec<(String, MPieces)> = vec![];
        for d in G_DATES {
            let mut stems: Vec<(String, Option<i128>, Option<MOff>)> = vec![(g_date_text(d), None, None)];
            for hms in G_HMS {
                for f in G_FRAC_SMALL {
                    let t = format!("{}T{}", g_date_text(d), g_time_text(hms, f));
                    let tn = hms as i128 * NS + frac_ns(f) as i128;
                    stems.push((t.clone(), Some(tn), None));
                    for (ot, om) in &offs {
                        stems.push((format!("{}{}", t, ot), Some(tn), Some(*om)));
                    }
                }
            }
            for (stem, time, off) in stems {
                texts.push((stem.clone(), MPieces { ymd: d, time, off, ann: None, critical: false }));
                for (at, am) in &anns {
                    for critical in [false, true] {
                        texts.push((format!("{}[{}{}]", stem, if critical { "!" } else { "" }, at), MPieces { ymd: d, time, off, ann: Some(am.clone()), critical }));
                    }
                }
            }
        }
        let n_crit = texts.iter().filter(|t| t.1.critical).count();
        texts.par_iter().for_each(|(text, want)| {
            let case = format!("text {}", text);
            // the model writes the same text (sanity of the enumeration itself)
            if &want.text(b'T', false, None) != text {
                r.viol("canon", "ENGINE/grammar-text-is-not-what-the-model-writes", &case, want.text(b'T', false, None));
            }
            for (pname, which) in [("Pieces::parse", 0), ("DateTimeParser::parse_pieces", 1)] {
                match guard(|| {
                    let b = if which == 0 { Pieces::parse(text) } else { PARSER.parse_pieces(text) };
                    b.map(|b| {
                        let tz = match b.to_time_zone() {
                            Ok(None) => "none".to_string(),
                            Ok(Some(tz)) => match tz.iana_name() {
                                Some(n) => format!("iana:{}", n),
                                None => format!("fixed:{}", tz.to_fixed_offset().map(|o| o.seconds()).unwrap_or(i32::MIN)),
                            },
                            Err(_) => "error".to_string(),
                        };
                        (MPieces::view(&b), b.to_string(), tz)
                    })
                    .map_err(|e| e.to_string())
                }) {
                    Err(p) => r.viol("canon", &format!("{}(canonical-text)/{}", pname, panic_sig(&p)), &case, p),
                    Ok(Err(e)) => r.viol("canon", &format!("{}(canonical-text)/parse-error", pname), &case, e),
                    Ok(Ok((v, again, tz))) => {
                        if &v != want {
                            r.viol("canon", &format!("{}(canonical-text)/value", pname), &case, format!("parsed {:?} want {:?}", v, want));
                        } else if &again != text {
                            r.viol("canon", &format!("{}(canonical-text)->to_string/not-the-same-text", pname), &case, format!("reprinted {:?}", again));
                        }
                        let want_tz = match &want.ann {
                            None => "none".to_string(),
                            Some(MAnn::Name(n)) if n == "Australia/Bluey" => "error".to_string(),
                            Some(MAnn::Name(n)) => format!("iana:{}", n),
                            Some(MAnn::Off(o)) => format!("fixed:{}", o),
                        };
                        if tz != want_tz {
                            r.viol("canon", "Pieces::to_time_zone(canonical-text)/value", &case, format!("got {} want {}", tz, want_tz));
                        }
                    }
                }
            }
        });
        r.count("canon_pieces_texts", texts.len() as u64);
        r.count("canon_pieces_texts_with_critical_flag", n_crit as u64);

        // second = 60: accepted by the grammar jiff implements (RFC 3339 and
        // Temporal's TimeSecond) and read as second 59 with the same fraction
        let mut k = 0u64;
        for hm in ["23:59", "00:00", "12:34"] {
            for f in G_FRAC_SMALL {
                let hms = (hm[..2].parse::<i64>().unwrap()) * 3600 + hm[3..].parse::<i64>().unwrap() * 60 + 59;
                let tn = hms as i128 * NS + frac_ns(f) as i128;
                let c = civil_of((2016, 12, 31), hms, f);
                let t = format!("{}:60{}", hm, f);
                let checks: Vec<(&str, String, Result<i128, String>, i128)> = vec![
                    ("Time", t.clone(), guard(|| t.parse::<Time>().map(conv::time_ns).map_err(|e| e.to_string())).unwrap_or_else(Err), tn),
                    ("DateTime", format!("2016-12-31T{}", t), guard(|| format!("2016-12-31T{}", t).parse::<DateTime>().map(conv::dt_civil_ns).map_err(|e| e.to_string())).unwrap_or_else(Err), c),
                    ("Timestamp", format!("2016-12-31T{}Z", t), guard(|| format!("2016-12-31T{}Z", t).parse::<Timestamp>().map(|v| v.as_nanosecond()).map_err(|e| e.to_string())).unwrap_or_else(Err), c),
                    ("Zoned", format!("2016-12-31T{}+00:00[UTC]", t), guard(|| format!("2016-12-31T{}+00:00[UTC]", t).parse::<Zoned>().map(|v| v.timestamp().as_nanosecond()).map_err(|e| e.to_string())).unwrap_or_else(Err), c),
                    ("Pieces", format!("2016-12-31T{}", t), guard(|| Pieces::parse(&format!("2016-12-31T{}", t)).map(|p| conv::dt_civil_ns(DateTime::from_parts(p.date(), p.time().unwrap()))).map_err(|e| e.to_string())).unwrap_or_else(Err), c),
                ];
                for (ty, text, got, want) in checks {
                    k += 1;
                    if got != Ok(want) {
                        r.viol("canon", &format!("{}::from_str(second=60)/not-read-as-second-59", ty), format!("text {}", text), format!("{:?} want {}", got, want));
                    }
                }
            }
        }
        r.count("canon_leap_second_texts", k);
        r.count("canon_texts", n.0 + m + 2 * texts.len() as u64 + k);
        r.add_states(n.0 + m + texts.len() as u64 + k);
        r.add_transitions(2 * (n.0 + m + 2 * texts.len() as u64) + k);
        r.add_validated(n.0 + m + 2 * texts.len() as u64 + k);
    });
}

// ---------------------------------------------------------------------------
// Lone time zones (print_time_zone -> parse_time_zone) and zoned datetimes
// whose zone cannot be named: POSIX, sub-minute fixed offsets, Etc/Unknown
// ---------------------------------------------------------------------------

const POSIX_ZONES: [&str; 7] = [
    "EST5EDT,M3.2.0,M11.1.0",
    "CET-1CEST,M3.5.0,M10.5.0/3",
    "NZST-12NZDT,M9.5.0,M4.1.0/3",
    "<+0330>-3:30<+0430>,J79/24,J263/24",
    "IST-5:30",
    "LHST-10:30LHDT-11,M10.1.0,M4.1.0",
    "LMT0:44:30",
];

/// A zoned datetime in a zone without an IANA name: documented to print the
/// offset (rounded to the minute) in place of the name. The text must be
/// valid RFC 9557, parse to the instant the text denotes (the original one
/// for whole-minute offsets) with that offset as a fixed-offset zone.
fn check_zoned_unnamed(r: &Report, kind: &str, zdesc: &str, tz: &TimeZone, off: i64, t_ns: i128, n_shift: &mut u64) {
    let case = || format!("zoned zone={} t={}", zdesc, conv::fmt_ns(t_ns));
    let op = format!("Zoned[{}]::to_string", kind);
    let res = guard(|| {
        let z = Timestamp::from_nanosecond(t_ns).unwrap().to_zoned(tz.clone());
        let text = z.to_string();
        let back = text.parse::<Zoned>().map(|b| (b.timestamp().as_nanosecond(), b.offset().seconds() as i64, b.time_zone().clone())).map_err(|e| e.to_string());
        (z.offset().seconds() as i64, text, back)
    });
    let (joff, text, back) = match res {
        Err(p) => {
            r.viol("time_zone", &format!("{}->parse/{}", op, panic_sig(&p)), case(), p);
            return;
        }
        Ok(x) => x,
    };
    if joff != off {
        return; // the zone's offset itself is another property's business (C03)
    }
    let rounded = rfmt::round_offset_to_minute(off);
    let negzero = off < 0 && off > -30;
    let otext = if negzero { "+00:00".to_string() } else { rfmt::fmt_offset_min(off) };
    let canon = format!("{}{}[{}]", rfmt::fmt_civil(t_ns + off as i128 * NS, b'T', None), otext, otext);
    if text != canon {
        let k = if negzero { "[-30s<offset<0:printed-as--00:00]" } else { "" };
        r.viol("time_zone", &format!("{}/not-the-canonical-text{}", op, k), case(), format!("jiff {:?} canonical {:?}", text, canon));
    }
    let rd = match rfmt::read_full(&text, true, true) {
        Err(e) => {
            r.viol("time_zone", &format!("{}/reader-grammar", op), case(), format!("text {:?}: {}", text, e));
            return;
        }
        Ok(rd) => rd,
    };
    let inst = rd.instant_ns().unwrap();
    if off % 60 == 0 && inst != t_ns {
        r.viol("time_zone", &format!("{}/reader-instant", op), case(), format!("text {:?} read {} want {}", text, inst, t_ns));
    }
    if inst != t_ns {
        *n_shift += 1;
    }
    let in_range = inst >= ts_min() && inst <= ts_max();
    match back {
        Err(e) => {
            if in_range {
                r.viol("time_zone", &format!("{}->parse/parse-error", op), case(), format!("text {:?}: {}", text, e));
            }
        }
        Ok((g, goff, gtz)) => {
            let want_tz = TimeZone::fixed(Offset::from_seconds(rounded as i32).unwrap());
            if g != inst {
                r.viol("time_zone", &format!("{}->parse/instant", op), case(), format!("text {:?} parsed {} want {}", text, g, inst));
            } else if goff != rounded || gtz != want_tz {
                r.viol("time_zone", &format!("{}->parse/offset-or-zone", op), case(), format!("text {:?} parsed offset {} zone {:?} want fixed {}", text, goff, gtz, rounded));
            }
        }
    }
}

fn sec_time_zone(r: &Report) {
    r.section("time_zone", || {
        let printer = DateTimePrinter::new();
        // --- every fixed offset: full precision, documented +HH:MM[:SS] ---
        let max = 25 * 3600 + 59 * 60 + 59;
        let n_sec: u64 = (-max..=max)
            .into_par_iter()
            .map(|off: i32| {
                let case = || format!("fixed offset={}", off);
                let res = guard(|| {
                    let o = Offset::from_seconds(off).unwrap();
                    let tz = TimeZone::fixed(o);
                    let text = printer.time_zone_to_string(&tz).map_err(|e| e.to_string());
                    let back = text.as_ref().ok().map(|t| PARSER.parse_time_zone(t).map(|b| b == tz).map_err(|e| e.to_string()));
                    let otext = o.to_string();
                    let oback = PARSER.parse_time_zone(&otext).map(|b| b == tz).map_err(|e| e.to_string());
                    (text, back, otext, oback)
                });
                match res {
                    Err(p) => r.viol("time_zone", &format!("DateTimePrinter::time_zone_to_string[fixed]->parse_time_zone/{}", panic_sig(&p)), case(), p),
                    Ok((text, back, otext, oback)) => {
                        let want = if off == 0 { "UTC".to_string() } else { rfmt::fmt_offset_full(off as i64) };
                        match (&text, back) {
                            (Ok(t), Some(b)) => {
                                if t != &want {
                                    r.viol("time_zone", "DateTimePrinter::time_zone_to_string[fixed]/not-the-documented-text", case(), format!("jiff {:?} documented {:?}", t, want));
                                }
                                if b != Ok(true) {
                                    r.viol("time_zone", "DateTimePrinter::time_zone_to_string[fixed]->parse_time_zone/value", case(), format!("text {:?}: {:?}", t, b));
                                }
                            }
                            _ => r.viol("time_zone", "DateTimePrinter::time_zone_to_string[fixed]/error", case(), format!("{:?}", text)),
                        }
                        if oback != Ok(true) {
                            r.viol("time_zone", "Offset::to_string->parse_time_zone/value", case(), format!("text {:?}: {:?}", otext, oback));
                        }
                    }
                }
                (off % 60 != 0) as u64
            })
            .sum();
        r.count("time_zone_fixed_offsets", (2 * max + 1) as u64);
        r.count("time_zone_fixed_offsets_with_seconds", n_sec);
        r.add_states((2 * max + 1) as u64);
        r.add_transitions(4 * (2 * max + 1) as u64);
        r.add_validated(3 * (2 * max + 1) as u64);

        // --- every IANA name of the system database ---
        let db = jiff::tz::db();
        let names: Vec<String> = db.available().map(|n| n.as_str().to_string()).collect();
        let n_names: u64 = names
            .par_iter()
            .map(|name| {
                let case = || format!("zone={}", name);
                let res = guard(|| {
                    let tz = db.get(name).map_err(|e| e.to_string())?;
                    let text = printer.time_zone_to_string(&tz).map_err(|e| e.to_string())?;
                    let mut buf = String::new();
                    printer.print_time_zone(&tz, &mut buf).map_err(|e| e.to_string())?;
                    let a = PARSER.parse_time_zone(&text).map_err(|e| e.to_string())?;
                    let b = PARSER.parse_time_zone_with(db, &text).map_err(|e| e.to_string())?;
                    // same answers at instants across the whole range (used only for
                    // names that are also complete POSIX TZ strings, see below)
                    let same_behaviour = [Timestamp::MIN, Timestamp::UNIX_EPOCH, Timestamp::MAX].iter().all(|&t| {
                        let (x, y, z) = (tz.to_offset_info(t), a.to_offset_info(t), b.to_offset_info(t));
                        x.offset() == y.offset() && x.offset() == z.offset() && x.dst() == y.dst() && x.dst() == z.dst()
                    });
                    Ok::<_, String>((text, buf, a == tz, b == tz, a.iana_name().map(|s| s.to_string()), same_behaviour))
                });
                match res {
                    Err(p) => r.viol("time_zone", &format!("DateTimePrinter::time_zone_to_string[iana]->parse_time_zone/{}", panic_sig(&p)), case(), p),
                    Ok(Err(e)) => r.viol("time_zone", "DateTimePrinter::time_zone_to_string[iana]->parse_time_zone/error", case(), e),
                    Ok(Ok((text, buf, a, b, iana, same_behaviour))) => {
                        if &text != name || buf != text {
                            r.viol("time_zone", "DateTimePrinter::time_zone_to_string[iana]/not-the-name", case(), format!("{:?} / {:?}", text, buf));
                        }
                        if !a || !b || iana.as_deref() != Some(name.as_str()) {
                            // input class: the name is itself a complete POSIX TZ
                            // string without DST (GMT0, GMT+0, GMT-0), which
                            // parse_time_zone reads as such
                            let posix = matches!(rtz::parse_posix(name.as_bytes()), Ok(ref p) if p.dst.is_none());
                            // Such a text belongs to two of the three documented
                            // categories of parse_time_zone and no precedence is
                            // documented (and C09 itself speaks of datetimes, not of
                            // lone zones): a POSIX zone with the same behaviour is
                            // accepted and counted.
                            if posix && same_behaviour {
                                r.count("time_zone_iana_names_that_are_complete_posix_strings(read as POSIX, same behaviour: accepted)", 1);
                                return 1;
                            }
                            let k = if posix { "[name-is-also-a-posix-tz-string]" } else { "" };
                            r.viol("time_zone", &format!("DateTimePrinter::time_zone_to_string[iana]->parse_time_zone/value{}", k), case(), format!("text {:?}: equal {} {} name {:?}", text, a, b, iana));
                        }
                    }
                }
                1
            })
            .sum();
        r.count("time_zone_iana_names", n_names);
        r.add_states(n_names);
        r.add_validated(2 * n_names);

        // --- POSIX zones: the lone zone round-trips; a zoned datetime prints the offset ---
        let quick = r.quick();
        let mut n_posix = 0u64;
        let mut n_shift = 0u64;
        for s in POSIX_ZONES {
            let pair = match zones::load_posix_pair(s) {
                Ok(p) => p,
                Err(e) => {
                    r.note(format!("posix zone {} not loaded: {}", s, e));
                    continue;
                }
            };
            match guard(|| {
                let text = printer.time_zone_to_string(&pair.jiff).map_err(|e| e.to_string())?;
                let back = PARSER.parse_time_zone(&text).map_err(|e| e.to_string())?;
                Ok::<_, String>((text, back == pair.jiff))
            }) {
                Err(p) => r.viol("time_zone", &format!("DateTimePrinter::time_zone_to_string[posix]->parse_time_zone/{}", panic_sig(&p)), s, p),
                Ok(Err(e)) => r.viol("time_zone", "DateTimePrinter::time_zone_to_string[posix]->parse_time_zone/error", s, e),
                Ok(Ok((text, eq))) => {
                    if !eq {
                        r.viol("time_zone", "DateTimePrinter::time_zone_to_string[posix]->parse_time_zone/value", s, format!("text {:?} parses to a different zone", text));
                    }
                }
            }
            let mut v = zone_edge_probes(&pair.model);
            v.extend(vf::pools::timestamps().into_iter().map(|t| t.as_nanosecond()));
            for k in zones::probe_pieces(&pair.model, &|y| if quick { (1990..=2040).contains(&y) } else { (1800..=2400).contains(&y) }) {
                probes_for_piece(&pair.model, k, &mut v);
            }
            clip(&mut v);
            v.sort_unstable();
            v.dedup();
            for &t in &v {
                let cls = classify(&pair.model, t, t);
                if cls.f7 {
                    continue;
                }
                check_zoned_unnamed(r, "posix", s, &pair.jiff, cls.off, t, &mut n_shift);
                n_posix += 1;
            }
        }
        r.count("time_zone_posix_zoned_cases", n_posix);

        // --- every fixed offset with seconds, three instants ---
        let tss: [i128; 3] = [0, 1_718_454_896_789_000_000, -1_500_000_000];
        let shifted: u64 = (-max..=max)
            .into_par_iter()
            .filter(|off| off % 60 != 0)
            .map(|off: i32| {
                let tz = TimeZone::fixed(Offset::from_seconds(off).unwrap());
                let mut n = 0u64;
                for &t in &tss {
                    check_zoned_unnamed(r, "fixed-with-seconds", &format!("fixed{}", off), &tz, off as i64, t, &mut n);
                }
                n
            })
            .sum();
        r.count("time_zone_subminute_fixed_zoned_cases", n_sec * 3);
        r.count("time_zone_text_instant_shifted_by_rounding", shifted + n_shift);
        r.add_states(n_posix + n_sec * 3);
        r.add_transitions(2 * (n_posix + n_sec * 3));
        r.add_validated(2 * (n_posix + n_sec * 3));

        // --- Etc/Unknown: printed Z[Etc/Unknown], parses back to the unknown zone ---
        let unk = TimeZone::unknown();
        let mut n_unk = 0u64;
        for t in vf::pools::timestamps() {
            let tn = t.as_nanosecond();
            let case = format!("zoned zone=Etc/Unknown t={}", conv::fmt_ns(tn));
            n_unk += 1;
            match guard(|| {
                let z = t.to_zoned(unk.clone());
                let text = z.to_string();
                let back = text.parse::<Zoned>().map(|b| (b.timestamp().as_nanosecond(), b.time_zone().is_unknown())).map_err(|e| e.to_string());
                let ts = text.parse::<Timestamp>().map(|b| b.as_nanosecond()).map_err(|e| e.to_string());
                (text, back, ts)
            }) {
                Err(p) => r.viol("time_zone", &format!("Zoned[unknown]::to_string->parse/{}", panic_sig(&p)), &case, p),
                Ok((text, back, ts)) => {
                    let canon = format!("{}Z[Etc/Unknown]", rfmt::fmt_civil(tn, b'T', None));
                    if text != canon {
                        r.viol("time_zone", "Zoned[unknown]::to_string/not-the-canonical-text", &case, format!("jiff {:?} canonical {:?}", text, canon));
                    }
                    if back != Ok((tn, true)) || ts != Ok(tn) {
                        r.viol("time_zone", "Zoned[unknown]::to_string->parse/value", &case, format!("text {:?} parsed {:?} / {:?}", text, back, ts));
                    }
                }
            }
        }
        r.count("time_zone_unknown_zoned_cases", n_unk);
        r.add_states(n_unk);
        r.add_validated(2 * n_unk);
    });
}

// ---------------------------------------------------------------------------
// std::fmt flags ({:.N}, {:?}, {:.N?}) on every type, the Write adapters, and
// the printer options on Date
// ---------------------------------------------------------------------------

/// `{:.N}` must give the documented text (exactly min(N,9) digits), `{:?}` /
/// `{:.N?}` the same as Display, and the text must parse back (through
/// `parse`) to the value truncated to the printed precision.
#[allow(clippy::too_many_arguments)]
fn fmt_flags_case<V: std::fmt::Display + std::fmt::Debug + std::panic::RefUnwindSafe>(
    r: &Report,
    ty: &str,
    case: &str,
    v: &V,
    debug_is_display: bool,
    canon: &dyn Fn(Option<u8>) -> String,
    parse_back: &(dyn Fn(&str) -> Result<i128, String> + std::panic::RefUnwindSafe),
    want_back: &dyn Fn(Option<u8>) -> Option<i128>,
) -> u64 {
    let mut n = 0;
    let mut precs: Vec<Option<usize>> = vec![None];
    precs.extend(FMT_PRECS.iter().map(|&p| Some(p)));
    for p in precs {
        n += 1;
        let c = || format!("{} fmt-precision={:?}", case, p);
        let res = guard(|| {
            let (d, g, alt) = match p {
                None => (format!("{}", v), format!("{:?}", v), format!("{:#}", v)),
                Some(p) => (format!("{:.*}", p, v), format!("{:.*?}", p, v), format!("{:#.*}", p, v)),
            };
            let back = parse_back(&d);
            (d, g, alt, back)
        });
        match res {
            Err(pn) => r.viol("fmt_flags", &format!("{}::fmt(precision)/{}", ty, panic_sig(&pn)), c(), pn),
            Ok((d, g, alt, back)) => {
                let prec = p.map(|p| p.min(9) as u8);
                let want = canon(prec);
                if d != want {
                    r.viol("fmt_flags", &format!("{}::fmt(precision)/not-the-documented-text", ty), c(), format!("jiff {:?} documented {:?}", d, want));
                }
                if debug_is_display && g != d {
                    r.viol("fmt_flags", &format!("{}::fmt(Debug)/differs-from-Display", ty), c(), format!("Debug {:?} Display {:?}", g, d));
                }
                if alt != d {
                    r.viol("fmt_flags", &format!("{}::fmt(alternate)/differs-from-Display", ty), c(), format!("{{:#}} {:?} Display {:?}", alt, d));
                }
                if let Some(w) = want_back(prec) {
                    match back {
                        Err(e) => r.viol("fmt_flags", &format!("{}::fmt(precision)->parse/parse-error", ty), c(), format!("text {:?}: {}", d, e)),
                        Ok(b) => {
                            if b != w {
                                r.viol("fmt_flags", &format!("{}::fmt(precision)->parse/value", ty), c(), format!("text {:?} parsed {} want {}", d, b, w));
                            }
                        }
                    }
                }
            }
        }
    }
    n
}

fn trunc_to(ns: i128, prec: Option<u8>) -> i128 {
    match prec {
        None => ns,
        Some(p) => {
            let u = 10i128.pow(9 - p.min(9) as u32);
            ns.div_euclid(u) * u
        }
    }
}

fn sec_fmt_flags(r: &Report) {
    r.section("fmt_flags", || {
        let mut n = 0u64;
        // Time
        let mut times: Vec<Time> = vf::pools::times();
        times.extend(SUBSEC.iter().map(|&ns| Time::new(7, 8, 9, ns as i32).unwrap()));
        for t in &times {
            let tn = conv::time_ns(*t);
            n += fmt_flags_case(r, "Time", &format!("time {}", t), t, true, &|p| rfmt::fmt_time(tn, p), &|s| s.parse::<Time>().map(conv::time_ns).map_err(|e| e.to_string()), &|p| Some(trunc_to(tn, p)));
        }
        // Date (precision is irrelevant, Debug = Display)
        for d in vf::pools::dates() {
            let (y, m, dd) = conv::date_ymd(d);
            let e = conv::date_epoch_day(d) as i128;
            n += fmt_flags_case(r, "Date", &format!("date {}", d), &d, true, &|_| rfmt::fmt_date(y, m, dd), &|s| s.parse::<Date>().map(|b| conv::date_epoch_day(b) as i128).map_err(|e| e.to_string()), &|_| Some(e));
        }
        // DateTime
        let mut dts: Vec<DateTime> = vf::pools::datetimes();
        for d in vf::pools::dates() {
            for &ns in &SUBSEC {
                dts.push(DateTime::from_parts(d, Time::new(7, 8, 9, ns as i32).unwrap()));
            }
        }
        let nd: u64 = dts
            .par_iter()
            .map(|dt| {
                let c = conv::dt_civil_ns(*dt);
                fmt_flags_case(r, "DateTime", &format!("datetime {}", dt), dt, true, &|p| rfmt::fmt_civil(c, b'T', p), &|s| s.parse::<DateTime>().map(conv::dt_civil_ns).map_err(|e| e.to_string()), &|p| Some(trunc_to(c, p)))
            })
            .sum();
        n += nd;
        // Timestamp and display_with_offset
        let mut tss: Vec<i128> = vf::pools::timestamps().into_iter().map(|t| t.as_nanosecond()).collect();
        for base in [0i128, -1, 1_700_000_000] {
            for &ns in &SUBSEC {
                tss.push(base * NS + ns as i128);
            }
        }
        tss.sort_unstable();
        tss.dedup();
        let offs: [i32; 7] = [0, -18_000, 19_800, 45_900, -2_670, 93_599, -93_540];
        let nt: u64 = tss
            .par_iter()
            .map(|&t| {
                let ts = Timestamp::from_nanosecond(t).unwrap();
                let mut k = fmt_flags_case(r, "Timestamp", &format!("timestamp t={}", conv::fmt_ns(t)), &ts, true, &|p| format!("{}Z", rfmt::fmt_civil(trunc_to(t, p), b'T', p)), &|s| s.parse::<Timestamp>().map(|b| b.as_nanosecond()).map_err(|e| e.to_string()), &|p| Some(trunc_to(t, p)));
                for &o in &offs {
                    let off = Offset::from_seconds(o).unwrap();
                    let d = ts.display_with_offset(off);
                    let r_off = rfmt::round_offset_to_minute(o as i64);
                    k += fmt_flags_case(
                        r,
                        "TimestampDisplayWithOffset",
                        &format!("display_with_offset t={} offset={}", conv::fmt_ns(t), o),
                        &d,
                        false,
                        &|p| format!("{}{}", rfmt::fmt_civil(trunc_to(t, p) + o as i128 * NS, b'T', p), rfmt::fmt_offset_min(o as i64)),
                        &|s| s.parse::<Timestamp>().map(|b| b.as_nanosecond()).map_err(|e| e.to_string()),
                        // the text denotes civil - rounded offset
                        &|p| Some(trunc_to(t, p) + (o as i128 - r_off as i128) * NS).filter(|i| *i >= ts_min() && *i <= ts_max()),
                    );
                }
                k
            })
            .sum();
        n += nt;
        // Zoned: representative zones x pool instants and their first/last recorded transitions
        let db = jiff::tz::db();
        let reps = zones::rep();
        let nz: u64 = reps
            .par_iter()
            .map(|z| {
                let Ok(model) = rtz::zone_from_tzif(&z.bytes) else { return 0 };
                let Ok(Ok(tz)) = guard(|| db.get(&z.name)) else { return 0 };
                let mut v: Vec<i128> = vf::pools::timestamps().into_iter().map(|t| t.as_nanosecond()).collect();
                v.push(1_718_454_896_789_000_000);
                v.push(-1_718_454_896_789_012_345);
                let ks = zones::probe_pieces(&model, &|_| false);
                for &k in ks.iter().take(2).chain(ks.iter().rev().take(2)) {
                    probes_for_piece(&model, k, &mut v);
                }
                clip(&mut v);
                v.sort_unstable();
                v.dedup();
                let mut k = 0;
                for &t in &v {
                    let cls = classify(&model, t, t);
                    if cls.f7 {
                        continue;
                    }
                    let Ok(zd) = guard(|| Timestamp::from_nanosecond(t).unwrap().to_zoned(tz.clone())) else { continue };
                    let name = z.name.clone();
                    k += fmt_flags_case(
                        r,
                        "Zoned",
                        &format!("zoned zone={} t={}", z.name, conv::fmt_ns(t)),
                        &zd,
                        true,
                        &|p| format!("{}{}[{}]", rfmt::fmt_civil(trunc_to(t, p) + cls.off as i128 * NS, b'T', p), rfmt::fmt_offset_min(cls.off), name),
                        &|s| s.parse::<Zoned>().map(|b| b.timestamp().as_nanosecond()).map_err(|e| e.to_string()),
                        // truncation can move an instant across a transition or onto the
                        // other side of a fold; the parse-back value is only claimed when
                        // the truncated instant keeps the offset and is not in a same-minute fold
                        &|p| {
                            let w = trunc_to(t, p);
                            let c2 = classify(&model, w, w);
                            if c2.off == cls.off && !c2.same_minute && !c2.f7 {
                                Some(w)
                            } else {
                                None
                            }
                        },
                    );
                }
                k
            })
            .sum();
        n += nz;
        r.count("fmt_flags_cases", n);
        r.add_states(n);
        r.add_transitions(4 * n);
        r.add_validated(4 * n);

        // --- the Write adapters: every print_* into String, Vec<u8>,
        // StdFmtWrite and StdIoWrite writes what *_to_string returns ---
        use jiff::fmt::{StdFmtWrite, StdIoWrite};
        struct Dyn<'a>(&'a mut dyn jiff::fmt::Write);
        impl jiff::fmt::Write for Dyn<'_> {
            fn write_str(&mut self, s: &str) -> Result<(), jiff::Error> {
                self.0.write_str(s)
            }
        }
        let pr = DateTimePrinter::new().precision(Some(3)).separator(b' ');
        macro_rules! adapters {
            ($name:literal, $case:expr, $to_string:expr, $print:expr) => {{
                let case: String = $case;
                match guard(|| {
                    let want: String = $to_string;
                    let mut a = String::new();
                    let ra = $print(&mut a as &mut dyn jiff::fmt::Write).is_ok();
                    let mut b: Vec<u8> = vec![];
                    let rb = $print(&mut b as &mut dyn jiff::fmt::Write).is_ok();
                    let mut c = String::new();
                    let rc = $print(&mut StdFmtWrite(&mut c) as &mut dyn jiff::fmt::Write).is_ok();
                    let mut d: Vec<u8> = vec![];
                    let rd = $print(&mut StdIoWrite(&mut d) as &mut dyn jiff::fmt::Write).is_ok();
                    (ra && rb && rc && rd && a == want && b == want.as_bytes() && c == want && d == want.as_bytes(), want, a, c)
                }) {
                    Err(p) => r.viol("fmt_flags", &format!("DateTimePrinter::{}/{}", $name, panic_sig(&p)), case, p),
                    Ok((ok, want, a, c)) => {
                        if !ok {
                            r.viol("fmt_flags", &format!("DateTimePrinter::{}/writers-disagree-with-to_string", $name), case, format!("to_string {:?} String {:?} StdFmtWrite {:?}", want, a, c));
                        }
                    }
                }
            }};
        }
        let mut nw = 0u64;
        for dt in vf::pools::datetimes() {
            adapters!("print_datetime", format!("datetime {}", dt), pr.datetime_to_string(&dt), |w: &mut dyn jiff::fmt::Write| pr.print_datetime(&dt, Dyn(w)));
            adapters!("print_date", format!("date {}", dt.date()), pr.date_to_string(&dt.date()), |w: &mut dyn jiff::fmt::Write| pr.print_date(&dt.date(), Dyn(w)));
            adapters!("print_time", format!("time {}", dt.time()), pr.time_to_string(&dt.time()), |w: &mut dyn jiff::fmt::Write| pr.print_time(&dt.time(), Dyn(w)));
            nw += 3;
        }
        let ny = db.get("America/New_York").unwrap();
        for ts in vf::pools::timestamps() {
            let off = Offset::from_seconds(-2_670).unwrap();
            let zd = ts.to_zoned(ny.clone());
            let pc = Pieces::from(&zd);
            adapters!("print_timestamp", format!("timestamp {}", ts), pr.timestamp_to_string(&ts), |w: &mut dyn jiff::fmt::Write| pr.print_timestamp(&ts, Dyn(w)));
            adapters!("print_timestamp_with_offset", format!("timestamp {} offset -2670", ts), pr.timestamp_with_offset_to_string(&ts, off), |w: &mut dyn jiff::fmt::Write| pr.print_timestamp_with_offset(&ts, off, Dyn(w)));
            adapters!("print_zoned", format!("zoned {}", zd), pr.zoned_to_string(&zd), |w: &mut dyn jiff::fmt::Write| pr.print_zoned(&zd, Dyn(w)));
            adapters!("print_pieces", format!("pieces {}", pc), pr.pieces_to_string(&pc), |w: &mut dyn jiff::fmt::Write| pr.print_pieces(&pc, Dyn(w)));
            adapters!("print_time_zone", "zone America/New_York".to_string(), pr.time_zone_to_string(&ny).unwrap(), |w: &mut dyn jiff::fmt::Write| pr.print_time_zone(&ny, Dyn(w)));
            nw += 5;
        }
        r.count("fmt_flags_writer_cases", nw);
        r.add_states(nw);
        r.add_validated(4 * nw);

        // --- printer options on Date: none of them applies; the text is Display's ---
        let mut no = 0u64;
        for o in Opt::all() {
            for d in vf::pools::dates() {
                no += 1;
                let case = || format!("date {}{}", d, o.name());
                match guard(|| (o.printer().date_to_string(&d), PARSER.parse_date(o.printer().date_to_string(&d)).map_err(|e| e.to_string()))) {
                    Err(p) => r.viol("fmt_flags", &format!("DateTimePrinter::date_to_string->parse_date/{}", panic_sig(&p)), case(), p),
                    Ok((text, back)) => {
                        let (y, m, dd) = conv::date_ymd(d);
                        if text != rfmt::fmt_date(y, m, dd) {
                            r.viol("fmt_flags", "DateTimePrinter::date_to_string/not-the-canonical-text", case(), format!("jiff {:?}", text));
                        }
                        if back != Ok(d) {
                            r.viol("fmt_flags", "DateTimePrinter::date_to_string->parse_date/value", case(), format!("text {:?} parsed {:?}", text, back));
                        }
                    }
                }
            }
        }
        r.count("fmt_flags_date_option_cases", no);
        r.add_states(no);
        r.add_validated(2 * no);
    });
}
