//! C09: datetimes print to RFC 3339 / RFC 9557 text that parses back to the
//! same value. E1: complete enumeration of the declared alphabets; oracle =
//! round trip through jiff's own parser (same instant, civil fields, offset,
//! time zone) plus an independent reader (R-fmt, `c09/rfmt.rs`) that must
//! decode the printed text to the same instant via `refmodel::cal`.

use jiff::civil::{Date, DateTime, Time};
use jiff::fmt::temporal::{DateTimeParser, DateTimePrinter};
use jiff::tz::{Offset, TimeZone, TimeZoneDatabase};
use jiff::{Timestamp, Zoned};
use rayon::prelude::*;
use refmodel::cal;
use refmodel::tz as rtz;
use serde_json::json;
use std::collections::BTreeSet;
use std::sync::Mutex;
use vf::conv::{self, NS};
use vf::{guard, panic_sig, zones, Report};

#[path = "c09/rfmt.rs"]
mod rfmt;
use rfmt::Off;

/// All ten sub-second precisions plus three mixed values.
const SUBSEC: [i64; 13] = [
    0,
    1,
    10,
    100,
    1_000,
    10_000,
    100_000,
    1_000_000,
    10_000_000,
    100_000_000,
    999_999_999,
    123_456_789,
    500_000_000,
];

static PARSER: DateTimeParser = DateTimeParser::new();

fn main() {
    let r = Report::from_args("C09");
    sec_date(&r);
    sec_time(&r);
    sec_datetime(&r);
    sec_timestamp(&r);
    sec_ts_offset(&r);
    sec_zoned_sys(&r);
    sec_zoned_bundled(&r);
    sec_zoned_fixed(&r);
    sec_options(&r);

    if r.only_section.is_none() {
        r.require(r.get_count("dates") == (cal::max_day() - cal::min_day() + 1) as u64, "all 7304484 dates printed and parsed");
        r.require(r.get_count("dates_6digit_year") > 0 && r.get_count("dates_4digit_year") > 0, "both year formats seen");
        r.require(r.get_count("zoned_in_fold") > 0, "zoned instants inside folds probed");
        r.require(r.get_count("zoned_subminute_offset") > 0, "zoned instants with sub-minute offsets probed");
        r.require(r.get_count("zoned_fold_and_subminute") > 0, "zoned instants inside sub-minute folds probed");
        r.require(r.get_count("ts_offset_subminute") > 0 && r.get_count("ts_offset_whole_minute") > 0, "both offset kinds printed");
        r.require(r.get_count("options_lossy") > 0 && r.get_count("options_lossless") > 0, "lossy and lossless option cases");
    }
    for k in [
        "dates_4digit_year",
        "dates_6digit_year",
        "zoned_in_fold",
        "zoned_subminute_offset",
        "zoned_fold_and_subminute",
        "zoned_f2_class",
        "zoned_distinct_printed_offsets",
        "ts_offset_subminute",
        "ts_offset_whole_minute",
        "options_lossy",
        "options_lossless",
        "reader_instants_compared",
    ] {
        r.outcome(k, r.get_count(k));
    }
    r.finish();
}

// ---------------------------------------------------------------------------
// civil Date: all 7.3 M
// ---------------------------------------------------------------------------

fn sec_date(r: &Report) {
    r.section("date", || {
        let min = cal::min_day();
        let max = cal::max_day();
        let nch = 256i64;
        let total = max - min + 1;
        (0..nch).into_par_iter().for_each(|c| {
            let lo = min + total * c / nch;
            let hi = min + total * (c + 1) / nch - 1;
            let (mut n4, mut n6) = (0u64, 0u64);
            for e in lo..=hi {
                let (y, m, d) = cal::civil_from_days(e);
                let case = || format!("date {}-{:02}-{:02}", y, m, d);
                let res = guard(|| {
                    let v = Date::new(y as i16, m as i8, d as i8).unwrap();
                    let text = v.to_string();
                    let back = text.parse::<Date>();
                    (v, text, back)
                });
                let (v, text, back) = match res {
                    Err(p) => {
                        r.viol("date", &format!("Date::to_string->from_str/{}", panic_sig(&p)), case(), p);
                        continue;
                    }
                    Ok(x) => x,
                };
                match back {
                    Err(e) => r.viol("date", "Date::from_str(to_string)/parse-error", case(), format!("text {:?}: {}", text, e)),
                    Ok(b) => {
                        if b != v || conv::date_ymd(b) != (y, m, d) {
                            r.viol("date", "Date::from_str(to_string)/value", case(), format!("text {:?} parsed {:?}", text, b));
                        }
                    }
                }
                match rfmt::read_date(&text) {
                    Err(e) => r.viol("date", "Date::to_string/reader-grammar", case(), format!("text {:?}: {}", text, e)),
                    Ok(rd) => {
                        if rd.ymd != Some((y, m, d)) {
                            r.viol("date", "Date::to_string/reader-value", case(), format!("text {:?} read {:?}", text, rd.ymd));
                        }
                    }
                }
                if text.len() == 10 {
                    n4 += 1;
                } else {
                    n6 += 1;
                }
            }
            let n = (hi - lo + 1) as u64;
            r.add_states(n);
            r.add_transitions(3 * n);
            r.add_validated(2 * n);
            r.count("dates", n);
            r.count("dates_4digit_year", n4);
            r.count("dates_6digit_year", n6);
        });
        r.sample(json!({"section": "date", "example": Date::new(-9999, 1, 1).unwrap().to_string()}));
    });
}

// ---------------------------------------------------------------------------
// civil Time: every second x 13 sub-second values
// ---------------------------------------------------------------------------

fn sec_time(r: &Report) {
    r.section("time", || {
        (0..86_400i64).into_par_iter().for_each(|s| {
            for &ns in &SUBSEC {
                let (h, mi, ss) = (s / 3600, (s / 60) % 60, s % 60);
                let case = || format!("time {:02}:{:02}:{:02}.{:09}", h, mi, ss, ns);
                let res = guard(|| {
                    let v = Time::new(h as i8, mi as i8, ss as i8, ns as i32).unwrap();
                    let text = v.to_string();
                    let back = text.parse::<Time>();
                    (v, text, back)
                });
                let (v, text, back) = match res {
                    Err(p) => {
                        r.viol("time", &format!("Time::to_string->from_str/{}", panic_sig(&p)), case(), p);
                        continue;
                    }
                    Ok(x) => x,
                };
                match back {
                    Err(e) => r.viol("time", "Time::from_str(to_string)/parse-error", case(), format!("text {:?}: {}", text, e)),
                    Ok(b) => {
                        if b != v || conv::time_ns(b) != (s as i128) * NS + ns as i128 {
                            r.viol("time", "Time::from_str(to_string)/value", case(), format!("text {:?} parsed {:?}", text, b));
                        }
                    }
                }
                match rfmt::read_time(&text) {
                    Err(e) => r.viol("time", "Time::to_string/reader-grammar", case(), format!("text {:?}: {}", text, e)),
                    Ok(rd) => {
                        let t = rd.time.unwrap();
                        if (t.0, t.1, t.2, t.3) != (h, mi, ss, ns) {
                            r.viol("time", "Time::to_string/reader-value", case(), format!("text {:?} read {:?}", text, t));
                        }
                    }
                }
            }
            let n = SUBSEC.len() as u64;
            r.add_states(n);
            r.add_transitions(3 * n);
            r.add_validated(2 * n);
        });
        r.count("times", 86_400 * SUBSEC.len() as u64);
    });
}

// ---------------------------------------------------------------------------
// civil DateTime: date pool x (every second x 13 sub-second values)
// ---------------------------------------------------------------------------

fn check_datetime(r: &Report, section: &str, v: DateTime) {
    let civil = conv::dt_civil_ns(v);
    let case = || format!("datetime civil_ns={}", civil);
    let res = guard(|| {
        let text = v.to_string();
        let back = text.parse::<DateTime>();
        (text, back)
    });
    let (text, back) = match res {
        Err(p) => {
            r.viol(section, &format!("DateTime::to_string->from_str/{}", panic_sig(&p)), case(), p);
            return;
        }
        Ok(x) => x,
    };
    match back {
        Err(e) => r.viol(section, "DateTime::from_str(to_string)/parse-error", case(), format!("text {:?}: {}", text, e)),
        Ok(b) => {
            if b != v || conv::dt_civil_ns(b) != civil {
                r.viol(section, "DateTime::from_str(to_string)/value", case(), format!("text {:?} parsed {:?}", text, b));
            }
        }
    }
    match rfmt::read_full(&text, false, false) {
        Err(e) => r.viol(section, "DateTime::to_string/reader-grammar", case(), format!("text {:?}: {}", text, e)),
        Ok(rd) => {
            if rd.civil_ns() != Some(civil) || rd.sep != Some(b'T') {
                r.viol(section, "DateTime::to_string/reader-value", case(), format!("text {:?} read {:?}", text, rd));
            }
        }
    }
}

fn sec_datetime(r: &Report) {
    r.section("datetime", || {
        let dates = vf::pools::dates();
        // quick: every second of the day x {0, 1ns, .5, 999999999} and every
        // minute x all 13; thorough: every second x all 13.
        let quick = r.quick();
        let n: u64 = (0..86_400i64)
            .into_par_iter()
            .map(|s| {
                let mut n = 0u64;
                let subs: &[i64] = if quick && s % 60 != 0 { &[0, 1, 500_000_000, 999_999_999] } else { &SUBSEC };
                for d in &dates {
                    for &ns in subs {
                        let t = Time::new((s / 3600) as i8, ((s / 60) % 60) as i8, (s % 60) as i8, ns as i32).unwrap();
                        check_datetime(r, "datetime", DateTime::from_parts(*d, t));
                        n += 1;
                    }
                }
                n
            })
            .sum();
        // pool x pool as well (cheap)
        let mut m = 0;
        for dt in vf::pools::datetimes() {
            check_datetime(r, "datetime", dt);
            m += 1;
        }
        r.add_states(n + m);
        r.add_transitions(3 * (n + m));
        r.add_validated(2 * (n + m));
        r.count("datetimes", n + m);
    });
}

// ---------------------------------------------------------------------------
// Timestamp: pool + P(z) of Z-rep
// ---------------------------------------------------------------------------

/// The F13 input classes, computed from the text alone: the fraction is
/// non-zero and the civil date written in the text lies on the other side of
/// 1970-01-01 than the instant denoted (`IDateTime::to_timestamp` decides the
/// sign of the nanosecond from the civil day instead of the resulting second).
fn f13_class_of(civil_ns: i128, inst_ns: i128) -> Option<&'static str> {
    if inst_ns.rem_euclid(NS) == 0 {
        None
    } else if civil_ns < 0 && inst_ns >= 0 {
        Some("text-date<1970,fraction!=0,instant>=epoch")
    } else if civil_ns >= 0 && inst_ns < 0 {
        Some("text-date>=1970,fraction!=0,instant<epoch")
    } else {
        None
    }
}

fn f13_class(rd: &rfmt::Read) -> Option<&'static str> {
    match (rd.civil_ns(), rd.instant_ns()) {
        (Some(c), Some(i)) => f13_class_of(c, i),
        _ => None,
    }
}

/// Compare a parsed Timestamp with the expected instant. Returns the failure
/// class, if any.
fn ts_mismatch(parsed: Timestamp, want_ns: i128) -> Option<&'static str> {
    let want = Timestamp::from_nanosecond(want_ns).unwrap();
    if parsed.as_nanosecond() != want_ns {
        Some("instant")
    } else if parsed != want || parsed.as_second() != want.as_second() || parsed.subsec_nanosecond() != want.subsec_nanosecond() {
        // same instant by as_nanosecond() but not an equal value
        Some("not-equal-value")
    } else {
        None
    }
}

fn check_timestamp(r: &Report, section: &str, t_ns: i128) {
    let case = || format!("timestamp t={}", conv::fmt_ns(t_ns));
    let res = guard(|| {
        let v = Timestamp::from_nanosecond(t_ns).unwrap();
        let text = v.to_string();
        let back = text.parse::<Timestamp>();
        (text, back)
    });
    let (text, back) = match res {
        Err(p) => {
            r.viol(section, &format!("Timestamp::to_string->from_str/{}", panic_sig(&p)), case(), p);
            return;
        }
        Ok(x) => x,
    };
    match back {
        Err(e) => r.viol(section, "Timestamp::from_str(to_string)/parse-error", case(), format!("text {:?}: {}", text, e)),
        Ok(b) => {
            if let Some(cl) = ts_mismatch(b, t_ns) {
                r.viol(section, &format!("Timestamp::from_str(to_string)/{}", cl), case(), format!("text {:?} parsed {:?} ({}s {}ns)", text, b, b.as_second(), b.subsec_nanosecond()));
            }
        }
    }
    match rfmt::read_full(&text, true, false) {
        Err(e) => r.viol(section, "Timestamp::to_string/reader-grammar", case(), format!("text {:?}: {}", text, e)),
        Ok(rd) => {
            r.count("reader_instants_compared", 1);
            if rd.instant_ns() != Some(t_ns) || rd.off != Some(Off::Zulu) {
                r.viol(section, "Timestamp::to_string/reader-instant", case(), format!("text {:?} read {:?} -> {:?}", text, rd, rd.instant_ns()));
            }
        }
    }
}

fn ts_min() -> i128 {
    conv::ts_min_ns()
}
fn ts_max() -> i128 {
    conv::ts_max_ns()
}

/// P(z) around piece boundary k (k >= 1) of the model zone, plus the fold/gap
/// window edges and the interior point of piece k.
fn probes_for_piece(z: &rtz::Zone, k: usize, out: &mut Vec<i128>) {
    let t = z.pieces[k].start;
    out.extend(zones::instants_around(t));
    let ob = z.infos[z.pieces[k - 1].info as usize].utoff as i64;
    let oa = z.infos[z.pieces[k].info as usize].utoff as i64;
    let d = (oa - ob).abs();
    if d > 0 {
        for x in [t - d, t + d] {
            let b = x as i128 * NS;
            out.extend([b - 1, b, b + 1, b + 500_000_000]);
        }
        // a point strictly inside each half of the window
        out.push((t as i128 * NS) - (d as i128 * NS) / 2);
        out.push((t as i128 * NS) + (d as i128 * NS) / 2);
    }
    let end = z.piece_end(k).min(zones::TS_MAX_SEC);
    if end > t {
        out.push(((t as i128 + end as i128) / 2) * NS + 123_456_789);
    }
}

fn clip(v: &mut Vec<i128>) {
    let (lo, hi) = (ts_min(), ts_max());
    v.retain(|&x| x >= lo && x <= hi);
}

fn zone_edge_probes(z: &rtz::Zone) -> Vec<i128> {
    let mut v = vec![ts_min(), ts_min() + 1, ts_max() - 1, ts_max()];
    if z.pieces.len() > 1 {
        let first = z.pieces[1].start.max(zones::TS_MIN_SEC);
        v.push(((zones::TS_MIN_SEC as i128 + first as i128) / 2) * NS + 1);
    } else {
        v.push(1_700_000_000_123_456_789);
    }
    v
}

fn sec_timestamp(r: &Report) {
    r.section("timestamp", || {
        let mut all: BTreeSet<i128> = vf::pools::timestamps().into_iter().map(|t| t.as_nanosecond()).collect();
        for z in zones::rep() {
            let m = match rtz::zone_from_tzif(&z.bytes) {
                Ok(m) => m,
                Err(e) => {
                    r.note(format!("model refused {}: {}", z.name, e));
                    continue;
                }
            };
            let mut v = zone_edge_probes(&m);
            for k in zones::probe_pieces(&m, &|_| true) {
                probes_for_piece(&m, k, &mut v);
            }
            clip(&mut v);
            all.extend(v);
        }
        // every sub-second precision on both sides of the epoch
        for base in [0i128, -1, 1, -86_400, 1_700_000_000] {
            for &ns in &SUBSEC {
                all.insert(base * NS + ns as i128);
            }
        }
        let all: Vec<i128> = all.into_iter().collect();
        all.par_iter().for_each(|&t| check_timestamp(r, "timestamp", t));
        let n = all.len() as u64;
        r.add_states(n);
        r.add_transitions(3 * n);
        r.add_validated(2 * n);
        r.count("timestamps", n);
        r.sample(json!({"section": "timestamp", "example": Timestamp::MIN.to_string()}));
    });
}

// ---------------------------------------------------------------------------
// Timestamp::display_with_offset: all 187,199 offsets on four timestamps
// ---------------------------------------------------------------------------

fn check_ts_offset(r: &Report, section: &str, t_ns: i128, off: i32) {
    let case = || format!("display_with_offset t={} offset={}", conv::fmt_ns(t_ns), off);
    let whole = off % 60 == 0;
    // input class of F10: the offset rounds (half away from zero) to 26:00
    let rounds_to_26 = off.abs() >= 25 * 3600 + 59 * 60 + 30;
    let res = guard(|| {
        let v = Timestamp::from_nanosecond(t_ns).unwrap();
        let o = Offset::from_seconds(off).unwrap();
        let text = v.display_with_offset(o).to_string();
        let back = text.parse::<Timestamp>();
        (text, back)
    });
    let (text, back) = match res {
        Err(p) => {
            r.viol(section, &format!("Timestamp::display_with_offset->from_str/{}", panic_sig(&p)), case(), p);
            return;
        }
        Ok(x) => x,
    };
    let cls = if rounds_to_26 { "[|offset|>=25:59:30]" } else if whole { "" } else { "[subminute-offset]" };
    let rd = match rfmt::read_full(&text, true, false) {
        Err(e) => {
            r.viol(section, &format!("Timestamp::display_with_offset/reader-grammar{}", cls), case(), format!("text {:?}: {}", text, e));
            None
        }
        Ok(rd) => Some(rd),
    };
    if let Some(rd) = &rd {
        if whole {
            r.count("reader_instants_compared", 1);
            let want_off = Off::Num { secs: off as i64, neg: off < 0 };
            if rd.instant_ns() != Some(t_ns) || rd.off != Some(want_off) {
                r.viol(section, "Timestamp::display_with_offset/reader-instant", case(), format!("text {:?} read {:?} -> {:?}", text, rd, rd.instant_ns()));
            }
        }
    }
    // A sub-minute offset is printed rounded (by design); within 30 s of
    // Timestamp::MIN/MAX the text may then denote an instant outside the
    // range, which the parser rightly refuses.
    let text_out_of_range = !whole && rd.as_ref().and_then(|x| x.instant_ns()).map(|i| i < ts_min() || i > ts_max()).unwrap_or(false);
    match back {
        Err(_) if text_out_of_range => {}
        Err(e) => r.viol(section, &format!("Timestamp::from_str(display_with_offset)/parse-error{}", cls), case(), format!("text {:?}: {}", text, e)),
        Ok(b) => {
            // whole-minute offsets: the original instant. Sub-minute offsets
            // are rounded by design, so there the text is the authority: what
            // the independent reader decodes from it.
            let want = if whole { Some(t_ns) } else { rd.as_ref().and_then(|x| x.instant_ns()) };
            if let Some(want) = want {
                if want >= ts_min() && want <= ts_max() {
                    if let Some(cl) = ts_mismatch(b, want) {
                        let f13 = rd.as_ref().and_then(f13_class).filter(|_| cl == "not-equal-value");
                        let k = match f13 {
                            Some(c) => format!("[{}]", c),
                            None => cls.to_string(),
                        };
                        r.viol(
                            section,
                            &format!("Timestamp::from_str(display_with_offset)/{}{}", cl, k),
                            case(),
                            format!("text {:?} parsed {:?} (second={} subsec={}) want ns={}", text, b, b.as_second(), b.subsec_nanosecond(), want),
                        );
                    }
                }
            }
        }
    }
}

fn sec_ts_offset(r: &Report) {
    r.section("ts_offset", || {
        let tss: [i128; 4] = [0, 1, 1_718_454_896_789_000_000, -1_500_000_000];
        let max = 25 * 3600 + 59 * 60 + 59;
        (-max..=max).into_par_iter().for_each(|off| {
            for &t in &tss {
                check_ts_offset(r, "ts_offset", t, off);
            }
        });
        let n_off = (2 * max + 1) as u64;
        let whole = (2 * (max / 60) + 1) as u64;
        r.count("ts_offset_whole_minute", whole * 4);
        r.count("ts_offset_subminute", (n_off - whole) * 4);
        // pool timestamps x boundary offsets
        let offs: [i32; 16] = [-max, -max + 29, -max + 30, -3600, -61, -60, -31, -30, -29, -1, 0, 1, 19_800, 45_900, max - 30, max];
        let mut m = 0u64;
        for t in vf::pools::timestamps() {
            for &o in &offs {
                check_ts_offset(r, "ts_offset", t.as_nanosecond(), o);
                m += 1;
            }
        }
        let n = n_off * 4 + m;
        r.add_states(n);
        r.add_transitions(3 * n);
        r.add_validated(2 * n);
        r.count("ts_offset_cases", n);
    });
}

// ---------------------------------------------------------------------------
// Zoned
// ---------------------------------------------------------------------------

#[derive(Default, Clone, Copy)]
struct Cls {
    fold: bool,
    submin: bool,
    f2: bool,
    f7: bool,
    f13: Option<&'static str>,
    /// in a fold whose two offsets are printed as the same whole minute: the
    /// RFC 9557 text then carries no information about which side is meant
    same_minute: bool,
}

impl Cls {
    fn suffix(&self) -> String {
        let mut v = vec![];
        if self.fold {
            v.push("fold");
        }
        if self.submin {
            v.push("subminute-offset");
        }
        if self.same_minute {
            v.push("both-fold-offsets-print-as-the-same-minute");
        }
        // the F2 class is named only outside sub-minute folds (there F3's
        // class already explains a failure; F2 would show at every other
        // pre-1970 transition as well)
        if self.f2 && !(self.fold && self.submin) {
            v.push("fraction!=0,within-1s-before-pre1970-transition");
        }
        if self.f7 {
            v.push("between-posix-rule-transition-outside-its-rule-year-and-new-year");
        }
        if let Some(c) = self.f13 {
            v.push(c);
        }
        if v.is_empty() {
            String::new()
        } else {
            format!("[{}]", v.join(","))
        }
    }
}

/// Input class of an instant in a zone, from the reference model only.
/// `printed_ns` is the instant after truncation to the printed precision.
fn classify(z: &rtz::Zone, t_ns: i128, printed_ns: i128) -> Cls {
    let sec = t_ns.div_euclid(NS) as i64;
    let frac = t_ns.rem_euclid(NS);
    let i = z.piece_index_at(sec);
    let off = z.infos[z.pieces[i].info as usize].utoff as i64;
    let pre = z.preimages(sec + off);
    let fold = pre.len() >= 2;
    let submin = off % 60 != 0 || pre.iter().any(|&(_, k)| z.infos[z.pieces[k].info as usize].utoff % 60 != 0);
    let f2 = frac != 0
        && t_ns < 0
        && i + 1 < z.pieces.len()
        && z.pieces[i + 1].start == sec + 1
        && z.infos[z.pieces[i + 1].info as usize].utoff as i64 != off;
    // F7 class: a rule-generated transition whose exact UTC instant falls in
    // the year next to the rule's own year (necessarily within a day or so of
    // New Year); the instant lies between that transition and the New Year.
    let mut f7 = false;
    for k in i.saturating_sub(3)..(i + 4).min(z.pieces.len()) {
        let p = &z.pieces[k];
        if !p.crosses_year {
            continue;
        }
        let day = p.start.div_euclid(86400);
        let (y, m, _) = cal::civil_from_days(day);
        let (lo, hi) = if m == 12 {
            (p.start, cal::days_from_civil(y + 1, 1, 1) * 86400)
        } else {
            (cal::days_from_civil(y, 1, 1) * 86400, p.start)
        };
        if sec >= lo && sec < hi {
            f7 = true;
        }
    }
    let f13 = f13_class_of(printed_ns + off as i128 * NS, printed_ns);
    let round_min = |o: i32| -> i32 { o.signum() * ((o.abs() + 30) / 60) };
    let same_minute = pre.len() == 2
        && round_min(z.infos[z.pieces[pre[0].1].info as usize].utoff) == round_min(z.infos[z.pieces[pre[1].1].info as usize].utoff);
    Cls { fold, submin, f2, f7, f13, same_minute }
}

#[derive(Default)]
struct ZStats {
    n: u64,
    fold: u64,
    submin: u64,
    both: u64,
    f2: u64,
    reader: u64,
}

/// One Zoned round trip. `want_ann` is the annotation the text must carry.
/// `prec`: None = default printer (lossless); Some((printer, digits)) = lossy.
#[allow(clippy::too_many_arguments)]
fn check_zoned(
    r: &Report,
    section: &str,
    zname: &str,
    want_ann: &str,
    tz: &TimeZone,
    model: Option<&rtz::Zone>,
    t_ns: i128,
    parse: &(dyn Fn(&str) -> Result<Zoned, String> + Sync),
    opt: Option<&Opt>,
    st: &mut ZStats,
    offsets_seen: Option<&Mutex<BTreeSet<String>>>,
) {
    // expected value: the original truncated to the printed precision
    let want_ns = match opt {
        None => t_ns,
        Some(o) => o.truncate(t_ns),
    };
    let cls = model.map(|m| classify(m, t_ns, want_ns)).unwrap_or_default();
    st.n += 1;
    st.fold += cls.fold as u64;
    st.submin += cls.submin as u64;
    st.both += (cls.fold && cls.submin) as u64;
    st.f2 += cls.f2 as u64;
    let sfx = cls.suffix();
    let optname = opt.map(|o| o.name()).unwrap_or_default();
    let case = || format!("zoned zone={} t={}{}", zname, conv::fmt_ns(t_ns), optname);
    let op = if opt.is_some() { "DateTimePrinter::zoned_to_string" } else { "Zoned::to_string" };
    let res = guard(|| {
        let ts = Timestamp::from_nanosecond(t_ns).unwrap();
        let z = ts.to_zoned(tz.clone());
        let text = match opt {
            None => z.to_string(),
            Some(o) => o.printer().zoned_to_string(&z),
        };
        let back = parse(&text);
        (z, text, back)
    });
    let (z, text, back) = match res {
        Err(p) => {
            r.viol(section, &format!("{}->parse/{}{}", op, panic_sig(&p), sfx), case(), p);
            return;
        }
        Ok(x) => x,
    };
    match &back {
        Err(e) => r.viol(section, &format!("{}->parse/parse-error{}", op, sfx), case(), format!("text {:?}: {}", text, e)),
        Ok(b) => {
            let mut bad = vec![];
            if b.timestamp().as_nanosecond() != want_ns {
                bad.push("instant");
            } else if b.timestamp() != Timestamp::from_nanosecond(want_ns).unwrap() {
                bad.push("timestamp-not-equal-value");
            }
            if b.offset() != z.offset() {
                bad.push("offset");
            }
            let want_civil = conv::dt_civil_ns(z.datetime()) - (t_ns - want_ns);
            if conv::dt_civil_ns(b.datetime()) != want_civil {
                bad.push("civil");
            }
            if b.time_zone() != z.time_zone() {
                bad.push("time-zone");
            }
            if let Some(first) = bad.first() {
                r.viol(
                    section,
                    &format!("{}->parse/{}{}", op, first, sfx),
                    case(),
                    format!(
                        "text {:?}; original {} ns offset {}s; parsed {:?} = {} ns offset {}s; differs in {:?}",
                        text,
                        t_ns,
                        z.offset().seconds(),
                        b,
                        b.timestamp().as_nanosecond(),
                        b.offset().seconds(),
                        bad
                    ),
                );
            }
        }
    }
    match rfmt::read_full(&text, true, true) {
        Err(e) => r.viol(section, &format!("{}/reader-grammar{}", op, sfx), case(), format!("text {:?}: {}", text, e)),
        Ok(rd) => {
            if rd.ann.as_deref() != Some(want_ann) {
                r.viol(section, &format!("{}/reader-annotation", op), case(), format!("text {:?} want annotation {:?}", text, want_ann));
            }
            if let Some(o) = opt {
                if rd.sep != Some(o.printed_sep()) || rd.time.map(|t| t.4) != o.want_digits(t_ns) {
                    r.viol(section, &format!("{}/reader-options", op), case(), format!("text {:?} read {:?}", text, rd));
                }
            }
            if z.offset().seconds() % 60 == 0 {
                st.reader += 1;
                if rd.instant_ns() != Some(want_ns) {
                    r.viol(section, &format!("{}/reader-instant{}", op, sfx), case(), format!("text {:?} read instant {:?} want {}", text, rd.instant_ns(), want_ns));
                }
            }
            if let (Some(set), Some(Off::Num { secs, .. })) = (offsets_seen, &rd.off) {
                let key = format!("{}", secs);
                let mut g = set.lock().unwrap();
                if !g.contains(&key) {
                    g.insert(key);
                }
            }
        }
    }
}

fn flush_stats(r: &Report, st: &ZStats) {
    r.add_states(st.n);
    r.add_transitions(3 * st.n);
    r.add_validated(st.n + st.reader);
    r.count("zoned_cases", st.n);
    r.count("zoned_in_fold", st.fold);
    r.count("zoned_subminute_offset", st.submin);
    r.count("zoned_fold_and_subminute", st.both);
    r.count("zoned_f2_class", st.f2);
    r.count("reader_instants_compared", st.reader);
}

struct ZJob {
    name: String,
    model: rtz::Zone,
    tz: TimeZone,
    pieces: Vec<usize>,
}

/// Run the Zoned round trip over P(z) of every job.
fn run_zone_jobs(r: &Report, section: &str, jobs: &[ZJob], parse: &(dyn Fn(&str) -> Result<Zoned, String> + Sync)) {
    let seen: Mutex<BTreeSet<String>> = Mutex::new(BTreeSet::new());
    // tasks: (job, chunk of pieces); chunk None = the zone's edge probes
    let mut tasks: Vec<(usize, Option<(usize, usize)>)> = vec![];
    for (j, job) in jobs.iter().enumerate() {
        tasks.push((j, None));
        let mut i = 0;
        while i < job.pieces.len() {
            let e = (i + 256).min(job.pieces.len());
            tasks.push((j, Some((i, e))));
            i = e;
        }
    }
    tasks.par_iter().for_each(|&(j, ch)| {
        let job = &jobs[j];
        let mut v = vec![];
        match ch {
            None => {
                v = zone_edge_probes(&job.model);
                v.extend(vf::pools::timestamps().into_iter().map(|t| t.as_nanosecond()));
            }
            Some((a, b)) => {
                for &k in &job.pieces[a..b] {
                    probes_for_piece(&job.model, k, &mut v);
                }
            }
        }
        clip(&mut v);
        v.sort_unstable();
        v.dedup();
        let mut st = ZStats::default();
        for &t in &v {
            check_zoned(r, section, &job.name, &job.name, &job.tz, Some(&job.model), t, parse, None, &mut st, Some(&seen));
        }
        flush_stats(r, &st);
    });
    r.count("zoned_distinct_printed_offsets", seen.lock().unwrap().len() as u64);
    r.count("zoned_zones", jobs.len() as u64);
}

fn sec_zoned_sys(r: &Report) {
    r.section("zoned_sys", || {
        let db = jiff::tz::db();
        let mut names: Vec<String> = match guard(|| db.available().map(|n| n.as_str().to_string()).collect::<Vec<_>>()) {
            Ok(v) => v,
            Err(p) => {
                r.viol("zoned_sys", &format!("TimeZoneDatabase::available/{}", panic_sig(&p)), "db()", p);
                return;
            }
        };
        names.sort();
        r.require(names.len() > 500, "system tzdb visible through jiff::tz::db()");
        let quick = r.quick();
        let jobs: Vec<ZJob> = names
            .par_iter()
            .filter_map(|name| {
                let bytes = std::fs::read(format!("{}/{}", zones::SYS_DIR, name)).ok()?;
                let model = match rtz::zone_from_tzif(&bytes) {
                    Ok(m) => m,
                    Err(e) => {
                        r.note(format!("model refused {}: {}", name, e));
                        return None;
                    }
                };
                let tz = match guard(|| db.get(name)) {
                    Err(p) => {
                        r.viol("zoned_sys", &format!("TimeZoneDatabase::get/{}", panic_sig(&p)), format!("zone={}", name), p);
                        return None;
                    }
                    Ok(Err(e)) => {
                        r.viol("zoned_sys", "TimeZoneDatabase::get/error-for-available-name", format!("zone={}", name), e.to_string());
                        return None;
                    }
                    Ok(Ok(tz)) => tz,
                };
                if tz.iana_name() != Some(name.as_str()) {
                    r.note(format!("zone {} reports iana_name {:?}; skipped", name, tz.iana_name()));
                    return None;
                }
                // quick: representative zones get every transition to year
                // 9999, all other names their recorded transitions.
                // thorough: every name, every transition.
                let is_rep = zones::REP.contains(&name.as_str());
                let pieces = if !quick || is_rep { zones::probe_pieces(&model, &|_| true) } else { zones::probe_pieces(&model, &|_| false) };
                Some(ZJob { name: name.clone(), model, tz, pieces })
            })
            .collect();
        r.count("zoned_sys_names", jobs.len() as u64);
        let dirdb = TimeZoneDatabase::from_dir(zones::SYS_DIR).expect("from_dir");
        // FromStr (global database) and, in lockstep, an explicit from_dir
        // database: both must give the same value.
        let parse = move |s: &str| -> Result<Zoned, String> {
            let a = s.parse::<Zoned>();
            let b = PARSER.parse_zoned_with(&dirdb, s);
            match (a, b) {
                (Ok(a), Ok(b)) => {
                    if a.timestamp() != b.timestamp() || a.time_zone() != b.time_zone() {
                        Err(format!("FromStr gives {:?} but parse_zoned_with(from_dir) gives {:?}", a, b))
                    } else {
                        Ok(a)
                    }
                }
                (Err(a), Err(_)) => Err(a.to_string()),
                (Ok(a), Err(b)) => Err(format!("FromStr gives {:?} but parse_zoned_with(from_dir) fails: {}", a, b)),
                (Err(a), Ok(b)) => Err(format!("parse_zoned_with(from_dir) gives {:?} but FromStr fails: {}", b, a)),
            }
        };
        run_zone_jobs(r, "zoned_sys", &jobs, &parse);
        r.sample(json!({"section": "zoned_sys", "zones": jobs.len(), "pieces": jobs.iter().map(|j| j.pieces.len()).sum::<usize>()}));
    });
}

fn sec_zoned_bundled(r: &Report) {
    r.section("zoned_bundled", || {
        let db = TimeZoneDatabase::bundled();
        let quick = r.quick();
        let mut names: Vec<&'static str> = jiff_tzdb::available().collect();
        names.sort();
        if quick {
            names.retain(|n| zones::REP.contains(n));
        }
        let jobs: Vec<ZJob> = names
            .par_iter()
            .filter_map(|name| {
                let (_, bytes) = jiff_tzdb::get(name)?;
                let model = match rtz::zone_from_tzif(bytes) {
                    Ok(m) => m,
                    Err(e) => {
                        r.note(format!("model refused bundled {}: {}", name, e));
                        return None;
                    }
                };
                let tz = match guard(|| db.get(name)) {
                    Err(p) => {
                        r.viol("zoned_bundled", &format!("TimeZoneDatabase::get/{}", panic_sig(&p)), format!("zone={}", name), p);
                        return None;
                    }
                    Ok(Err(e)) => {
                        r.viol("zoned_bundled", "TimeZoneDatabase::get/error-for-available-name", format!("zone={}", name), e.to_string());
                        return None;
                    }
                    Ok(Ok(tz)) => tz,
                };
                // quick: recorded transitions and rule years up to 2100
                let pieces = if quick { zones::probe_pieces(&model, &|y| y <= 2100) } else { zones::probe_pieces(&model, &|_| true) };
                Some(ZJob { name: name.to_string(), model, tz, pieces })
            })
            .collect();
        r.count("zoned_bundled_names", jobs.len() as u64);
        let parse = move |s: &str| PARSER.parse_zoned_with(&db, s).map_err(|e| e.to_string());
        run_zone_jobs(r, "zoned_bundled", &jobs, &parse);
    });
}

fn fixed_name(off: i32) -> String {
    if off == 0 {
        return "UTC".to_string();
    }
    let a = off.abs();
    format!("{}{:02}:{:02}", if off < 0 { '-' } else { '+' }, a / 3600, (a % 3600) / 60)
}

fn sec_zoned_fixed(r: &Report) {
    r.section("zoned_fixed", || {
        let maxm = 25 * 60 + 59;
        let tss: Vec<i128> = vf::pools::timestamps().into_iter().map(|t| t.as_nanosecond()).collect();
        let parse = |s: &str| s.parse::<Zoned>().map_err(|e| e.to_string());
        (-maxm..=maxm).into_par_iter().for_each(|m: i32| {
            let off = m * 60;
            let tz = match guard(|| TimeZone::fixed(Offset::from_seconds(off).unwrap())) {
                Ok(tz) => tz,
                Err(p) => {
                    r.viol("zoned_fixed", &format!("TimeZone::fixed/{}", panic_sig(&p)), format!("offset={}", off), p);
                    return;
                }
            };
            let name = fixed_name(off);
            let fm = rtz::zone_fixed(off, "");
            let mut st = ZStats::default();
            for &t in &tss {
                check_zoned(r, "zoned_fixed", &format!("fixed{}", off), &name, &tz, Some(&fm), t, &parse, None, &mut st, None);
            }
            flush_stats(r, &st);
        });
        r.count("zoned_fixed_offsets", (2 * maxm + 1) as u64);
    });
}

// ---------------------------------------------------------------------------
// printer options
// ---------------------------------------------------------------------------

#[derive(Clone, Copy, Debug)]
struct Opt {
    precision: Option<u8>,
    sep: u8,
    lower: bool,
}

impl Opt {
    fn all() -> Vec<Opt> {
        let mut v = vec![];
        let mut precs: Vec<Option<u8>> = vec![None];
        precs.extend((0..=9).map(Some));
        for &precision in &precs {
            for sep in [b'T', b't', b' '] {
                for lower in [false, true] {
                    v.push(Opt { precision, sep, lower });
                }
            }
        }
        v
    }
    fn name(&self) -> String {
        format!(" precision={:?} sep={:?} lowercase={}", self.precision, self.sep as char, self.lower)
    }
    fn printer(&self) -> DateTimePrinter {
        DateTimePrinter::new().precision(self.precision).separator(self.sep).lowercase(self.lower)
    }
    fn printed_sep(&self) -> u8 {
        if self.lower {
            self.sep.to_ascii_lowercase()
        } else {
            self.sep
        }
    }
    /// floor to the printed precision (the civil fraction is the floor
    /// fraction of the instant because offsets are whole seconds)
    fn truncate(&self, ns: i128) -> i128 {
        match self.precision {
            None => ns,
            Some(p) => {
                let unit = 10i128.pow(9 - p.min(9) as u32);
                ns.div_euclid(unit) * unit
            }
        }
    }
    fn lossy(&self, ns: i128) -> bool {
        self.truncate(ns) != ns
    }
    /// number of fraction digits the text must carry
    fn want_digits(&self, ns: i128) -> Option<u8> {
        match self.precision {
            Some(p) => Some(p.min(9)),
            None => {
                let mut f = ns.rem_euclid(NS);
                if f == 0 {
                    return Some(0);
                }
                let mut d = 9u8;
                while f % 10 == 0 {
                    f /= 10;
                    d -= 1;
                }
                Some(d)
            }
        }
    }
}

fn sec_options(r: &Report) {
    r.section("options", || {
        let opts = Opt::all();
        let quick = r.quick();
        let n_lossy = std::sync::atomic::AtomicU64::new(0);
        let n_lossless = std::sync::atomic::AtomicU64::new(0);
        let tally = |o: &Opt, ns: i128| {
            use std::sync::atomic::Ordering::Relaxed;
            if o.lossy(ns) {
                n_lossy.fetch_add(1, Relaxed);
            } else {
                n_lossless.fetch_add(1, Relaxed);
            }
        };

        // --- Time and DateTime pools ---------------------------------------
        let mut times: Vec<Time> = vf::pools::times();
        for &ns in &SUBSEC {
            times.push(Time::new(7, 8, 9, ns as i32).unwrap());
            times.push(Time::new(23, 59, 59, ns as i32).unwrap());
        }
        let mut dts: Vec<DateTime> = vf::pools::datetimes();
        for d in vf::pools::dates() {
            for t in &times {
                dts.push(DateTime::from_parts(d, *t));
            }
        }
        opts.par_iter().for_each(|o| {
            let pr = o.printer();
            for t in &times {
                let tn = conv::time_ns(*t);
                tally(o, tn);
                let case = || format!("time {}{}", t, o.name());
                match guard(|| {
                    let text = pr.time_to_string(t);
                    let back = PARSER.parse_time(&text);
                    (text, back)
                }) {
                    Err(p) => r.viol("options", &format!("DateTimePrinter::time_to_string->parse_time/{}", panic_sig(&p)), case(), p),
                    Ok((text, back)) => {
                        let want = o.truncate(tn);
                        match back {
                            Err(e) => r.viol("options", "DateTimePrinter::time_to_string->parse_time/parse-error", case(), format!("text {:?}: {}", text, e)),
                            Ok(b) => {
                                if conv::time_ns(b) != want {
                                    r.viol("options", "DateTimePrinter::time_to_string->parse_time/value", case(), format!("text {:?} parsed {}", text, b));
                                }
                            }
                        }
                        match rfmt::read_time(&text) {
                            Err(e) => r.viol("options", "DateTimePrinter::time_to_string/reader-grammar", case(), format!("text {:?}: {}", text, e)),
                            Ok(rd) => {
                                let tt = rd.time.unwrap();
                                let got = ((tt.0 * 3600 + tt.1 * 60 + tt.2) as i128) * NS + tt.3 as i128;
                                if got != want || Some(tt.4) != o.want_digits(tn) {
                                    r.viol("options", "DateTimePrinter::time_to_string/reader-value", case(), format!("text {:?} read {:?}", text, tt));
                                }
                            }
                        }
                    }
                }
            }
            for dt in &dts {
                let cn = conv::dt_civil_ns(*dt);
                tally(o, cn);
                let case = || format!("datetime {}{}", dt, o.name());
                match guard(|| {
                    let text = pr.datetime_to_string(dt);
                    let back = PARSER.parse_datetime(&text);
                    (text, back)
                }) {
                    Err(p) => r.viol("options", &format!("DateTimePrinter::datetime_to_string->parse_datetime/{}", panic_sig(&p)), case(), p),
                    Ok((text, back)) => {
                        let want = o.truncate(cn);
                        match back {
                            Err(e) => r.viol("options", "DateTimePrinter::datetime_to_string->parse_datetime/parse-error", case(), format!("text {:?}: {}", text, e)),
                            Ok(b) => {
                                if conv::dt_civil_ns(b) != want {
                                    r.viol("options", "DateTimePrinter::datetime_to_string->parse_datetime/value", case(), format!("text {:?} parsed {}", text, b));
                                }
                            }
                        }
                        match rfmt::read_full(&text, false, false) {
                            Err(e) => r.viol("options", "DateTimePrinter::datetime_to_string/reader-grammar", case(), format!("text {:?}: {}", text, e)),
                            Ok(rd) => {
                                if rd.civil_ns() != Some(want) || rd.sep != Some(o.printed_sep()) || rd.time.map(|t| t.4) != o.want_digits(cn) {
                                    r.viol("options", "DateTimePrinter::datetime_to_string/reader-value", case(), format!("text {:?} read {:?}", text, rd));
                                }
                            }
                        }
                    }
                }
            }
            let n = (times.len() + dts.len()) as u64;
            r.add_states(n);
            r.add_transitions(3 * n);
            r.add_validated(2 * n);
        });

        // --- Timestamp pool (with and without offset) ------------------------
        let mut tss: Vec<i128> = vf::pools::timestamps().into_iter().map(|t| t.as_nanosecond()).collect();
        for base in [0i128, -1, 1_700_000_000] {
            for &ns in &SUBSEC {
                tss.push(base * NS + ns as i128);
            }
        }
        tss.sort_unstable();
        tss.dedup();
        let offs: [Option<i32>; 7] = [None, Some(0), Some(-18_000), Some(19_800), Some(45_900), Some(-93_540), Some(93_540)];
        opts.par_iter().for_each(|o| {
            let pr = o.printer();
            let mut n = 0u64;
            for &t in &tss {
                for &off in &offs {
                    n += 1;
                    tally(o, t);
                    let case = || format!("timestamp t={} offset={:?}{}", conv::fmt_ns(t), off, o.name());
                    let op = if off.is_some() { "DateTimePrinter::timestamp_with_offset_to_string" } else { "DateTimePrinter::timestamp_to_string" };
                    match guard(|| {
                        let ts = Timestamp::from_nanosecond(t).unwrap();
                        let text = match off {
                            None => pr.timestamp_to_string(&ts),
                            Some(s) => pr.timestamp_with_offset_to_string(&ts, Offset::from_seconds(s).unwrap()),
                        };
                        let back = PARSER.parse_timestamp(&text);
                        (text, back)
                    }) {
                        Err(p) => r.viol("options", &format!("{}->parse_timestamp/{}", op, panic_sig(&p)), case(), p),
                        Ok((text, back)) => {
                            let want = o.truncate(t);
                            let rd = rfmt::read_full(&text, true, false);
                            match &rd {
                                Err(e) => r.viol("options", &format!("{}/reader-grammar", op), case(), format!("text {:?}: {}", text, e)),
                                Ok(rd) => {
                                    r.count("reader_instants_compared", 1);
                                    let zulu_ok = off.is_some() || rd.off == Some(Off::Zulu);
                                    if rd.instant_ns() != Some(want) || rd.sep != Some(o.printed_sep()) || rd.time.map(|t| t.4) != o.want_digits(t) || !zulu_ok {
                                        r.viol("options", &format!("{}/reader-instant", op), case(), format!("text {:?} read {:?} -> {:?} want {}", text, rd, rd.instant_ns(), want));
                                    }
                                }
                            }
                            match back {
                                Err(e) => r.viol("options", &format!("{}->parse_timestamp/parse-error", op), case(), format!("text {:?}: {}", text, e)),
                                Ok(b) => {
                                    if let Some(cl) = ts_mismatch(b, want) {
                                        let f13 = rd.as_ref().ok().and_then(f13_class).filter(|_| cl == "not-equal-value");
                                        let k = match f13 {
                                            Some(c) => format!("[{}]", c),
                                            None => String::new(),
                                        };
                                        r.viol(
                                            "options",
                                            &format!("{}->parse_timestamp/{}{}", op, cl, k),
                                            case(),
                                            format!("text {:?} parsed {:?} (second={} subsec={}) want ns={}", text, b, b.as_second(), b.subsec_nanosecond(), want),
                                        );
                                    }
                                }
                            }
                        }
                    }
                }
            }
            r.add_states(n);
            r.add_transitions(3 * n);
            r.add_validated(2 * n);
        });

        // --- std::fmt precision ({:.N}) on Timestamp ---------------------------
        for &t in &tss {
            for p in [0usize, 1, 3, 6, 9, 12] {
                let o = Opt { precision: Some(p.min(9) as u8), sep: b'T', lower: false };
                let case = || format!("timestamp t={} fmt-precision={}", conv::fmt_ns(t), p);
                match guard(|| {
                    let ts = Timestamp::from_nanosecond(t).unwrap();
                    let text = format!("{:.*}", p, ts);
                    let back = text.parse::<Timestamp>();
                    (text, back)
                }) {
                    Err(pn) => r.viol("options", &format!("Timestamp::fmt(precision)->from_str/{}", panic_sig(&pn)), case(), pn),
                    Ok((text, back)) => match back {
                        Err(e) => r.viol("options", "Timestamp::fmt(precision)->from_str/parse-error", case(), format!("text {:?}: {}", text, e)),
                        Ok(b) => {
                            if ts_mismatch(b, o.truncate(t)).is_some() {
                                r.viol("options", "Timestamp::fmt(precision)->from_str/value", case(), format!("text {:?} parsed {:?}", text, b));
                            }
                        }
                    },
                }
                r.add_states(1);
                r.add_validated(1);
            }
        }

        // --- Zoned: representative zones ---------------------------------------
        let db = jiff::tz::db();
        let parse = |s: &str| PARSER.parse_zoned(s).map_err(|e| e.to_string());
        let reps = zones::rep();
        // (zone, option) pairs in parallel
        let mut work: Vec<(usize, Opt)> = vec![];
        for zi in 0..reps.len() {
            for o in &opts {
                work.push((zi, *o));
            }
        }
        let loaded: Vec<Option<(rtz::Zone, TimeZone, Vec<i128>)>> = reps
            .iter()
            .map(|z| {
                let model = rtz::zone_from_tzif(&z.bytes).ok()?;
                let tz = guard(|| db.get(&z.name)).ok()?.ok()?;
                // probes: pool timestamps + P(z) of the recorded transitions
                // (quick: the last 12 recorded + first 4; thorough: all
                // recorded and rule years to 2040)
                let mut v: Vec<i128> = vf::pools::timestamps().into_iter().map(|t| t.as_nanosecond()).collect();
                v.extend(zone_edge_probes(&model));
                let ks = if quick { zones::probe_pieces(&model, &|_| false) } else { zones::probe_pieces(&model, &|y| y <= 2040) };
                let pick: Vec<usize> = if quick && ks.len() > 16 {
                    ks[..4].iter().chain(ks[ks.len() - 12..].iter()).copied().collect()
                } else {
                    ks
                };
                for k in pick {
                    probes_for_piece(&model, k, &mut v);
                }
                clip(&mut v);
                v.sort_unstable();
                v.dedup();
                Some((model, tz, v))
            })
            .collect();
        work.par_iter().for_each(|(zi, o)| {
            let Some((model, tz, probes)) = &loaded[*zi] else { return };
            let name = &reps[*zi].name;
            let mut st = ZStats::default();
            for &t in probes {
                tally(o, t);
                check_zoned(r, "options", name, name, tz, Some(model), t, &parse, Some(o), &mut st, None);
            }
            flush_stats(r, &st);
        });
        use std::sync::atomic::Ordering::Relaxed;
        r.count("options_lossy", n_lossy.load(Relaxed));
        r.count("options_lossless", n_lossless.load(Relaxed));
        r.count("options_configs", opts.len() as u64);
    });
}
