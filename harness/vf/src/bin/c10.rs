//! C10: rounding a datetime yields the correct multiple of the increment for
//! every mode.
//! E1: complete products (type) x (unit) x (every legal increment) x (9 modes)
//! x (values at multiples, ties, +-1 ns around both, type limits), in lockstep
//! with `refmodel::num::round` on exact i128 nanosecond counts.
//!
//! Oracle (DESIGN.md section 3/C10):
//! * Timestamp: counted from the epoch; SignedDuration / Offset: from zero;
//!   Time / DateTime: from midnight, the carry into the date done with R-cal
//!   (Time wraps around, as its documentation says). `Err` iff the result is
//!   outside the type's range.
//! * Zoned, sub-day units: round the civil datetime, then re-resolve in the
//!   zone keeping the original offset iff it is still valid for the rounded
//!   civil time, else "compatible". Unit::Day: start of the civil day or of
//!   the next one, according to the mode applied to elapsed / real day length
//!   (both ends from R-tz).
//! * increments: legal under the property *and* the type's documentation =
//!   proper divisor of the next larger unit (day: only 1); must be rejected:
//!   <= 0 or not dividing the next larger unit (Timestamp: not dividing one
//!   24-hour day); anything in between is not flagged either way, but if jiff
//!   accepts it the rounding must be right.

use jiff::civil::{DateTime, DateTimeDifference, DateTimeRound, Time, TimeDifference, TimeRound};
use jiff::tz::{Offset, OffsetRound};
use jiff::{RoundMode, SignedDuration, SignedDurationRound, Timestamp, TimestampDifference, TimestampRound, Unit, ZonedRound};
use rayon::prelude::*;
use refmodel::cal;
use refmodel::num::{self, Mode};
use refmodel::tz as rtz;
use serde_json::json;
use std::collections::BTreeSet;
use std::sync::atomic::{AtomicU64, Ordering::Relaxed};
use vf::conv::{self, DAY_NS, NS};
use vf::{guard, panic_sig, Report};

const MODES: [(RoundMode, Mode, &str); 9] = [
    (RoundMode::Ceil, Mode::Ceil, "Ceil"),
    (RoundMode::Floor, Mode::Floor, "Floor"),
    (RoundMode::Expand, Mode::Expand, "Expand"),
    (RoundMode::Trunc, Mode::Trunc, "Trunc"),
    (RoundMode::HalfCeil, Mode::HalfCeil, "HalfCeil"),
    (RoundMode::HalfFloor, Mode::HalfFloor, "HalfFloor"),
    (RoundMode::HalfExpand, Mode::HalfExpand, "HalfExpand"),
    (RoundMode::HalfTrunc, Mode::HalfTrunc, "HalfTrunc"),
    (RoundMode::HalfEven, Mode::HalfEven, "HalfEven"),
];

/// index 0..=6: ns us ms s min h d
const UNITS: [(Unit, &str, i128); 7] = [
    (Unit::Nanosecond, "ns", 1),
    (Unit::Microsecond, "us", 1_000),
    (Unit::Millisecond, "ms", 1_000_000),
    (Unit::Second, "s", NS),
    (Unit::Minute, "min", 60 * NS),
    (Unit::Hour, "h", 3_600 * NS),
    (Unit::Day, "d", DAY_NS),
];
/// size of the next larger unit, in this unit
const NEXT: [i64; 6] = [1_000, 1_000, 1_000, 60, 60, 24];
const BIG_UNITS: [(Unit, &str); 4] = [(Unit::Day, "d"), (Unit::Week, "w"), (Unit::Month, "mo"), (Unit::Year, "y")];

#[derive(Clone, Copy, PartialEq, Eq, Debug)]
enum Leg {
    /// legal under both readings: must be accepted
    Legal,
    /// legal under one reading only: accepted or rejected, but never wrong
    Between,
}

#[derive(Clone, Copy, PartialEq, Eq, Debug)]
enum Ty {
    Timestamp,
    SignedDuration,
    Offset,
    Time,
    DateTime,
    Zoned,
}

fn divisors(n: i64) -> Vec<i64> {
    let mut v = vec![];
    let mut d = 1i64;
    while d * d <= n {
        if n % d == 0 {
            v.push(d);
            if d != n / d {
                v.push(n / d);
            }
        }
        d += 1;
    }
    v.sort();
    v
}

/// every increment that is legal under at least one reading
fn increments(ty: Ty, u: usize) -> Vec<(i64, Leg)> {
    if u == 6 {
        return vec![(1, Leg::Legal)];
    }
    let next = NEXT[u];
    let mut v: Vec<(i64, Leg)> = divisors(next).into_iter().map(|d| (d, if d < next { Leg::Legal } else { Leg::Between })).collect();
    if ty == Ty::Timestamp {
        let day = (DAY_NS / UNITS[u].2) as i64;
        for d in divisors(day) {
            if next % d != 0 {
                v.push((d, Leg::Between));
            }
        }
    }
    v
}

/// must this increment be rejected under both readings?
fn must_reject(ty: Ty, u: usize, inc: i64) -> bool {
    if inc <= 0 {
        return true;
    }
    if u == 6 {
        return inc != 1;
    }
    if ty == Ty::Timestamp {
        let day = (DAY_NS / UNITS[u].2) as i64;
        day % inc != 0
    } else {
        NEXT[u] % inc != 0
    }
}

fn inc_class(inc: i64) -> &'static str {
    if inc == 0 {
        "inc=0"
    } else if inc < 0 {
        "inc<0"
    } else {
        "non-divisor"
    }
}

/// k*b, k*b +-1, (k+1/2)*b, (k+1/2)*b +-1 for k in -3..=2 (for odd b the two
/// integers straddling the half and their neighbours)
fn offsets(b: i128) -> BTreeSet<i128> {
    let mut s = BTreeSet::new();
    for k in -3..=2i128 {
        let m = k * b;
        for x in [m - 1, m, m + 1] {
            s.insert(x);
        }
        let h = m + b / 2;
        if b % 2 == 0 {
            for x in [h - 1, h, h + 1] {
                s.insert(x);
            }
        } else {
            for x in [h - 1, h, h + 1, h + 2] {
                s.insert(x);
            }
        }
    }
    s
}

/// values at and around the limits lo..=hi of a type, for step b
fn near_limits(b: i128, lo: i128, hi: i128) -> BTreeSet<i128> {
    let mut s = BTreeSet::new();
    for x in [lo, lo + 1, hi - 1, hi] {
        s.insert(x);
    }
    let m_hi = hi.div_euclid(b) * b;
    let m_lo = -((-lo).div_euclid(b) * b);
    for m in [m_hi, m_lo] {
        for d in [0, 1, b / 2 - 1, b / 2, b / 2 + 1, b / 2 + 2] {
            s.insert(m + d);
            s.insert(m - d);
        }
    }
    s.retain(|x| *x >= lo && *x <= hi);
    s
}

struct Tally {
    ok: AtomicU64,
    err: AtomicU64,
    ties: AtomicU64,
    moved_up: AtomicU64,
    moved_down: AtomicU64,
    carried: AtomicU64,
    wrapped: AtomicU64,
    between_accepted: AtomicU64,
    between_rejected: AtomicU64,
    rejected_ok: AtomicU64,
    z_kept: AtomicU64,
    z_fold: AtomicU64,
    z_gap: AtomicU64,
    z_day_up: AtomicU64,
    z_day_down: AtomicU64,
    z_day_not24: AtomicU64,
    z_skip_offset: AtomicU64,
    z_skip_day: AtomicU64,
    z_skip_amb: AtomicU64,
    f5_class: AtomicU64,
}
impl Tally {
    fn new() -> Tally {
        let z = || AtomicU64::new(0);
        Tally {
            ok: z(),
            err: z(),
            ties: z(),
            moved_up: z(),
            moved_down: z(),
            carried: z(),
            wrapped: z(),
            between_accepted: z(),
            between_rejected: z(),
            rejected_ok: z(),
            z_kept: z(),
            z_fold: z(),
            z_gap: z(),
            z_day_up: z(),
            z_day_down: z(),
            z_day_not24: z(),
            z_skip_offset: z(),
            z_skip_day: z(),
            z_skip_amb: z(),
            f5_class: z(),
        }
    }
    fn shape(&self, x: i128, b: i128, res: i128) {
        if 2 * x.rem_euclid(b) == b {
            self.ties.fetch_add(1, Relaxed);
        }
        if res > x {
            self.moved_up.fetch_add(1, Relaxed);
        } else if res < x {
            self.moved_down.fetch_add(1, Relaxed);
        }
    }
}

#[derive(Clone, Copy, PartialEq, Eq, Debug)]
enum Want {
    Ok(i128),
    Err,
}

/// Compare one rounding call with the model.
/// `got`: Err(panic) | Ok(None) = jiff returned Err | Ok(Some(v)).
/// `class`: an input-derived signature that overrides the generic ones.
fn judge(r: &Report, t: &Tally, sec: &str, ty: &str, leg: Leg, class: Option<&str>, case: &dyn Fn() -> String, got: Result<Option<i128>, String>, want: Want) {
    let sig = |generic: &str| -> String {
        match class {
            Some(c) => c.to_string(),
            None => format!("{}::round/{}", ty, generic),
        }
    };
    match (got, want) {
        (Err(p), w) => {
            let s = match class {
                Some(c) => c.to_string(),
                None => format!("{}::round/{}", ty, panic_sig(&p)),
            };
            r.viol(sec, &s, case(), format!("jiff panic {} model {:?}", p, w));
        }
        (Ok(None), Want::Err) => {
            t.err.fetch_add(1, Relaxed);
        }
        (Ok(None), Want::Ok(w)) => {
            if leg == Leg::Between {
                t.between_rejected.fetch_add(1, Relaxed);
            } else {
                r.viol(sec, &sig("err-but-result-in-range"), case(), format!("jiff Err model Ok({})", w));
            }
        }
        (Ok(Some(g)), Want::Err) => {
            r.viol(sec, &sig("result-out-of-range-not-Err"), case(), format!("jiff Ok({}) model Err (out of range)", g));
        }
        (Ok(Some(g)), Want::Ok(w)) => {
            if leg == Leg::Between {
                t.between_accepted.fetch_add(1, Relaxed);
            }
            t.ok.fetch_add(1, Relaxed);
            if g != w {
                r.viol(sec, &sig("value"), case(), format!("jiff {} model {}", g, w));
            }
        }
    }
}

fn fmt_civil(ns: i128) -> String {
    let day = ns.div_euclid(DAY_NS);
    let tod = ns.rem_euclid(DAY_NS);
    let (y, m, d) = cal::civil_from_days(day as i64);
    let s = tod / NS;
    format!("{}-{:02}-{:02}T{:02}:{:02}:{:02}.{:09}", y, m, d, s / 3600, (s / 60) % 60, s % 60, tod % NS)
}

fn sdur_from_ns(x: i128) -> SignedDuration {
    SignedDuration::new((x / NS) as i64, (x % NS) as i32)
}
fn sdur_ns(d: SignedDuration) -> i128 {
    d.as_secs() as i128 * NS + d.subsec_nanos() as i128
}
const SDUR_MIN: i128 = i64::MIN as i128 * NS - 999_999_999;
const SDUR_MAX: i128 = i64::MAX as i128 * NS + 999_999_999;
const OFF_MAX_S: i128 = 25 * 3600 + 59 * 60 + 59;

fn main() {
    let r = Report::from_args("C10");
    let thorough = r.thorough();
    r.note("alphabets: per (unit, increment): values k*inc, k*inc+-1ns, (k+1/2)*inc, (k+1/2)*inc+-1ns for k in -3..=2 plus the type's limits; all 9 modes; increments: every proper divisor of the next larger unit (and that unit's size, unflagged), for Timestamp every divisor of a 24-hour day in each unit; DateTime on every date of the date pool");
    let t = Tally::new();
    let ts_min = conv::ts_min_ns();
    let ts_max = conv::ts_max_ns();

    // ---------------- Timestamp ----------------
    r.section("timestamp", || {
        let cfgs: Vec<(usize, i64, Leg)> = (0..6).flat_map(|u| increments(Ty::Timestamp, u).into_iter().map(move |(i, l)| (u, i, l))).collect();
        r.count("timestamp_unit_increment_pairs", cfgs.len() as u64);
        cfgs.par_iter().for_each(|&(u, inc, leg)| {
            let b = inc as i128 * UNITS[u].2;
            let mut vals = offsets(b);
            vals.extend(near_limits(b, ts_min, ts_max));
            let mut n = 0u64;
            for &x in &vals {
                let ts = Timestamp::from_nanosecond(x).expect("in range");
                for (jm, mm, mname) in MODES {
                    let res = num::round(x, b, mm);
                    let want = if res >= ts_min && res <= ts_max { Want::Ok(res) } else { Want::Err };
                    t.shape(x, b, res);
                    // F4: the rounded instant leaves the Timestamp range
                    let class = if want == Want::Err { Some("Timestamp::round/result-out-of-range-not-Err") } else { None };
                    let case = || format!("Timestamp {} round {}x{} {}", conv::fmt_ns(x), inc, UNITS[u].1, mname);
                    let got = guard(|| ts.round(TimestampRound::new().smallest(UNITS[u].0).increment(inc).mode(jm)).ok().map(|v| v.as_nanosecond()));
                    judge(&r, &t, "timestamp", "Timestamp", leg, class, &case, got, want);
                    n += 1;
                }
            }
            r.add_states(vals.len() as u64);
            r.add_transitions(n);
            r.add_validated(n);
        });
        r.sample(json!({"case": "Timestamp -1.500000000 round 1xs HalfEven", "model_ns": num::round(-1_500_000_000, NS, Mode::HalfEven)}));
    });

    // ---------------- SignedDuration ----------------
    r.section("signed_duration", || {
        let cfgs: Vec<(usize, i64, Leg)> = (0..6).flat_map(|u| increments(Ty::SignedDuration, u).into_iter().map(move |(i, l)| (u, i, l))).collect();
        r.count("unit_increment_pairs", cfgs.len() as u64);
        cfgs.par_iter().for_each(|&(u, inc, leg)| {
            let b = inc as i128 * UNITS[u].2;
            let mut vals = offsets(b);
            vals.extend(near_limits(b, SDUR_MIN, SDUR_MAX));
            let mut n = 0u64;
            for &x in &vals {
                let d = sdur_from_ns(x);
                assert_eq!(sdur_ns(d), x);
                for (jm, mm, mname) in MODES {
                    let res = num::round(x, b, mm);
                    let want = if res >= SDUR_MIN && res <= SDUR_MAX { Want::Ok(res) } else { Want::Err };
                    t.shape(x, b, res);
                    // input class N2: the in-range result has i64::MIN whole seconds and a
                    // non-zero fraction (jiff floors the seconds of the rounded total)
                    let class = if want != Want::Err && res < i64::MIN as i128 * NS { Some("SignedDuration::round/err-but-result-in-range:secs=i64::MIN-with-fraction") } else { None };
                    let case = || format!("SignedDuration {}ns round {}x{} {}", x, inc, UNITS[u].1, mname);
                    let got = guard(|| d.round(SignedDurationRound::new().smallest(UNITS[u].0).increment(inc).mode(jm)).ok().map(sdur_ns));
                    judge(&r, &t, "signed_duration", "SignedDuration", leg, class, &case, got, want);
                    n += 1;
                }
            }
            r.add_states(vals.len() as u64);
            r.add_transitions(n);
            r.add_validated(n);
        });
    });

    // ---------------- Offset (whole seconds) ----------------
    r.section("offset", || {
        let cfgs: Vec<(usize, i64, Leg)> = (3..6).flat_map(|u| increments(Ty::Offset, u).into_iter().map(move |(i, l)| (u, i, l))).collect();
        cfgs.par_iter().for_each(|&(u, inc, leg)| {
            let b = inc as i128 * (UNITS[u].2 / NS); // seconds
            let mut vals = offsets(b);
            vals.extend(near_limits(b, -OFF_MAX_S, OFF_MAX_S));
            vals.retain(|x| x.abs() <= OFF_MAX_S);
            let mut n = 0u64;
            for &x in &vals {
                let off = Offset::from_seconds(x as i32).expect("offset in range");
                for (jm, mm, mname) in MODES {
                    let res = num::round(x, b, mm);
                    let want = if res.abs() <= OFF_MAX_S { Want::Ok(res) } else { Want::Err };
                    t.shape(x, b, res);
                    let case = || format!("Offset {}s round {}x{} {}", x, inc, UNITS[u].1, mname);
                    let got = guard(|| off.round(OffsetRound::new().smallest(UNITS[u].0).increment(inc).mode(jm)).ok().map(|o| o.seconds() as i128));
                    judge(&r, &t, "offset", "Offset", leg, None, &case, got, want);
                    n += 1;
                }
            }
            r.add_states(vals.len() as u64);
            r.add_transitions(n);
            r.add_validated(n);
        });
    });

    // time-of-day values for (unit, inc)
    let tod_vals = |b: i128| -> BTreeSet<i128> {
        let mut s: BTreeSet<i128> = offsets(b).into_iter().map(|v| v.rem_euclid(DAY_NS)).collect();
        for x in [0, 1, DAY_NS - 1, DAY_NS - 2, DAY_NS / 2 - 1, DAY_NS / 2, DAY_NS / 2 + 1] {
            s.insert(x);
        }
        s
    };

    // ---------------- Time ----------------
    r.section("time", || {
        let cfgs: Vec<(usize, i64, Leg)> = (0..6).flat_map(|u| increments(Ty::Time, u).into_iter().map(move |(i, l)| (u, i, l))).collect();
        cfgs.par_iter().for_each(|&(u, inc, leg)| {
            let b = inc as i128 * UNITS[u].2;
            let vals = tod_vals(b);
            let mut n = 0u64;
            for &x in &vals {
                let tm = conv::time_from_ns(x);
                for (jm, mm, mname) in MODES {
                    let res = num::round(x, b, mm);
                    t.shape(x, b, res);
                    if res == DAY_NS {
                        t.wrapped.fetch_add(1, Relaxed);
                    }
                    // documented: "rounding wraps around on overflow", never an error
                    let want = Want::Ok(res % DAY_NS);
                    let case = || format!("Time {} round {}x{} {}", conv::fmt_ns(x), inc, UNITS[u].1, mname);
                    let got = guard(|| tm.round(TimeRound::new().smallest(UNITS[u].0).increment(inc).mode(jm)).ok().map(conv::time_ns));
                    judge(&r, &t, "time", "Time", leg, None, &case, got, want);
                    n += 1;
                }
            }
            r.add_states(vals.len() as u64);
            r.add_transitions(n);
            r.add_validated(n);
        });
    });

    // ---------------- DateTime ----------------
    r.section("datetime", || {
        let dates = vf::pools::dates();
        let cfgs: Vec<(usize, i64, Leg)> = (0..7).flat_map(|u| increments(Ty::DateTime, u).into_iter().map(move |(i, l)| (u, i, l))).collect();
        let dtmax = conv::dt_max_ns();
        cfgs.par_iter().for_each(|&(u, inc, leg)| {
            let b = inc as i128 * UNITS[u].2;
            let vals = tod_vals(b);
            let mut n = 0u64;
            for &d in &dates {
                let day = conv::date_epoch_day(d) as i128;
                let year = d.year();
                for &x in &vals {
                    let dt = DateTime::from_parts(d, conv::time_from_ns(x));
                    for (jm, mm, mname) in MODES {
                        let rt = num::round(x, b, mm);
                        t.shape(x, b, rt);
                        let carry = rt == DAY_NS;
                        let res = day * DAY_NS + rt;
                        let want = if res <= dtmax { Want::Ok(res) } else { Want::Err };
                        let mut class = None;
                        if carry {
                            t.carried.fetch_add(1, Relaxed);
                            if year <= 0 {
                                // F5: the day carry is multiplied by signum(year)
                                t.f5_class.fetch_add(1, Relaxed);
                                class = Some("DateTime::round/day-carry:year<=0");
                            }
                        }
                        let case = || format!("DateTime {} round {}x{} {}", fmt_civil(day * DAY_NS + x), inc, UNITS[u].1, mname);
                        let got = guard(|| dt.round(DateTimeRound::new().smallest(UNITS[u].0).increment(inc).mode(jm)).ok().map(conv::dt_civil_ns));
                        judge(&r, &t, "datetime", "DateTime", leg, class, &case, got, want);
                        n += 1;
                    }
                }
            }
            r.add_states((vals.len() * dates.len()) as u64);
            r.add_transitions(n);
            r.add_validated(n);
        });
        r.sample(json!({"case": "DateTime 0-06-15T23:59:59.900000000 round 1xs HalfExpand", "model": fmt_civil(cal::days_from_civil(0, 6, 16) as i128 * DAY_NS)}));
    });

    // ---------------- increments / units that must be rejected ----------------
    r.section("illegal", || {
        let probe_incs = |u: usize| -> Vec<i64> {
            let next = if u < 6 { NEXT[u] } else { 1 };
            let mut v = vec![0, -1, -3, i64::MIN, 7, 13, 2 * next, next + 1, 7 * next, 1_001, 86_401, i64::MAX];
            if u == 6 {
                v.extend([2, 3, 24]);
            }
            v.sort();
            v.dedup();
            v
        };
        let tz = jiff::tz::TimeZone::UTC;
        let n = AtomicU64::new(0);
        for ty in [Ty::Timestamp, Ty::SignedDuration, Ty::Offset, Ty::Time, Ty::DateTime, Ty::Zoned] {
            let units: Vec<usize> = match ty {
                Ty::Offset => vec![3, 4, 5],
                Ty::DateTime | Ty::Zoned => (0..7).collect(),
                _ => (0..6).collect(),
            };
            let tyname = format!("{:?}", ty);
            for u in units {
                for inc in probe_incs(u) {
                    if !must_reject(ty, u, inc) {
                        continue;
                    }
                    // F11: SignedDuration / Offset never validate the increment
                    let sig = format!("{}::round/illegal-increment-not-rejected:{}", tyname, inc_class(inc));
                    let ub = UNITS[u].2;
                    let vals: Vec<i128> = match ty {
                        Ty::Offset => vec![0, 10, -10, 5_400, -5_400],
                        _ => vec![0, 10 * NS, -10 * NS, ub * 3 / 2, -(ub * 3 / 2), 12_345_678_912_345],
                    };
                    for &x in &vals {
                        for (jm, _mm, mname) in MODES {
                            let case = format!("{} {} round {}x{} {}", tyname, x, inc, UNITS[u].1, mname);
                            let unit = UNITS[u].0;
                            let got: Result<Option<String>, String> = match ty {
                                Ty::Timestamp => guard(|| Timestamp::from_nanosecond(x).unwrap().round(TimestampRound::new().smallest(unit).increment(inc).mode(jm)).ok().map(|v| v.to_string())),
                                Ty::SignedDuration => guard(|| sdur_from_ns(x).round(SignedDurationRound::new().smallest(unit).increment(inc).mode(jm)).ok().map(|v| format!("{:?}", v))),
                                Ty::Offset => guard(|| Offset::from_seconds(x as i32).unwrap().round(OffsetRound::new().smallest(unit).increment(inc).mode(jm)).ok().map(|v| v.to_string())),
                                Ty::Time => guard(|| conv::time_from_ns(x.rem_euclid(DAY_NS)).round(TimeRound::new().smallest(unit).increment(inc).mode(jm)).ok().map(|v| v.to_string())),
                                Ty::DateTime => guard(|| conv::dt_from_civil_ns(x).unwrap().round(DateTimeRound::new().smallest(unit).increment(inc).mode(jm)).ok().map(|v| v.to_string())),
                                Ty::Zoned => guard(|| Timestamp::from_nanosecond(x).unwrap().to_zoned(tz.clone()).round(ZonedRound::new().smallest(unit).increment(inc).mode(jm)).ok().map(|v| v.to_string())),
                            };
                            n.fetch_add(1, Relaxed);
                            match got {
                                Ok(None) => {
                                    t.rejected_ok.fetch_add(1, Relaxed);
                                }
                                Ok(Some(v)) => r.viol("illegal", &sig, case, format!("jiff Ok({}) but the increment does not evenly divide the next larger unit", v)),
                                Err(p) => r.viol("illegal", &sig, case, format!("jiff panic {}", p)),
                            }
                        }
                    }
                }
            }
            // units the type's documentation excludes
            let bad_units: Vec<(Unit, &str)> = match ty {
                Ty::DateTime | Ty::Zoned => BIG_UNITS[1..].to_vec(),
                Ty::Offset => {
                    let mut v = BIG_UNITS.to_vec();
                    v.extend([(Unit::Nanosecond, "ns"), (Unit::Microsecond, "us"), (Unit::Millisecond, "ms")]);
                    v
                }
                _ => BIG_UNITS.to_vec(),
            };
            for (unit, uname) in bad_units {
                for x in [0i128, 10 * NS, -10 * NS] {
                    for (jm, _mm, mname) in MODES {
                        let case = format!("{} {} round 1x{} {}", tyname, x, uname, mname);
                        let got: Result<bool, String> = match ty {
                            Ty::Timestamp => guard(|| Timestamp::from_nanosecond(x).unwrap().round(TimestampRound::new().smallest(unit).mode(jm)).is_ok()),
                            Ty::SignedDuration => guard(|| sdur_from_ns(x).round(SignedDurationRound::new().smallest(unit).mode(jm)).is_ok()),
                            Ty::Offset => guard(|| Offset::from_seconds((x / NS) as i32).unwrap().round(OffsetRound::new().smallest(unit).mode(jm)).is_ok()),
                            Ty::Time => guard(|| conv::time_from_ns(x.rem_euclid(DAY_NS)).round(TimeRound::new().smallest(unit).mode(jm)).is_ok()),
                            Ty::DateTime => guard(|| conv::dt_from_civil_ns(x).unwrap().round(DateTimeRound::new().smallest(unit).mode(jm)).is_ok()),
                            Ty::Zoned => guard(|| Timestamp::from_nanosecond(x).unwrap().to_zoned(tz.clone()).round(ZonedRound::new().smallest(unit).mode(jm)).is_ok()),
                        };
                        n.fetch_add(1, Relaxed);
                        match got {
                            Ok(false) => {
                                t.rejected_ok.fetch_add(1, Relaxed);
                            }
                            Ok(true) => r.viol("illegal", &format!("{}::round/unsupported-unit-not-rejected", tyname), case, "jiff Ok for a unit the type's documentation excludes"),
                            Err(p) => r.viol("illegal", &format!("{}::round/unsupported-unit:{}", tyname, panic_sig(&p)), case, p),
                        }
                    }
                }
            }
        }
        let n = n.load(Relaxed);
        r.add_states(n);
        r.add_transitions(n);
        r.add_validated(n);
    });

    // ---------------- until / since with rounding options ----------------
    r.section("difference", || {
        // total of the returned span must be round(b - a) resp. round(a - b)
        let span_ns = |s: jiff::Span| -> i128 {
            assert!(s.get_years() == 0 && s.get_months() == 0 && s.get_weeks() == 0 && s.get_days() == 0);
            s.get_hours() as i128 * 3_600 * NS
                + s.get_minutes() as i128 * 60 * NS
                + s.get_seconds() as i128 * NS
                + s.get_milliseconds() as i128 * 1_000_000
                + s.get_microseconds() as i128 * 1_000
                + s.get_nanoseconds() as i128
        };
        let cfgs: Vec<(usize, i64)> = (0..6)
            .flat_map(|u| {
                let all: Vec<i64> = divisors(NEXT[u]).into_iter().filter(|&d| d < NEXT[u]).collect();
                let pick: Vec<i64> = if thorough { all } else { all.into_iter().filter(|d| [1, 2, 5, 15, 30, 500, 3, 12].contains(d)).collect() };
                pick.into_iter().map(move |i| (u, i))
            })
            .collect();
        let times = vf::pools::times();
        let tss = vf::pools::timestamps();
        let dts: Vec<DateTime> = {
            let ds = vf::pools::dates();
            let tms = [Time::midnight(), Time::new(11, 59, 59, 999_999_999).unwrap(), Time::new(23, 59, 59, 500_000_000).unwrap()];
            ds.iter().flat_map(|&d| tms.iter().map(move |&tm| DateTime::from_parts(d, tm))).collect()
        };
        cfgs.par_iter().for_each(|&(u, inc)| {
            let b = inc as i128 * UNITS[u].2;
            let unit = UNITS[u].0;
            let mut n = 0u64;
            let check = |what: &str, case: &dyn Fn() -> String, got: Result<Option<i128>, String>, want: i128| match got {
                Err(p) => r.viol("difference", &format!("{}/{}", what, panic_sig(&p)), case(), p),
                Ok(None) => {
                    // a rounded total beyond the span limit of 175_307_616 hours may be refused
                    if want.abs() <= 175_307_616 * 3_600 * NS {
                        r.viol("difference", &format!("{}/err", what), case(), format!("jiff Err model {}", want))
                    }
                }
                Ok(Some(g)) => {
                    if g != want {
                        r.viol("difference", &format!("{}/value", what), case(), format!("jiff total {}ns model {}ns", g, want));
                    }
                }
            };
            for (jm, mm, mname) in MODES {
                for &a in &times {
                    for &c in &times {
                        let diff = conv::time_ns(c) - conv::time_ns(a);
                        let case = |op: &str| format!("Time {} {} {} smallest {}x{} {}", a, op, c, inc, UNITS[u].1, mname);
                        check("Time::until(rounded)", &|| case("until"), guard(|| a.until(TimeDifference::new(c).smallest(unit).increment(inc).mode(jm)).ok().map(span_ns)), num::round(diff, b, mm));
                        check("Time::since(rounded)", &|| case("since"), guard(|| a.since(TimeDifference::new(c).smallest(unit).increment(inc).mode(jm)).ok().map(span_ns)), num::round(-diff, b, mm));
                        t.shape(diff, b, num::round(diff, b, mm));
                        n += 2;
                    }
                }
                for &a in &tss {
                    for &c in &tss {
                        let diff = c.as_nanosecond() - a.as_nanosecond();
                        let case = |op: &str| format!("Timestamp {} {} {} largest h smallest {}x{} {}", conv::fmt_ns(a.as_nanosecond()), op, conv::fmt_ns(c.as_nanosecond()), inc, UNITS[u].1, mname);
                        check("Timestamp::until(rounded)", &|| case("until"), guard(|| a.until(TimestampDifference::new(c).largest(Unit::Hour).smallest(unit).increment(inc).mode(jm)).ok().map(span_ns)), num::round(diff, b, mm));
                        check("Timestamp::since(rounded)", &|| case("since"), guard(|| a.since(TimestampDifference::new(c).largest(Unit::Hour).smallest(unit).increment(inc).mode(jm)).ok().map(span_ns)), num::round(-diff, b, mm));
                        n += 2;
                    }
                }
                for &a in &dts {
                    for &c in &dts {
                        let diff = conv::dt_civil_ns(c) - conv::dt_civil_ns(a);
                        let case = |op: &str| format!("DateTime {} {} {} largest h smallest {}x{} {}", a, op, c, inc, UNITS[u].1, mname);
                        check("DateTime::until(rounded)", &|| case("until"), guard(|| a.until(DateTimeDifference::new(c).largest(Unit::Hour).smallest(unit).increment(inc).mode(jm)).ok().map(span_ns)), num::round(diff, b, mm));
                        check("DateTime::since(rounded)", &|| case("since"), guard(|| a.since(DateTimeDifference::new(c).largest(Unit::Hour).smallest(unit).increment(inc).mode(jm)).ok().map(span_ns)), num::round(-diff, b, mm));
                        n += 2;
                    }
                }
            }
            r.add_states(n / 18);
            r.add_transitions(n);
            r.add_validated(n);
        });
    });

    // ---------------- Zoned ----------------
    r.section("zoned", || zoned(&r, &t, thorough));

    for (name, c) in [
        ("results_in_range", &t.ok),
        ("results_out_of_range_err", &t.err),
        ("exact_ties", &t.ties),
        ("rounded_up", &t.moved_up),
        ("rounded_down", &t.moved_down),
        ("datetime_carried_into_next_day", &t.carried),
        ("datetime_carry_with_year<=0", &t.f5_class),
        ("time_wrapped_to_midnight", &t.wrapped),
        ("in_between_increment_accepted", &t.between_accepted),
        ("in_between_increment_rejected", &t.between_rejected),
        ("illegal_increment_or_unit_rejected", &t.rejected_ok),
        ("zoned_original_offset_kept", &t.z_kept),
        ("zoned_compatible_in_fold_or_unique", &t.z_fold),
        ("zoned_compatible_in_gap", &t.z_gap),
        ("zoned_day_rounded_up", &t.z_day_up),
        ("zoned_day_rounded_down", &t.z_day_down),
        ("zoned_day_length_not_24h", &t.z_day_not24),
        ("zoned_skipped_offset_disagrees_with_model(C03)", &t.z_skip_offset),
        ("zoned_skipped_day_bounds_undefined", &t.z_skip_day),
        ("zoned_skipped_resolution_undefined", &t.z_skip_amb),
    ] {
        r.outcome(name, c.load(Relaxed));
    }
    if r.only_section.is_none() {
        r.require(t.ties.load(Relaxed) > 0 && t.moved_up.load(Relaxed) > 0 && t.moved_down.load(Relaxed) > 0, "ties, upward and downward roundings all occur");
        r.require(t.err.load(Relaxed) > 0, "some roundings leave the type's range");
        r.require(t.carried.load(Relaxed) > 0 && t.f5_class.load(Relaxed) > 0, "datetime roundings carry into the next day, also for years <= 0");
        r.require(t.wrapped.load(Relaxed) > 0, "time roundings wrap");
        r.require(t.rejected_ok.load(Relaxed) > 0, "illegal increments rejected somewhere");
        r.require(t.z_kept.load(Relaxed) > 0 && t.z_gap.load(Relaxed) > 0 && t.z_fold.load(Relaxed) > 0, "zoned: offset kept, gap and fold/unique resolution all occur");
        r.require(t.z_day_up.load(Relaxed) > 0 && t.z_day_down.load(Relaxed) > 0 && t.z_day_not24.load(Relaxed) > 0, "zoned day rounding goes both ways, on days that are not 24h long");
    }
    r.finish();
}

// ---------------------------------------------------------------------------
// Zoned
// ---------------------------------------------------------------------------

fn utoff_of_piece(z: &rtz::Zone, k: usize) -> i64 {
    z.infos[z.pieces[k].info as usize].utoff as i64
}

/// first instant (unix seconds) whose local date is epoch day `d`
fn first_instant_of_day(z: &rtz::Zone, d: i64) -> Option<i64> {
    let c = d * 86_400;
    let pre = z.preimages(c);
    if let Some(m) = pre.iter().map(|p| p.0).min() {
        return Some(m);
    }
    let g = z.gap_around(c);
    if g.len() == 1 {
        Some(z.pieces[g[0]].start)
    } else {
        None
    }
}

enum ZWant {
    Ok(i128),
    Err,
    Skip,
}

fn zoned(r: &Report, t: &Tally, thorough: bool) {
    let ts_min = conv::ts_min_ns();
    let ts_max = conv::ts_max_ns();
    let dt_max = conv::dt_max_ns();
    let mut srcs = vf::zones::rep();
    if thorough {
        let have: BTreeSet<String> = srcs.iter().map(|z| z.name.clone()).collect();
        for z in vf::zones::sys(true) {
            if !have.contains(&z.name) {
                srcs.push(z);
            }
        }
    }
    let n_rep = vf::zones::REP.len();
    r.count("zoned_zones", srcs.len() as u64);
    // sub-day (unit, increment) pairs of DESIGN.md: increments {1, 2, 15, 30} where legal
    let cfgs: Vec<(usize, i64)> = (0..6).flat_map(|u| [1i64, 2, 15, 30].into_iter().filter(move |&i| i < NEXT[u] && NEXT[u] % i == 0).map(move |i| (u, i))).collect();
    let n_trans = AtomicU64::new(0);
    let n_load_fail = AtomicU64::new(0);
    srcs.par_iter().enumerate().for_each(|(zi, src)| {
        let pair = match vf::zones::load_pair(src) {
            Ok(p) => p,
            Err(_) => {
                n_load_fail.fetch_add(1, Relaxed);
                return;
            }
        };
        let z = &pair.model;
        let is_rep = zi < n_rep;
        // which transitions: recorded ones always; rule-generated ones by year
        let year_ok = |y: i64| -> bool {
            if thorough && is_rep {
                true
            } else if thorough {
                y <= 2040
            } else {
                y <= 2100 || y >= 9990 || y % 100 == 0
            }
        };
        let ks: Vec<usize> = z
            .changing()
            .into_iter()
            .filter(|&k| {
                let p = &z.pieces[k];
                if p.start < vf::zones::TS_MIN_SEC + 200_000 || p.start > vf::zones::TS_MAX_SEC - 200_000 {
                    return false;
                }
                p.recorded || year_ok(cal::civil_from_days(p.start.div_euclid(86_400)).0)
            })
            .collect();
        n_trans.fetch_add(ks.len() as u64, Relaxed);
        ks.par_iter().for_each(|&k| {
            let tr = z.pieces[k].start;
            let ob = utoff_of_piece(z, k - 1);
            let oa = utoff_of_piece(z, k);
            // the civil days touched by the transition
            let mut days = BTreeSet::new();
            days.insert((tr - 1 + ob).div_euclid(86_400));
            days.insert((tr + oa).div_euclid(86_400));
            let mut probes: BTreeSet<i128> = BTreeSet::new();
            for &d in &days {
                if let (Some(s0), Some(s1)) = (first_instant_of_day(z, d), first_instant_of_day(z, d + 1)) {
                    if s1 > s0 {
                        let l = (s1 - s0) as i128 * NS;
                        let s = s0 as i128 * NS;
                        for x in [s - 1, s, s + 1, s + l / 4, s + l / 2 - 1, s + l / 2, s + l / 2 + 1, s + 3 * l / 4] {
                            probes.insert(x);
                        }
                    }
                }
            }
            let trn = tr as i128 * NS;
            for x in [trn - 1, trn, trn + 1] {
                probes.insert(x);
            }
            let mut n = 0u64;
            let mut states = 0u64;
            let mut run_probe = |x: i128, only_cfg: Option<(usize, i64)>| {
                if x < ts_min || x > ts_max {
                    return;
                }
                states += 1;
                n += zoned_probe(r, t, &pair, x, &cfgs, only_cfg, dt_max, ts_min, ts_max);
            };
            for &x in &probes {
                run_probe(x, None);
            }
            // transition +- half an increment, for that (unit, increment) only
            for &(u, inc) in &cfgs {
                let b = inc as i128 * UNITS[u].2;
                for x in [trn - b / 2, trn + b / 2] {
                    if b >= 2 && !probes.contains(&x) {
                        run_probe(x, Some((u, inc)));
                    }
                }
            }
            r.add_states(states);
            r.add_transitions(n);
            r.add_validated(n);
        });
        // type limits in this zone
        if is_rep {
            let mut n = 0;
            for x in [ts_min, ts_min + 1, ts_max - 1, ts_max] {
                n += zoned_probe(r, t, &pair, x, &cfgs, None, dt_max, ts_min, ts_max);
            }
            r.add_states(4);
            r.add_transitions(n);
            r.add_validated(n);
        }
    });
    r.sample(json!({"case": "Zoned America/Sao_Paulo 2015-10-18T12:40-02:00 round 1xd HalfExpand", "model": "day runs 01:00..24:00 (23h), 11h40m elapsed > half, so 2015-10-19T00:00-02:00"}));
    r.count("zoned_transitions_probed", n_trans.load(Relaxed));
    r.count("zoned_zones_not_loadable", n_load_fail.load(Relaxed));
    r.note(format!(
        "zoned: {} zones; every transition day probed at start-of-day (+-1ns), 1/4, 1/2 (+-1ns), 3/4 of its real length and at the transition (+-1ns, +-inc/2); sub-day units x increments {{1,2,15,30}} where legal x 9 modes, and Unit::Day x 9 modes",
        srcs.len()
    ));
}

/// All roundings of one zoned instant. Returns the number of comparisons.
fn zoned_probe(r: &Report, t: &Tally, pair: &vf::zones::Pair, x: i128, cfgs: &[(usize, i64)], only_cfg: Option<(usize, i64)>, dt_max: i128, ts_min: i128, ts_max: i128) -> u64 {
    let z = &pair.model;
    let sec = x.div_euclid(NS) as i64;
    let off = z.utoff_at(sec) as i64;
    let civil = x + off as i128 * NS;
    let zdt = match guard(|| Timestamp::from_nanosecond(x).unwrap().to_zoned(pair.jiff.clone())) {
        Ok(zd) => zd,
        Err(p) => {
            r.viol("zoned", &format!("Timestamp::to_zoned/{}", panic_sig(&p)), format!("Zoned {} {}", pair.name, conv::fmt_ns(x)), p);
            return 0;
        }
    };
    if zdt.offset().seconds() as i64 != off {
        // jiff and the model disagree on the offset in force at this instant:
        // that is C03's subject (F2), the rounding property says nothing here
        t.z_skip_offset.fetch_add(1, Relaxed);
        return 0;
    }
    let mut n = 0u64;
    let tod = civil.rem_euclid(DAY_NS);
    let day = civil.div_euclid(DAY_NS);
    let year = cal::civil_from_days(day as i64).0;
    let one = |u: usize, inc: i64, n: &mut u64| {
        let b = inc as i128 * UNITS[u].2;
        for (jm, mm, mname) in MODES {
            let rt = num::round(tod, b, mm);
            let rc = day * DAY_NS + rt;
            let mut class: Option<&str> = None;
            if rt == DAY_NS && year <= 0 {
                class = Some("Zoned::round/day-carry:year<=0");
            }
            let want = if rc > dt_max {
                ZWant::Err
            } else {
                let rc_sec = rc.div_euclid(NS) as i64;
                let frac = rc.rem_euclid(NS);
                let t0 = rc_sec - off;
                let tsec = if z.utoff_at(t0) as i64 == off {
                    t.z_kept.fetch_add(1, Relaxed);
                    Some(t0)
                } else {
                    let pre = z.preimages(rc_sec);
                    if let Some(m) = pre.iter().map(|p| p.0).min() {
                        t.z_fold.fetch_add(1, Relaxed);
                        Some(m)
                    } else {
                        let g = z.gap_around(rc_sec);
                        if g.len() == 1 {
                            t.z_gap.fetch_add(1, Relaxed);
                            Some(rc_sec - utoff_of_piece(z, g[0] - 1))
                        } else {
                            None
                        }
                    }
                };
                match tsec {
                    None => ZWant::Skip,
                    Some(s) => {
                        let v = s as i128 * NS + frac;
                        if v < ts_min || v > ts_max {
                            ZWant::Err
                        } else {
                            ZWant::Ok(v)
                        }
                    }
                }
            };
            let want = match want {
                ZWant::Skip => {
                    t.z_skip_amb.fetch_add(1, Relaxed);
                    continue;
                }
                ZWant::Ok(v) => Want::Ok(v),
                ZWant::Err => Want::Err,
            };
            let case = || format!("Zoned {} {} ({}) round {}x{} {}", pair.name, conv::fmt_ns(x), fmt_civil(civil), inc, UNITS[u].1, mname);
            let got = guard(|| zdt.round(ZonedRound::new().smallest(UNITS[u].0).increment(inc).mode(jm)).ok().map(|v| v.timestamp().as_nanosecond()));
            judge(r, t, "zoned", "Zoned", Leg::Legal, class, &case, got, want);
            *n += 1;
        }
    };
    match only_cfg {
        Some((u, inc)) => one(u, inc, &mut n),
        None => {
            for &(u, inc) in cfgs {
                one(u, inc, &mut n);
            }
        }
    }
    if only_cfg.is_some() {
        return n;
    }
    // Unit::Day
    let s0 = first_instant_of_day(z, day as i64);
    let s1 = first_instant_of_day(z, day as i64 + 1);
    let bounds = match (s0, s1) {
        (Some(a), Some(b)) => {
            let (a, b) = (a as i128 * NS, b as i128 * NS);
            if a >= ts_min && b <= ts_max && a <= x && x < b {
                Some((a, b))
            } else {
                None
            }
        }
        _ => None,
    };
    for (jm, mm, mname) in MODES {
        let case = || format!("Zoned {} {} ({}) round 1xd {}", pair.name, conv::fmt_ns(x), fmt_civil(civil), mname);
        let got = guard(|| zdt.round(ZonedRound::new().smallest(Unit::Day).mode(jm)).ok().map(|v| v.timestamp().as_nanosecond()));
        match bounds {
            None => {
                // day bounds not both representable / instant outside its own
                // civil day's first run: only "no panic" is demanded
                t.z_skip_day.fetch_add(1, Relaxed);
                if let Err(p) = got {
                    r.viol("zoned", &format!("Zoned::round(day)/{}", panic_sig(&p)), case(), p);
                }
            }
            Some((a, b)) => {
                let l = b - a;
                let res = a + num::round(x - a, l, mm);
                if l != DAY_NS {
                    t.z_day_not24.fetch_add(1, Relaxed);
                }
                if res == b && x != a {
                    t.z_day_up.fetch_add(1, Relaxed);
                } else {
                    t.z_day_down.fetch_add(1, Relaxed);
                }
                // input class N3: this civil day or the next one does not begin at
                // 00:00 on the wall clock (its midnight falls in a gap), so
                // "start + 1 day" is not the start of the next day
                // A day that begins right after a gap which itself began at 00:00
                // is handled (start of day = compatible resolution of midnight).
                // A gap that *straddles* midnight (began before 00:00, or skips
                // the whole previous day) is its own input class: jiff resolves
                // midnight with the compatible strategy, which lands later than
                // the first instant of the day.
                let straddles = |s: i128| {
                    let wall = |t: i128| (t + z.utoff_at(t.div_euclid(NS) as i64) as i128 * NS).rem_euclid(DAY_NS);
                    wall(s) != 0 && wall(s - 1) != DAY_NS - 1
                };
                let class = if straddles(a) || straddles(b) { Some("Zoned::round(day)/day-or-next-day-begins-after-gap-straddling-midnight") } else { Some("Zoned::round(day)/value") };
                judge(r, t, "zoned", "Zoned", Leg::Legal, class, &case, got, Want::Ok(res));
            }
        }
        n += 1;
    }
    n
}
